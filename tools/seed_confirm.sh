#!/bin/bash
# usage: seed_confirm.sh <PID> <n>   (n = "" or 2: reads /tmp/seed-<PID>/seeded_out<n>/)
# Confirms a seeded change in its scratch worktree (demo passes without, fails with, suite still 227 passed),
# stores it under /verif/seeded/<PID>-<k>/ and runs the property's quick check against it in a scratch copy.
pid="$1"; n="${2:-}"; sfx="${3:-}"; wt="/tmp/seed-$pid$sfx"; src="$wt/seeded_out$n"
[ -f "$src/patch.diff" ] || { echo "no $src/patch.diff"; exit 2; }
k=1; while [ -d "/verif/seeded/$pid-$k" ]; do k=$((k+1)); done
dst="/verif/seeded/$pid-$k"
cd "$wt" || exit 2
git checkout -q -- src; rm -f tests/seeded_demo.rs; mkdir -p tests; cp "$src/seeded_demo.rs" tests/seeded_demo.rs
echo "== demo WITHOUT change"; cargo test --offline --test seeded_demo 2>&1 | grep -E "^test result|error(\[|:)" | head -3
without=$(cargo test --offline --test seeded_demo 2>&1 | grep -c "^test result: ok")
git apply "$src/patch.diff" || { echo "patch does not apply"; exit 2; }
echo "== build + suite WITH change"; cargo build --offline 2>&1 | grep -E "^error" -A5 | head
suite=$(cargo test --offline --lib 2>&1 | grep "^test result" | head -1); echo "$suite"
echo "== demo WITH change"; withlog=$(cargo test --offline --test seeded_demo 2>&1); withrc=$?; withres=$(echo "$withlog" | grep "^test result" | head -1)
if [ -z "$withres" ] && [ $withrc -ne 0 ]; then withres="FAILED (test binary aborted: $(echo "$withlog" | grep -E "overflowed|SIGABRT|signal" | head -1))"; fi; echo "$withres"
git checkout -q -- src
ok_suite=$(echo "$suite" | grep -c "227 passed; 52 failed")
fails_with=$(echo "$withres" | grep -c "FAILED")
if [ "$without" -ge 1 ] && [ "$ok_suite" = 1 ] && [ "$fails_with" = 1 ]; then
  mkdir -p "$dst"; cp "$src/patch.diff" "$src/seeded_demo.rs" "$src/meta.json" "$dst/"
  echo "CONFIRMED -> $dst"
  echo "== running ./check $pid quick against the mutant (scratch copy)"
  out=$(/verif/tools/mutant_run.sh "$dst/patch.diff" "$pid" quick 2>&1); rc=$?
  echo "$out" | tail -12
  python3 - "$dst" "$rc" "$suite" "$withres" <<PY
import json,sys
d,rc,suite,withres=sys.argv[1:5]
m=json.load(open(d+'/meta.json'))
m['confirmed_by_main']={'demo_passes_without':True,'suite_with_change':suite.strip(),'demo_with_change':withres.strip()}
m['check_quick_exit']=int(rc); m['caught_by_quick']=(int(rc)==1)
m['ran']=['cargo test --offline --test seeded_demo (without/with change)','cargo test --offline --lib (with change)','tools/mutant_run.sh patch.diff '+m['property']+' quick']
json.dump(m,open(d+'/meta.json','w'),indent=1)
PY
  echo "check exit code: $rc"
else
  echo "NOT CONFIRMED (without=$without suite_ok=$ok_suite fails_with=$fails_with)"
fi
