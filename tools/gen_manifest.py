#!/usr/bin/env python3
"""Regenerates /verif/MANIFEST.json from the table below (claimed checks) — everything else goes to not_applicable."""
import json, subprocess
props = [json.loads(l) for l in open('/verif/properties.jsonl')]
hook_commits = subprocess.run("git -C /repo log --format=%h --grep='^verif hooks'", shell=True, capture_output=True, text=True).stdout.split()

C = {}
def claim(pid, technique, text, note, design):
    C[pid] = dict(technique=technique, text=text, note=note, design=design)

claim("C01", "property-based fuzzing of token-grammar byte streams in sandboxed worker processes; oracle = no panic/abort per character (panic-signature classification), proptest + ddmin shrinking",
      "Generated-input exploration: 1.1M (quick) / 15M (thorough) structured streams over all 14 emulation configurations, sizes 1..132 x 1..60 and three buffer shapes, plus exhaustive tables (every CSI final x intermediate x parameter lists up to 2^31-1 on four screen states; 54 state-setting sequences with huge numbers x every control function; every 1..3-token sequence of the ~90-token control-function alphabet on two sizes, fresh and after text = 3.1M; chains of 1..20000 distinct macros), each byte fed through print_char in a worker whose panics, aborts and stack overflows are observed; thorough adds a coverage-guided libFuzzer stage with the same oracle. No proof of absence; coverage of deep DCS/OSC states is measured in the class histogram.",
      "built with overflow checks and debug assertions on (profile 'checked': a panic that only a debug build would hit counts too); numeric parameters of the long generated streams capped at 9999 (the tables and the big_streams part carry 2^31-1; REP's count stays capped, its run time is C03's open finding); timeouts are inconclusive, not violations; panic signatures come from the current sources", "DESIGN.md 3/C01")
claim("C03", "metamorphic resource-bound testing: exhaustive control-function table + generated magnitudes, each input measured (CPU of all threads, peak heap via counting allocator) in a sandboxed worker with watchdog; oracle CPU(large) <= max(0.5 s, 50 x CPU(size)), heap <= 256 MiB",
      "Exhaustive over the control-function table (63 finals x 8 intermediates x ~150 parameter lists x 3 screen prefixes = 228k inputs in quick, all 2^(k-1) fillings in thorough), 173k pairs (state-setting sequence with a huge number, alone or on a screen with an existing region, followed by every control function), 1.8M stored-number cases (a sequence that stores 10^6 / 2^31-1 as macro id, font slot, tab stop, saved cursor, palette index or hyperlink id, followed by every control function with every selector 0..=99), the table once more as an ANSI document (43k), macro/sixel/font/Avatar families, header-byte extremes of 7 golden binary files, plus 300k/6M generated CSI sequences with random magnitudes.",
      "CPU time is the work measure (no iteration counters): loops below ~0.5 s for 2^31-1 are invisible; families with a listed open finding (eight: REP, macro repeat / fan-out, three sixel headers, IcyDraw layer size, document rows following the cursor) are represented by their witness only (counted as discarded)", "DESIGN.md 3/C03")
claim("C09", "exhaustive small-scope enumeration of token sequences + property-based random streams; state invariant evaluated after every input character",
      "Exhaustive over all 1..3-token sequences of an 80-token control-function alphabet on five screen sizes (3-token part on two sizes in quick, all five in thorough), every CSI final x intermediate x 24 selector-like and boundary parameter lists on ten prepared screens (242k), plus 150k/4M random streams for every emulation; the cursor/geometry invariant is checked after every byte.",
      "a sequence ends at its first violation; panics/aborts end a history without verdict (C01); streams with a resize request (recognised by spelling and by effect) are outside the statement", "DESIGN.md 3/C09")
claim("C12", "exhaustive per-glyph strip documents (43 font pages x 256 glyphs x 8 neighbour attributes x 2 slot layouts) + property-based layered documents; oracle = byte equality of the reference renderer's RGBA output before/after ColorOptimizer, plus an independent glyph-shape judgement from the font bitmaps",
      "Every glyph of every built-in font page is exercised exhaustively in a 5x2 strip document; 800k/12M generated documents (1..4 layers, alpha/offset/hidden, up to 3 font slots incl. an edited clone of slot 0's font with a stale cached checksum, palette-inserted RGB colours, bold, storage shapes, attached SAUCE records that contradict the document) with both normalize_whitespaces settings; 3,440 exhaustive strips over the redrawn glyphs of every page's edited clone.",
      "Buffer::render_to_rgba and Buffer::get_char are the reference renderer/compositor (as the property states); layer modes Chars/Attributes, overlay, sixels and chars above 255 are outside the quantifier", "DESIGN.md 3/C12")
claim("C13", "metamorphic property-based testing (six stacking laws L1..L6 over generated layer stacks) + exhaustive enumeration of all 96^3 three-layer single-cell stacks",
      "500k/12M generated stacks of 1..5 layers (incl. layers shrunk after drawing, pending preview offsets, non-default role / lock flags / title / colour tag) checked against six relational laws at every position of the bounding box + 2; all 884,736 stacks of three 1x1 layers (3 modes x alpha x visible x 8 cell kinds) enumerated exhaustively; separate part for invisible cells carrying non-canonical content.",
      "laws are relational (a consistently wrong colour in transparent-colour resolution is invisible to them); equal default font page on all layers, no overlay layer, precedence between several Chars/Attributes layers not asserted (not in the statement)", "DESIGN.md 3/C13")
claim("C14", "property-based testing with a reference sixel rasteriser (differential oracle) + exhaustive schedule enumeration (k! completion orders x 2^k poll placements) against a FIFO model through a cfg-guarded decode gate",
      "Payload part: 400k/12M generated payloads (raster attributes with 0..6 parameters, repeated and at any position), rectangle law and pixel-exact agreement with an independent rasteriser. Schedule part: for each generated placement of k<=4 images every completion order and every poll placement is executed against the real threads, compared with a FIFO-prefix model after each poll; a blocking poll is detected by the worker watchdog.",
      "completion order is controlled at the granularity 'decode finished' via the icy_engine_verif hook; preemption inside update_sixel_threads (single-threaded code) is not explored", "DESIGN.md 3/C14")
claim("C19", "exhaustive enumeration against a bit-at-a-time reference (2^16 CRC-16 states x 256 bytes, all 4096 CRC-32 table entries, all 2-byte strings) + property-based random strings",
      "Exhaustive for the CRC-16 update function and the sliced CRC-32 table (which by linearity covers every state); one-shot vs incremental API compared on 1M/40M generated strings with forced lengths around the 16-byte fast path, on 456k exhaustive cases (fill pattern x length 0..=64 x a constant field at every position, each through windows starting 0..=7 bytes after a 16-byte boundary) and 300k/10M structured strings (zero / all-ones / small-number words) at every alignment.",
      "the bitwise reference implementations in the harness are the definition", "DESIGN.md 3/C19")

import os
extra = '/verif/tools/manifest_extra.py'
if os.path.exists(extra):
    exec(open(extra).read())

checks = []
for p in props:
    pid = p['id']
    if pid not in C: continue
    c = C[pid]
    checks.append({
        "property_id": pid,
        "quick_cmd": f"./check {pid} quick",
        "thorough_cmd": f"./check {pid} thorough",
        "evidence_file": f"/verif/evidence/{pid}.json",
        "replay_cmd_template": f"./check {pid} --replay {{path}}",
        "engine": "icyv",
        "level_claimed": {"category": "exploration", "text": c['text'], "design_ref": c['design']},
        "level_note": c['note'],
        "technique": c['technique'],
    })
m = {
 "version": 1,
 "setup_cmd": "cd /verif/harness && CARGO_NET_OFFLINE=true cargo build --release --offline " + " ".join("--bin " + c['property_id'].lower() for c in checks) + " && cargo build --profile ubcheck --offline --bin c10 && cargo build --profile checked --offline " + " ".join("--bin " + c['property_id'].lower() for c in checks if c['property_id'] in ('C01', 'C02')),
 "hooks": {"guard": "cfg(icy_engine_verif)", "enable": "rustflags = [\"--cfg\", \"icy_engine_verif\"] in /verif/harness/.cargo/config.toml (every ./check build uses it)",
           "baseline_off_cmd": "cd /repo && cargo test --workspace --no-fail-fast --offline",
           "source_commits": hook_commits, "add_only": True},
 "engines": [{"name": "icyv", "path": "/verif/harness", "serves_properties": [c['property_id'] for c in checks],
              "kind_free_text": "Rust harness crate: proptest-driven generated-input search (manual new_tree/simplify/complicate driver, seeded ChaCha), exhaustive enumeration for finite domains, worker-process isolation for crash/time properties, known-finding classification, evidence writer; one binary per property"}],
 "checks": checks,
 "not_applicable": [{"property_id": p['id'], "reason": "check under construction in this session (not yet claimed); technique applies, see DESIGN.md section 3/" + p['id']} for p in props if p['id'] not in C],
 "notes": "./check <ID> <quick|thorough> rebuilds the harness against /repo's working tree (hooks on) and runs one property; known findings in /verif/known_findings.json; fix commits in /repo are recorded there as 'fixed: ...' lines",
}
json.dump(m, open('/verif/MANIFEST.json', 'w'), indent=1)
print("claimed:", [c['property_id'] for c in checks])
