#!/usr/bin/env python3
"""Record a confirmed genuine defect as a known finding.
usage: adopt_finding.py <replay.json> <finding-id> <what text> [--prefix N]
Moves the replay file to replay/<ID>/known/<finding-id>.json and appends an 'open' entry to known_findings.json.
--prefix N : match on the first N '|'-separated fields of the key (key_prefix) instead of the exact key."""
import json, sys, os, shutil
args = sys.argv[1:]
prefix = None
if '--prefix' in args:
    i = args.index('--prefix'); prefix = int(args[i+1]); del args[i:i+2]
rp, fid, what = args[0], args[1], args[2]
V = '/verif'
r = json.load(open(rp))
pid = r['property']
kd = os.path.join(V, 'replay', pid, 'known'); os.makedirs(kd, exist_ok=True)
dst = os.path.join(kd, fid + '.json')
shutil.move(rp, dst)
kf = os.path.join(V, 'known_findings.json')
db = json.load(open(kf)) if os.path.exists(kf) else {"findings": []}
db['findings'] = [f for f in db['findings'] if f['id'] != fid]
e = {"property": pid, "id": fid, "status": "open", "witness": os.path.relpath(dst, V), "what": what}
if prefix:
    e['key_prefix'] = '|'.join(r['key'].split('|')[:prefix])
else:
    e['key'] = r['key']
db['findings'].append(e)
db['findings'].sort(key=lambda f: (f['property'], f['id']))
json.dump(db, open(kf, 'w'), indent=1, ensure_ascii=False)
print("adopted", fid, "->", dst)
