#!/bin/bash
# usage: tools/mutant_run.sh <patch.diff> <ID> [quick|thorough]  (env KEEP=1 keeps the scratch dirs)
# Applies a patch to a scratch copy of /repo, builds the harness against it and runs one check there.
# Exit code = the check's exit code (1 = the mutant was caught).
set -u
patch="$(realpath "$1")"; id="$2"; tier="${3:-quick}"
S=${MUT_SCRATCH:-/tmp/icyv-mut}
bin=$(echo "$id" | tr 'A-Z' 'a-z')
mkdir -p "$S"
rsync -a --delete --exclude target --exclude .git /repo/ "$S/repo/"
rsync -a --delete --exclude target /verif/harness/ "$S/harness/"
sed -i "s#path = \"/repo\"#path = \"$S/repo\"#" "$S/harness/Cargo.toml"
( cd "$S/repo" && patch -p1 --no-backup-if-mismatch < "$patch" >/dev/null ) || { echo "PATCH FAILED"; exit 3; }
rm -rf "$S/out"; mkdir -p "$S/out"
cp /verif/known_findings.json "$S/out/" 2>/dev/null
mkdir -p "$S/out/replay"; for d in /verif/replay/*/; do n=$(basename "$d"); [ -d "$d/known" ] && mkdir -p "$S/out/replay/$n" && cp -r "$d/known" "$S/out/replay/$n/"; done
profile=release; [ "$id" = "C10" ] && profile=ubcheck; case "$id" in C01|C02) profile=checked;; esac
( cd "$S/harness" && CARGO_TARGET_DIR="$S/target" cargo build --profile "$profile" --offline --bin "$bin" 2>&1 | grep -E "^error" -A10 | head -30 )
[ -x "$S/target/$profile/$bin" ] || { echo "BUILD FAILED"; exit 3; }
ICYV_REPO="$S/repo" ICYV_VERIF="$S/out" "$S/target/$profile/$bin" "$tier" 2>&1 | grep -E "^VIOLATION|key=|^\[|KNOWN" | head -20
rc=${PIPESTATUS[0]}
[ "${KEEP:-0}" = 1 ] || rm -rf "$S/repo" "$S/harness" "$S/out"
exit $rc
