#!/usr/bin/env python3
"""Rewrites the block between <!-- FINDINGS-BEGIN --> and <!-- FINDINGS-END --> in DESIGN.md from known_findings.json,
and the block between <!-- SEEDED-BEGIN --> / <!-- SEEDED-END --> from seeded/*/meta.json."""
import json, glob, os, re
V = '/verif'
db = json.load(open(V + '/known_findings.json'))['findings']
fixed = [f for f in db if f['status'] == 'fixed']
openf = [f for f in db if f['status'] == 'open']
out = ["<!-- FINDINGS-BEGIN -->", "", f"**Repaired in /repo ({len(fixed)} `fix:` commits; each entry is a `fixed:` line of known_findings.json and suppresses nothing):**", "",
       "| property | commit | what failed |", "|---|---|---|"]
for f in sorted(fixed, key=lambda f: (f['property'], f['id'])):
    out.append(f"| {f['property']} | {f.get('commit','')} | {f['what'].replace('|','¦')} |")
out += ["", f"**Open known findings ({len(openf)}; each has a witness replay file that is run on every check and printed as a KNOWN-FINDING line):**", "",
        "| property | id | what fails | why not repaired |", "|---|---|---|---|"]
for f in sorted(openf, key=lambda f: (f['property'], f['id'])):
    what = f['what'].replace('|', '¦')
    out.append(f"| {f['property']} | {f['id']} | {what} | needs a design decision by the maintainers (see text) |")
out += ["", "<!-- FINDINGS-END -->"]
s = open(V + '/DESIGN.md').read()
if '<!-- FINDINGS-BEGIN -->' in s:
    s = re.sub(r"<!-- FINDINGS-BEGIN -->.*?<!-- FINDINGS-END -->", lambda m: "\n".join(out), s, flags=re.S)
else:
    s = s.replace("--------------------------------------------------------------------------------------------\n\n## 5. What this family", "\n".join(out) + "\n\n--------------------------------------------------------------------------------------------\n\n## 5. What this family", 1)
rows = []
for d in sorted(glob.glob(V + '/seeded/*/')):
    m = json.load(open(d + 'meta.json'))
    hist = m.get('check_history', [])
    first = hist[0]['exit'] if hist else m.get('check_quick_exit')
    keys = '; '.join(k.replace('|', '¦') for k in (m.get('violation_keys') or [])[:2])
    rows.append(f"| {os.path.basename(d.rstrip('/'))} | {m.get('summary','').replace('|','/')[:230]} | {'yes' if m.get('caught_by_quick') else 'NO'}{'' if first == 1 else ' (after strengthening the check)'} | {keys} |")
sb = ["<!-- SEEDED-BEGIN -->", "", "| seeded change | what was changed (by an independent sub-agent that saw only the property text) | quick tier reports it | keys |", "|---|---|---|---|"] + rows + ["", "<!-- SEEDED-END -->"]
if '<!-- SEEDED-BEGIN -->' in s:
    s = re.sub(r"<!-- SEEDED-BEGIN -->.*?<!-- SEEDED-END -->", lambda m: "\n".join(sb), s, flags=re.S)
else:
    s = s.replace("<!-- FINDINGS-END -->", "<!-- FINDINGS-END -->\n\n### 4c. Seeded changes and which check catches them\n\n" + "\n".join(sb), 1)
open(V + '/DESIGN.md', 'w').write(s)
print(len(fixed), "fixed,", len(openf), "open,", len(rows), "seeded")
