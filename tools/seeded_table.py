#!/usr/bin/env python3
"""Writes seeded/INDEX.md: one row per seeded change (independent sub-agent mutations) with what the checks reported."""
import json, glob, os
rows = []
for d in sorted(glob.glob('/verif/seeded/*/')):
    m = json.load(open(d + 'meta.json'))
    name = os.path.basename(d.rstrip('/'))
    hist = m.get('check_history', [])
    first = hist[0]['exit'] if hist else m.get('check_quick_exit')
    keys = m.get('violation_keys') or []
    voh = m.get('valid_on_head') or {}
    caught = 'yes' if m.get('caught_by_quick') else 'NO'
    if m.get('rejected'):
        caught = 'n/a: rejected on confirmation (' + m['rejected'][:160] + ' ...)'
    elif voh.get('valid') is False:
        caught = 'n/a: harmless on HEAD (' + voh.get('status', '') + '; ' + m.get('superseded_by', '') + ')'
    rows.append((name, m['property'], m.get('summary', '').replace('|', '/'), m.get('needs', '').replace('|', '/'),
                 caught, 'yes' if first == 1 else 'no (check strengthened afterwards)', '; '.join(k.replace('|', '¦') for k in keys[:3])))
with open('/verif/seeded/INDEX.md', 'w') as f:
    f.write("# Seeded changes (written by independent sub-agents that saw only the property text)\n\n")
    f.write("Each directory holds patch.diff (applies to /repo with `git apply`), the demonstration test and meta.json (what was confirmed, what the quick check reported).\n\n")
    f.write("| id | property | change | needs | caught by quick tier now | caught at first attempt | violation keys (first 3) |\n|---|---|---|---|---|---|---|\n")
    for r in rows:
        f.write("| " + " | ".join(r) + " |\n")
print(len(rows), "seeded changes;", sum(1 for r in rows if r[4] == 'yes'), "caught;", sum(1 for r in rows if r[4] == 'NO'), "missed;", sum(1 for r in rows if r[4].startswith('n/a')), "harmless on HEAD")
