#!/usr/bin/env python3
"""usage: record_fix.py <property> <finding-id> <repo-commit> <what failed> [key-or-prefix]
Adds (or converts) an entry of known_findings.json to status 'fixed'. A fixed entry suppresses nothing."""
import json, sys, os
pid, fid, commit, what = sys.argv[1:5]
key = sys.argv[5] if len(sys.argv) > 5 else None
kf = '/verif/known_findings.json'
db = json.load(open(kf)) if os.path.exists(kf) else {"findings": []}
old = [f for f in db['findings'] if f['id'] == fid]
db['findings'] = [f for f in db['findings'] if f['id'] != fid]
e = old[0] if old else {"property": pid, "id": fid}
e.update({"property": pid, "id": fid, "status": "fixed", "commit": commit, "what": what,
          "line": f"fixed: property={pid} {commit} {what}"})
if key: e['key'] = key
db['findings'].append(e)
db['findings'].sort(key=lambda f: (f['property'], f['id']))
json.dump(db, open(kf, 'w'), indent=1, ensure_ascii=False)
print(e['line'])
