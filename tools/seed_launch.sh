#!/bin/bash
# usage: seed_launch.sh <PID>   -> creates worktree /tmp/seed-<PID> and prints the filled-in prompt
pid="$1"; sfx="${2:-}"; wt="/tmp/seed-$pid$sfx"
git -C /repo worktree remove --force "$wt" 2>/dev/null; rm -rf "$wt"
git -C /repo worktree add --detach "$wt" HEAD >/dev/null 2>&1 || exit 1
python3 - "$pid" "$wt" "$sfx" <<'PY'
import json,sys
pid,wt,sfx=sys.argv[1:4]
p=[json.loads(l) for l in open('/verif/properties.jsonl') if json.loads(l)['id']==pid][0]
prop=f"Title: {p['title']}\nStatement: {p['statement']}\nQuantifier: {p['quantifier']['text']}\nWhy the existing tests cannot settle it: {p['why_tests_cant']}\nAnchored files: {', '.join(p['anchors']['files'])}"
t=open('/verif/tools/seed_prompt.md').read().replace('{WT}',wt).replace('{PID}',pid).replace('{PROP}',prop)
if sfx:
    t=t.replace("YOUR TASK:", '''IMPORTANT CONTEXT FOR THIS ROUND: a verification team already tests this property with strong generated-input machinery (hundreds of thousands of random inputs / operation sequences per run, exhaustive enumeration of small cases and of single-parameter boundary values, reference models). Simple off-by-one or dropped-check changes on a main path are found by it within seconds. Your change should survive that kind of testing as long as possible while still clearly violating the property and still being a realistic regression: make the failure depend on a CONJUNCTION of two or three individually unremarkable conditions (a particular mode AND a particular size AND a particular previous operation), on deep state reached only by a specific longer sequence, on a rarely used option or code path, or on a specific value combination that uniform random sampling is unlikely to hit - but not on an absurd magic constant nobody would write.

YOUR TASK:''',1)
open(f'/tmp/seed-prompt-{pid}{sfx}.md','w').write(t)
print(f'/tmp/seed-prompt-{pid}{sfx}.md')
PY
