#!/bin/bash
# usage: seed_launch.sh <PID>   -> creates worktree /tmp/seed-<PID> and prints the filled-in prompt
pid="$1"; wt="/tmp/seed-$pid"
git -C /repo worktree remove --force "$wt" 2>/dev/null; rm -rf "$wt"
git -C /repo worktree add --detach "$wt" HEAD >/dev/null 2>&1 || exit 1
python3 - "$pid" "$wt" <<'PY'
import json,sys
pid,wt=sys.argv[1:3]
p=[json.loads(l) for l in open('/verif/properties.jsonl') if json.loads(l)['id']==pid][0]
prop=f"Title: {p['title']}\nStatement: {p['statement']}\nQuantifier: {p['quantifier']['text']}\nWhy the existing tests cannot settle it: {p['why_tests_cant']}\nAnchored files: {', '.join(p['anchors']['files'])}"
t=open('/verif/tools/seed_prompt.md').read().replace('{WT}',wt).replace('{PID}',pid).replace('{PROP}',prop)
open(f'/tmp/seed-prompt-{pid}.md','w').write(t)
print(f'/tmp/seed-prompt-{pid}.md')
PY
