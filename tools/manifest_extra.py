# claims for agent-built checks (exec'd by gen_manifest.py)
claim("C06", "exhaustive small-scope enumeration (all rows of width 1..6/7 over 3 chars x 3 attrs x 2 font pages; width <= 10 over 2x2) + property-based random pictures; differential oracle = XBin run-length decoder written from the specification, compared with the uncompressed encoding and with the engine's own loader",
      "36M (quick) / 648M (thorough) enumerated rows plus 500k/6M generated pictures (widths around the 64-cell run limit forced); every emitted stream is decoded by the spec decoder (run length 1..64, no run crossing a row end, exact row width, nothing but SAUCE after the last row) and compared cell by cell incl. the font-page bit.",
      "the specification decoder in the harness is the definition; compression optimality is not asserted (not in the statement)", "DESIGN.md 3/C06")
claim("C07", "property-based round-trip testing of generated documents + exhaustive enumeration of layer flag sets, row shapes and cell boundary values; oracle = field-by-field equality after Buffer::to_bytes('icy', lossless) -> Buffer::from_bytes",
      "160k/2.4M generated documents (1..6 layers, Image layers with exact sixel data, long/short/invisible cells, palettes up to 300 colours, font slots up to 300, SAUCE) plus exhaustive parts for flags (384), row shapes (968) and cell values (1800).",
      "round-trip only (no independent decoder of the PNG container); invisible cells canonical; SAUCE date/size not compared; the 3 MB chunk split is informational", "DESIGN.md 3/C07")
claim("C11", "property-based round-trip and differential testing with a reference SAUCE rev. 5 encoder/decoder written from the specification; exhaustive degenerate files (all comment counts 0..255 x tiny contents)",
      "240k/4M metadata round-trips over ten writers, 100k/1.6M writer-split and 160k/2.4M reader-split cases (content ending in SAUCE/COMNT/EOF look-alikes), 2048 degenerate files enumerated; header length compared with the specification formula and pictures compared with and without the trailer.",
      "metadata asserted in the engine-writer -> engine-reader direction; date and file size not asserted; bin odd widths expected rounded down; idf geometry comes from the IDF header", "DESIGN.md 3/C11")
claim("C16", "model-based property testing (insert/set/lookup sequences against a Vec model) + file round-trips for five palette formats + exhaustive 64^3 six-bit colours",
      "300k/3M operation sequences on palettes of 0..300 colours, 100k/1M export->import round-trips, all 262,144 six-bit colours for the VGA and EGA codecs enumerated.",
      "six-bit codec: idempotence only (as stated); file round-trips compare the RGB sequence", "DESIGN.md 3/C16")
claim("C18", "exhaustive enumeration of the finite domain (256 bytes x 3 modes, all expressible (fg,bg,blink,bold) tuples, 256 codes x 4 converters, 63 typed characters x 4 converters)",
      "Complete enumeration: every case of the statement's domain is executed in each run (5,116 evaluations).",
      "a tuple is 'expressible' in a mode iff it is in the image of from_u8 for that mode; bold is the foreground intensity bit", "DESIGN.md 3/C18")
