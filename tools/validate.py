#!/usr/bin/env python3
"""Validate MANIFEST.json and every evidence file against the schemas (uses the tooling venv's jsonschema)."""
import json, sys, glob, os
try:
    import jsonschema
except ImportError:
    sys.path.insert(0, '/opt/veriftools/pyvenv/lib/python3.11/site-packages')
    import jsonschema
ok = True
def v(path, schema):
    global ok
    try:
        jsonschema.validate(json.load(open(path)), json.load(open(schema)))
        print("ok  ", path)
    except Exception as e:
        ok = False
        print("FAIL", path, str(e)[:300])
v('/verif/MANIFEST.json', '/root/.vp/MANIFEST.schema.json')
for f in sorted(glob.glob('/verif/evidence/*.json')):
    v(f, '/root/.vp/EVIDENCE.schema.json')
m = json.load(open('/verif/MANIFEST.json'))
ids = [json.loads(l)['id'] for l in open('/verif/properties.jsonl')]
claimed = [c['property_id'] for c in m['checks']]
na = [c['property_id'] for c in m.get('not_applicable', [])]
for i in ids:
    if (i in claimed) == (i in na):
        ok = False
        print("FAIL", i, "must be exactly one of claimed / not_applicable")
sys.exit(0 if ok else 1)
