#!/usr/bin/env python3
"""Coverage-guided stage of a thorough tier: runs a cargo-fuzz (libFuzzer) target for a time budget, converts every
crash artifact into a replay case of the property's proptest binary and evaluates it there (so panic signatures and
known findings apply). usage: fuzz_stage.py <ID> <target> <seconds>"""
import json, os, subprocess, sys, glob, shutil, time, hashlib
pid, target, secs = sys.argv[1], sys.argv[2], int(sys.argv[3])
V = os.environ.get('ICYV_VERIF', '/verif')
fz = os.path.join(V, 'fuzzing')
work = os.path.join(fz, 'corpus_work', target); os.makedirs(work, exist_ok=True)
art = os.path.join(fz, 'fuzz', 'artifacts', target); shutil.rmtree(art, ignore_errors=True)
for f in glob.glob(os.path.join(fz, 'seeds', target, '*')):
    shutil.copy(f, work)
env = dict(os.environ, CARGO_NET_OFFLINE='true')
seed = os.environ.get('VERIF_SEED', '1')
t0 = time.time()
jobs = 8
cmd = ['cargo', '+nightly', 'fuzz', 'run', '-O', target, work, '--', f'-max_total_time={secs}', '-len_control=0', '-max_len=%d' % (1024 if target == 'stream' else 16384),
       f'-seed={seed}', f'-jobs={jobs}', f'-workers={jobs}', '-print_final_stats=1']
p = subprocess.run(cmd, cwd=fz, env=env, capture_output=True, text=True)
out = p.stdout + p.stderr
logs = ''
for f in glob.glob(os.path.join(fz, 'fuzz-*.log')):
    logs += open(f, errors='replace').read(); os.remove(f)
execs = sum(int(l.split()[-1]) for l in (out + logs).splitlines() if l.startswith('stat::number_of_executed_units'))
def esc(b):
    s = ''
    for c in b:
        if c == 0x5c: s += '\\\\'
        elif 0x20 <= c <= 0x7e: s += chr(c)
        else: s += '\\x%02x' % c
    return s
viol = 0
crashes = sorted(glob.glob(os.path.join(art, '*')))
binp = os.path.join(V, 'harness', 'target', os.environ.get('ICYV_PROFILE', 'release'), pid.lower())
C02_EXTS = ["ans", "icy", "idf", "bin", "xb", "tnd", "pcb", "avt", "asc", "adf", "msg", "an1", "seq", "ata", "diz", "ice", "xyz", "an9"]
C02_TARGET = {"ans": 0, "ice": 1, "diz": 2, "icy": 3, "idf": 4, "bin": 5, "xb": 6, "tnd": 7, "pcb": 8, "avt": 9, "asc": 10, "adf": 11, "msg": 12, "an1": 13, "an9": 21, "seq": 22, "ata": 23, "xyz": 24}
C02_API = [(32, "sauce"), (33, "bitfont"), (34, "tdf"), (36, "palette"), (37, "palette"), (38, "palette"), (35, "palette"), (39, "palette")]

def cut_digits(body, limit):
    out = bytearray(); digits = 0
    for b in body:
        if 0x30 <= b <= 0x39:
            digits += 1
            if digits > limit: continue
        else: digits = 0
        out.append(b)
    return bytes(out)

def to_case(pid, data):
    """artifact bytes -> (part, case) in the replay format of the property's binary"""
    if pid == 'C01':
        if len(data) < 4: return None
        return "streams", {"emu": data[0] % 14, "w": 1 + data[1] % 132, "h": 1 + data[2] % 60, "shape": data[3] % 3, "data": esc(cut_digits(data[4:], 4))}
    if pid == 'C02':
        if len(data) < 1: return None
        sel = data[0] % (len(C02_EXTS) + 8); body = data[1:]
        if sel < len(C02_EXTS):
            ext = C02_EXTS[sel]
            if ext in ("ans", "pcb", "avt", "asc", "msg", "an1", "an9", "diz", "ice", "xyz"): body = cut_digits(body, 3)
            return "buffer", {"target": C02_TARGET[ext], "src": {"Raw": esc(body)}, "inner": [], "muts": []}
        t, part = C02_API[sel - len(C02_EXTS)]
        return part, {"target": t, "src": {"Raw": esc(body)}, "inner": [], "muts": []}
    return None

for c in crashes:
    data = open(c, 'rb').read()
    pc = to_case(pid, data)
    if pc is None: continue
    part, case = pc
    rf = {"property": pid, "part": part, "key": "fuzz", "msg": "found by libFuzzer target " + target, "seed": int(seed), "case": case}
    d = os.path.join(V, 'replay', pid); os.makedirs(d, exist_ok=True)
    path = os.path.join(d, 'fuzz-%s.json' % hashlib.sha1(data).hexdigest()[:12])
    json.dump(rf, open(path, 'w'), indent=1)
    r = subprocess.run([binp, '--replay', path], capture_output=True, text=True, env=env)
    sys.stdout.write(r.stdout)
    if r.returncode == 1: viol += 1
    else: os.remove(path)
ev = os.path.join(V, 'evidence', pid + '.json')
try:
    e = json.load(open(ev))
    e['coverage']['libfuzzer_stage'] = {"target": target, "seconds": secs, "jobs": jobs, "executions": execs, "crash_artifacts": len(crashes),
                                        "violations_after_replay": viol, "corpus_units": len(os.listdir(work))}
    e['coverage']['evaluations'] += execs
    e['violations'] = e.get('violations', 0) + viol
    e['wall_s'] = e.get('wall_s', 0) + (time.time() - t0)
    json.dump(e, open(ev, 'w'), indent=1)
except Exception as ex:
    print("WARNING: could not update evidence:", ex)
print(f"[{pid}] libFuzzer stage: target={target} {secs}s x {jobs} jobs, executions={execs}, crash artifacts={len(crashes)}, violations={viol}")
if p.returncode not in (0, 1) and not crashes and execs == 0:
    print(out[-2000:]); print("FUZZ STAGE FAILED TO RUN (not a verdict)"); sys.exit(2)
sys.exit(1 if viol else 0)
