#!/bin/bash
# usage: seed_recheck.sh <seeded dir> [note]  — re-runs the property's quick check against the stored patch and records the result
d="$(realpath "$1")"; note="${2:-}"
pid=$(python3 -c "import json;print(json.load(open('$d/meta.json'))['property'])")
out=$(/verif/tools/mutant_run.sh "$d/patch.diff" "$pid" quick 2>&1); rc=$?
echo "$out" | tail -6; echo "exit=$rc"
keys=$(echo "$out" | grep "key=" | sed 's/.*key=//' | sort -u | head -8 | tr '\n' ';')
python3 - "$d" "$rc" "$keys" "$note" <<'PY'
import json,sys
d,rc,keys,note=sys.argv[1:5]
m=json.load(open(d+'/meta.json'))
hist=m.setdefault('check_history',[])
if 'check_quick_exit' in m and not hist:
    hist.append({'exit':m['check_quick_exit'],'note':'first run'})
hist.append({'exit':int(rc),'keys':[k for k in keys.split(';') if k],'note':note})
m['check_quick_exit']=int(rc); m['caught_by_quick']=(int(rc)==1); m['violation_keys']=[k for k in keys.split(';') if k]
json.dump(m,open(d+'/meta.json','w'),indent=1)
PY
