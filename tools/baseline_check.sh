#!/bin/bash
# Runs the repository's test suite (hooks off) and compares the set of passing tests with BASELINE.json's stable_pass list.
cd /repo || exit 2
out=$(cargo test --workspace --no-fail-fast --offline 2>&1)
echo "$out" | grep -E "^test .* \.\.\. ok$" | sed -E 's/^test (.*) \.\.\. ok$/icy_engine::\1/' | sort > /tmp/baseline_now.txt
python3 - <<'PY'
import json
want=set(json.load(open('/root/.vp/BASELINE.json'))['stable_pass'])
got=set(l.strip() for l in open('/tmp/baseline_now.txt'))
missing=sorted(want-got)
print("stable_pass expected:",len(want),"passing now:",len(got&want),"missing:",len(missing))
for m in missing: print("  MISSING",m)
raise SystemExit(1 if missing else 0)
PY
