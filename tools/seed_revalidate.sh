#!/bin/bash
# Re-validates every stored seeded change against the CURRENT /repo HEAD (the repository moved on with fix: commits):
# patch applies, crate builds, demo fails with the change. Writes 'valid_on_head' into meta.json.
# usage: seed_revalidate.sh [seeded-dir ...]   (default: all)
WT=/tmp/seed-reval
git -C /repo worktree remove --force $WT 2>/dev/null; rm -rf $WT
git -C /repo worktree add --detach $WT HEAD >/dev/null 2>&1 || exit 2
head=$(git -C /repo rev-parse --short HEAD)
dirs="$@"; [ -z "$dirs" ] && dirs=$(ls -d /verif/seeded/*/)
cd $WT; mkdir -p tests
for d in $dirs; do
  d=${d%/}; n=$(basename $d)
  git checkout -q -- src 2>/dev/null; rm -f tests/seeded_demo.rs
  if ! git apply --check $d/patch.diff 2>/dev/null; then echo "$n: PATCH-STALE"; st="patch does not apply"; res=false
  else
    git apply $d/patch.diff; cp $d/seeded_demo.rs tests/seeded_demo.rs
    out=$(cargo test --offline --test seeded_demo 2>&1); rc=$?
    if echo "$out" | grep -q "^error\(\[\|:\)" && ! echo "$out" | grep -q "test result\|overflowed\|SIGABRT\|signal"; then echo "$n: BUILD-ERROR"; st="demo or crate does not build"; res=false
    elif [ $rc -ne 0 ]; then echo "$n: demo fails with the change (valid)"; st="demo fails with the change"; res=true
    else echo "$n: DEMO-PASSES (change no longer breaks the demo)"; st="demo passes with the change"; res=false; fi
  fi
  python3 - "$d" "$res" "$st" "$head" <<'PY'
import json,sys
d,res,st,head=sys.argv[1:5]
m=json.load(open(d+'/meta.json')); m['valid_on_head']={'head':head,'valid':res=='true','status':st}
json.dump(m,open(d+'/meta.json','w'),indent=1)
PY
done
cd /; git -C /repo worktree remove --force $WT; rm -rf $WT
