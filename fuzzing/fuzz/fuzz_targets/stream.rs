#![no_main]
//! libFuzzer target for C01: input = [emu, w, h, shape] ++ stream bytes. Digit runs are cut to 4 digits
//! (magnitude is C03's subject). Oracle: no panic, no abort while feeding every byte.
use libfuzzer_sys::fuzz_target;

fuzz_target!(|data: &[u8]| {
    if data.len() < 4 {
        return;
    }
    let emu = data[0] % icyv::stream::EMUS.len() as u8;
    let w = 1 + (data[1] % 132) as i32;
    let h = 1 + (data[2] % 60) as i32;
    let shape = data[3] % 3;
    let (mut buf, mut caret) = icyv::stream::make_terminal(w, h, shape);
    let mut parser = icyv::stream::make_parser(emu);
    let mut digits = 0;
    for b in &data[4..] {
        if b.is_ascii_digit() {
            digits += 1;
            if digits > 4 {
                continue;
            }
        } else {
            digits = 0;
        }
        let _ = parser.print_char(&mut buf, 0, &mut caret, *b as char);
    }
    while let Some(h) = buf.sixel_threads.pop_front() {
        let _ = h.join();
    }
});
