#![no_main]
//! libFuzzer target for C02: input = [selector] ++ file bytes. The selector picks a file extension or a byte-level API.
//! Oracle: every loader returns Ok or Err (a panic is a crash for libFuzzer).
use libfuzzer_sys::fuzz_target;
use std::path::PathBuf;

pub const EXTS: [&str; 18] = ["ans", "icy", "idf", "bin", "xb", "tnd", "pcb", "avt", "asc", "adf", "msg", "an1", "seq", "ata", "diz", "ice", "xyz", "an9"];

fuzz_target!(|data: &[u8]| {
    if data.is_empty() {
        return;
    }
    let sel = data[0] as usize % (EXTS.len() + 8);
    let body = &data[1..];
    if sel < EXTS.len() {
        // terminal-stream formats parse numbers: cut digit runs (magnitude is C03's subject)
        let stream_like = matches!(EXTS[sel], "ans" | "pcb" | "avt" | "asc" | "msg" | "an1" | "an9" | "diz" | "ice" | "xyz");
        let mut v = Vec::with_capacity(body.len());
        let mut digits = 0;
        for b in body {
            if stream_like && b.is_ascii_digit() {
                digits += 1;
                if digits > 3 {
                    continue;
                }
            } else {
                digits = 0;
            }
            v.push(*b);
        }
        let _ = icy_engine::Buffer::from_bytes(&PathBuf::from(format!("f.{}", EXTS[sel])), true, &v);
        return;
    }
    match sel - EXTS.len() {
        0 => {
            let _ = icy_engine::SauceData::extract(body);
        }
        1 => {
            if body.len() <= 70_000 {
                let _ = icy_engine::BitFont::from_bytes("f", body);
            }
        }
        2 => {
            let _ = icy_engine::TheDrawFont::from_tdf_bytes(body);
        }
        3 => {
            let _ = icy_engine::Palette::load_palette(&icy_engine::PaletteFormat::Hex, body);
        }
        4 => {
            let _ = icy_engine::Palette::load_palette(&icy_engine::PaletteFormat::Pal, body);
        }
        5 => {
            let _ = icy_engine::Palette::load_palette(&icy_engine::PaletteFormat::Gpl, body);
        }
        6 => {
            let _ = icy_engine::Palette::load_palette(&icy_engine::PaletteFormat::Ice, body);
        }
        _ => {
            let _ = icy_engine::Palette::load_palette(&icy_engine::PaletteFormat::Txt, body);
        }
    }
});
