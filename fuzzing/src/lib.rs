// placeholder crate root for cargo-fuzz
