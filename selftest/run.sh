#!/bin/bash
# Sensitivity self-test (not part of MANIFEST): every stored mutant (selftest/mutants/<ID>-*.diff and seeded/<ID>-*/patch.diff)
# must make its property's quick check exit 1 in a scratch copy; the unchanged tree must exit 0 under several seeds.
# usage: selftest/run.sh [ID ...]   (default: all)
cd /verif || exit 2
want="$*"
fail=0
sel() { [ -z "$want" ] && return 0; for w in $want; do [ "$w" = "$1" ] && return 0; done; return 1; }
for f in selftest/mutants/*.diff seeded/*/patch.diff; do
  [ -f "$f" ] || continue
  case "$f" in
    selftest/*) id=$(basename "$f" | cut -d- -f1);;
    *) id=$(basename "$(dirname "$f")" | cut -d- -f1);;
  esac
  sel "$id" || continue
  out=$(tools/mutant_run.sh "$f" "$id" quick 2>&1); rc=$?
  k=$(echo "$out" | grep "key=" | head -1 | sed 's/.*key=//')
  if [ $rc -eq 1 ]; then echo "CAUGHT   $id  $f  [$k]"; else echo "MISSED   $id  $f  (exit $rc)"; fail=1; fi
done
if [ -z "$want" ]; then ids=$(python3 -c "import json;print(' '.join(c['property_id'] for c in json.load(open('MANIFEST.json'))['checks']))"); else ids="$want"; fi
for id in $ids; do
  for seed in 2 3; do
    VERIF_SEED=$seed ./check "$id" quick >/tmp/selftest-$id-$seed.log 2>&1; rc=$?
    if [ $rc -ne 0 ] || grep -q "^VIOLATION" /tmp/selftest-$id-$seed.log; then echo "ALARM on unchanged tree: $id seed=$seed (exit $rc)"; fail=1; else echo "quiet    $id seed=$seed"; fi
  done
done
exit $fail
