//! Panic capture and panic *signatures*.
//!
//! A signature identifies a panic site independently of line numbers:
//!   panic|<source file relative to /repo>|<enclosing fn>|<message without digits>|<trimmed source line>
//! Panics raised in std/deps without #[track_caller] are attributed to the first icy_engine frame of a
//! captured backtrace.

use std::cell::RefCell;
use std::sync::Once;

#[derive(Clone, Debug, Default)]
pub struct PanicRecord {
    pub file: String,
    pub line: u32,
    pub msg: String,
}

thread_local! {
    static LAST: RefCell<Option<PanicRecord>> = const { RefCell::new(None) };
    static GUARD_DEPTH: std::cell::Cell<u32> = const { std::cell::Cell::new(0) };
}

static INSTALL: Once = Once::new();

pub fn repo_dir() -> String {
    std::env::var("ICYV_REPO").unwrap_or_else(|_| "/repo".to_string())
}

fn payload_msg(info: &std::panic::PanicHookInfo<'_>) -> String {
    if let Some(s) = info.payload().downcast_ref::<&str>() {
        (*s).to_string()
    } else if let Some(s) = info.payload().downcast_ref::<String>() {
        s.clone()
    } else {
        "<non-string panic payload>".to_string()
    }
}

fn is_repo_file(f: &str) -> bool {
    let repo = repo_dir();
    f.starts_with(&format!("{repo}/src/")) || f.starts_with("src/")
}

/// Find the first frame of the current backtrace that lies in the repository sources.
fn first_repo_frame() -> Option<(String, u32)> {
    let bt = std::backtrace::Backtrace::force_capture().to_string();
    let repo = repo_dir();
    let pat = format!("{repo}/src/");
    for l in bt.lines() {
        let l = l.trim();
        if let Some(rest) = l.strip_prefix("at ") {
            if rest.starts_with(&pat) {
                // /repo/src/x.rs:LINE:COL
                let mut it = rest.rsplitn(3, ':');
                let _col = it.next();
                let line = it.next().and_then(|s| s.parse::<u32>().ok());
                let file = it.next();
                if let (Some(line), Some(file)) = (line, file) {
                    return Some((file.to_string(), line));
                }
            }
        }
    }
    None
}

/// Install the capturing hook (idempotent). The hook prints nothing.
pub fn install() {
    INSTALL.call_once(|| {
        std::panic::set_hook(Box::new(|info| {
            let msg = payload_msg(info);
            let (mut file, mut line) = match info.location() {
                Some(l) => (l.file().to_string(), l.line()),
                None => ("<unknown>".to_string(), 0),
            };
            if !is_repo_file(&file) {
                if let Some((f, l)) = first_repo_frame() {
                    file = f;
                    line = l;
                }
            }
            // a panic outside a guarded section is a harness bug (or a panic in a thread the engine under test
            // spawned): say so on stderr instead of swallowing it
            if GUARD_DEPTH.with(|d| d.get()) == 0 && std::thread::current().name().is_some() {
                eprintln!("[icyv] unguarded panic in thread {:?}: {msg} at {file}:{line}", std::thread::current().name());
            }
            LAST.with(|c| *c.borrow_mut() = Some(PanicRecord { file, line, msg }));
        }));
    });
}

pub fn clear() {
    LAST.with(|c| *c.borrow_mut() = None);
}

pub fn take() -> Option<PanicRecord> {
    LAST.with(|c| c.borrow_mut().take())
}

fn strip_digits(s: &str) -> String {
    let mut out = String::new();
    let mut last_hash = false;
    for ch in s.chars() {
        if ch.is_ascii_digit() {
            if !last_hash {
                out.push('#');
                last_hash = true;
            }
        } else {
            out.push(ch);
            last_hash = false;
        }
    }
    let out: String = out.chars().take(90).collect();
    out.replace(['\n', '|'], " ")
}

fn rel(file: &str) -> String {
    let repo = repo_dir();
    file.strip_prefix(&format!("{repo}/")).unwrap_or(file).to_string()
}

fn indent_of(l: &str) -> usize {
    l.len() - l.trim_start().len()
}

fn fn_name_of(line: &str) -> Option<String> {
    let t = line.trim_start();
    // strip qualifiers
    let mut t = t;
    loop {
        let mut changed = false;
        for q in ["pub(crate) ", "pub(super) ", "pub ", "const ", "unsafe ", "async ", "extern \"C\" "] {
            if let Some(r) = t.strip_prefix(q) {
                t = r;
                changed = true;
            }
        }
        if !changed {
            break;
        }
    }
    let r = t.strip_prefix("fn ")?;
    let name: String = r.chars().take_while(|c| c.is_alphanumeric() || *c == '_').collect();
    if name.is_empty() {
        None
    } else {
        Some(name)
    }
}

/// (enclosing fn, trimmed source line) for a location in the *current* sources.
pub fn locate(file: &str, line: u32) -> (String, String) {
    let path = if file.starts_with('/') { file.to_string() } else { format!("{}/{}", repo_dir(), file) };
    let Ok(text) = std::fs::read_to_string(&path) else {
        return ("?".into(), format!("line {line}"));
    };
    let lines: Vec<&str> = text.lines().collect();
    if line == 0 || (line as usize) > lines.len() {
        return ("?".into(), format!("line {line}"));
    }
    let idx = line as usize - 1;
    let src = lines[idx].trim().to_string();
    let my_indent = indent_of(lines[idx]);
    let mut name = "?".to_string();
    let mut i = idx;
    loop {
        let l = lines[i];
        if !l.trim().is_empty() && (indent_of(l) < my_indent || i == idx) {
            if let Some(n) = fn_name_of(l) {
                if i != idx || indent_of(l) <= my_indent {
                    name = n;
                    break;
                }
            }
        }
        if i == 0 {
            break;
        }
        i -= 1;
    }
    (name, src.replace('|', "¦"))
}

pub fn signature(rec: &PanicRecord) -> String {
    let (func, src) = locate(&rec.file, rec.line);
    // messages of the standard library quote the offending input ("...; it is inside 'é' (bytes 3..5) of `Café`"): the quoted
    // part is no part of the root cause
    let mut msg = rec.msg.clone();
    for pat in ["; it is inside", " of `", " when slicing `"] {
        if let Some(i) = msg.find(pat) {
            msg.truncate(i);
        }
    }
    format!("panic|{}|{}|{}|{}", rel(&rec.file), func, strip_digits(&msg), src)
}

/// Run `f`, turning a panic into Err((signature, message)).
pub fn guarded<T>(f: impl FnOnce() -> T) -> Result<T, (String, String)> {
    install();
    clear();
    GUARD_DEPTH.with(|d| d.set(d.get() + 1));
    let r = std::panic::catch_unwind(std::panic::AssertUnwindSafe(f));
    GUARD_DEPTH.with(|d| d.set(d.get().saturating_sub(1)));
    match r {
        Ok(v) => Ok(v),
        Err(_) => {
            let rec = take().unwrap_or_default();
            let sig = signature(&rec);
            Err((sig, format!("{} at {}:{}", rec.msg, rel(&rec.file), rec.line)))
        }
    }
}
