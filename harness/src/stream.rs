//! Terminal-stream generators shared by C01 / C09 / C10 (token grammar -> bytes) and terminal set-up helpers.
//!
//! Tokens are built from *pieces* with symbolic numbers (W, H, W+1 ...) that are resolved against the screen size
//! only when the stream is rendered, so the strategy does not depend on the generated size (no flat_map: shrinking
//! works on the token list directly).

use icy_engine::{ansi, ascii, atascii, avatar, ctrla, mode7, pcboard, petscii, renegade, viewdata, Buffer, BufferParser, Caret};
use proptest::collection::vec;
use proptest::prelude::*;

pub const EMUS: &[&str] = &[
    "ansi", "ansi+music:conflicting", "ansi+music:banana", "ansi+music:both", "ansi+bs_ctrl", "avatar", "pcboard", "ctrla", "renegade", "petscii", "atascii",
    "viewdata", "mode7", "ascii",
];
pub const EMU_PETSCII: u8 = 9;
pub const EMU_ATASCII: u8 = 10;
pub const EMU_VIEWDATA: u8 = 11;
pub const EMU_MODE7: u8 = 12;

pub fn make_parser(emu: u8) -> Box<dyn BufferParser> {
    match emu {
        0 => Box::<ansi::Parser>::default(),
        1..=3 => {
            let mut p = ansi::Parser::default();
            p.ansi_music = match emu {
                1 => ansi::MusicOption::Conflicting,
                2 => ansi::MusicOption::Banana,
                _ => ansi::MusicOption::Both,
            };
            Box::new(p)
        }
        4 => {
            let mut p = ansi::Parser::default();
            p.bs_is_ctrl_char = true;
            Box::new(p)
        }
        5 => Box::<avatar::Parser>::default(),
        6 => Box::<pcboard::Parser>::default(),
        7 => Box::<ctrla::Parser>::default(),
        8 => Box::<renegade::Parser>::default(),
        9 => Box::<petscii::Parser>::default(),
        10 => Box::<atascii::Parser>::default(),
        11 => Box::<viewdata::Parser>::default(),
        12 => Box::<mode7::Parser>::default(),
        _ => Box::<ascii::Parser>::default(),
    }
}

/// The three buffer shapes callers use for a terminal: 0 = Buffer::new, 1 = Buffer::create, 2 = create + lines.clear().
pub fn make_terminal(w: i32, h: i32, shape: u8) -> (Buffer, Caret) {
    let mut buf = match shape {
        0 => Buffer::new((w, h)),
        _ => Buffer::create((w, h)),
    };
    if shape == 2 {
        buf.layers[0].lines.clear();
    }
    buf.is_terminal_buffer = true;
    (buf, Caret::default())
}

#[derive(Clone, Copy, Debug, PartialEq)]
pub enum Sym {
    Empty,
    Lit(u32),
    W,
    H,
    WHalf,
    HHalf,
    WPlus1,
    HPlus1,
    WMinus1,
    HMinus1,
    /// min(255, maxnum)
    B255,
    /// the configured magnitude cap
    Max,
}

#[derive(Clone, Debug)]
pub enum Piece {
    Lit(Vec<u8>),
    Num(Sym),
    /// the rendered inner pieces, hex-encoded (two upper-case digits per byte)
    HexOf(Vec<Piece>),
    /// `n` copies of byte `b`, n = resolved symbol + delta (printable runs relative to the width)
    Run(u8, Sym, i32),
}

pub type Tok = Vec<Piece>;

fn lit(b: &[u8]) -> Piece {
    Piece::Lit(b.to_vec())
}

fn resolve(s: Sym, w: i32, h: i32, maxnum: u32) -> Option<u32> {
    let w = w.max(0) as u32;
    let h = h.max(0) as u32;
    Some(match s {
        Sym::Empty => return None,
        Sym::Lit(v) => v.min(maxnum),
        Sym::W => w,
        Sym::H => h,
        Sym::WHalf => w / 2,
        Sym::HHalf => h / 2,
        Sym::WPlus1 => w + 1,
        Sym::HPlus1 => h + 1,
        Sym::WMinus1 => w.saturating_sub(1),
        Sym::HMinus1 => h.saturating_sub(1),
        Sym::B255 => 255.min(maxnum),
        Sym::Max => maxnum,
    })
}

fn render_pieces(ps: &[Piece], w: i32, h: i32, maxnum: u32, out: &mut Vec<u8>) {
    for p in ps {
        match p {
            Piece::Lit(b) => out.extend_from_slice(b),
            Piece::Num(s) => {
                if let Some(v) = resolve(*s, w, h, maxnum) {
                    out.extend_from_slice(v.to_string().as_bytes());
                }
            }
            Piece::HexOf(inner) => {
                let mut tmp = Vec::new();
                render_pieces(inner, w, h, maxnum, &mut tmp);
                for b in tmp {
                    out.extend_from_slice(format!("{b:02X}").as_bytes());
                }
            }
            Piece::Run(b, s, d) => {
                let n = (resolve(*s, w, h, maxnum).unwrap_or(0) as i64 + *d as i64).clamp(0, 400);
                out.extend(std::iter::repeat(*b).take(n as usize));
            }
        }
    }
}

pub fn render(toks: &[Tok], w: i32, h: i32, maxnum: u32) -> Vec<u8> {
    let mut out = Vec::new();
    for t in toks {
        render_pieces(t, w, h, maxnum, &mut out);
    }
    out
}

/// numeric parameter drawn relative to the screen size
pub fn param() -> BoxedStrategy<Sym> {
    prop_oneof![
        4 => Just(Sym::Empty),
        4 => Just(Sym::Lit(0)),
        6 => Just(Sym::Lit(1)),
        4 => Just(Sym::Lit(2)),
        3 => Just(Sym::WHalf),
        3 => Just(Sym::HHalf),
        3 => Just(Sym::W),
        3 => Just(Sym::H),
        2 => Just(Sym::WPlus1),
        2 => Just(Sym::HPlus1),
        2 => Just(Sym::WMinus1),
        2 => Just(Sym::HMinus1),
        2 => Just(Sym::B255),
        1 => Just(Sym::Max),
        8 => (0u32..=140).prop_map(Sym::Lit),
    ]
    .boxed()
}

fn params(n: std::ops::RangeInclusive<usize>) -> BoxedStrategy<Vec<Piece>> {
    vec(param(), n)
        .prop_map(|ps| {
            let mut out = Vec::new();
            for (i, p) in ps.iter().enumerate() {
                if i > 0 {
                    out.push(lit(b";"));
                }
                out.push(Piece::Num(*p));
            }
            out
        })
        .boxed()
}

fn csi_of(pre: u8, ps: Vec<Piece>, inter: u8, fin: u8) -> Tok {
    let mut v = vec![lit(b"\x1b[")];
    if pre != 0 {
        v.push(lit(&[pre]));
    }
    v.extend(ps);
    if inter != 0 {
        v.push(lit(&[inter]));
    }
    v.push(lit(&[fin]));
    v
}

fn lits(s: String) -> Vec<Piece> {
    vec![Piece::Lit(s.into_bytes())]
}

pub fn csi() -> BoxedStrategy<Tok> {
    // generic: every final byte, every intermediate
    let generic = (
        prop_oneof![6 => Just(0u8), 1 => Just(b'?'), 1 => Just(b'='), 1 => Just(b'!'), 1 => Just(b'<')],
        prop_oneof![12 => params(0..=7), 1 => params(8..=40)],
        prop_oneof![6 => Just(0u8), 2 => Just(b' '), 2 => Just(b'$'), 2 => Just(b'*')],
        0x40u8..=0x7E,
    )
        .prop_map(|(pre, ps, inter, fin)| csi_of(pre, ps, inter, fin));
    // well-formed: finals the parser implements, with the parameter counts they expect
    let known = prop_oneof![
        6 => (params(0..=2), prop::sample::select(b"HfABCDEFGJKLMPSTXYZ@abdegjkhlmnrstu~'cb".to_vec())).prop_map(|(p, f)| csi_of(0, p, 0, f)),
        2 => (params(1..=4), prop::sample::select(b"mrt".to_vec())).prop_map(|(p, f)| csi_of(0, p, 0, f)),
        2 => (params(0..=2), prop::sample::select(b"@AdD".to_vec())).prop_map(|(p, f)| csi_of(0, p, b' ', f)),
        2 => (params(4..=6), prop::sample::select(b"xz{wr".to_vec())).prop_map(|(p, f)| csi_of(0, p, b'$', f)),
        2 => (params(1..=6), prop::sample::select(b"zry".to_vec())).prop_map(|(p, f)| csi_of(0, p, b'*', f)),
        2 => (prop::sample::select(vec![4u32, 6, 7, 25, 33, 35, 69, 9, 1000, 1006, 62, 63, 5]), prop::sample::select(b"hln".to_vec()))
            .prop_map(|(n, f)| csi_of(b'?', lits(n.to_string()), 0, f)),
        1 => (params(0..=3), prop::sample::select(b"nrm".to_vec())).prop_map(|(p, f)| csi_of(b'=', p, 0, f)),
        1 => (params(0..=2), Just(b'c')).prop_map(|(p, f)| csi_of(b'<', p, 0, f)),
        1 => Just(csi_of(b'!', Vec::new(), 0, b'p')),
        // SGR with colour forms
        3 => vec(prop_oneof![(0u32..=110).boxed(), prop::sample::select(vec![38u32, 48, 5, 2, 255, 256]).boxed()], 0..=7).prop_map(|v| {
            let s: Vec<String> = v.iter().map(|x| x.to_string()).collect();
            csi_of(0, lits(s.join(";")), 0, b'm')
        }),
        // 24 bit colour
        1 => (0u32..=1, 0u32..=300, 0u32..=300, 0u32..=300).prop_map(|(a, r, g, b)| csi_of(0, lits(format!("{a};{r};{g};{b}")), 0, b't')),
    ];
    prop_oneof![1 => generic, 3 => known].boxed()
}

/// text-area resize request CSI 8;h;w t
pub fn resize() -> BoxedStrategy<Tok> {
    (1u32..=70, 1u32..=140).prop_map(|(hh, ww)| csi_of(0, lits(format!("8;{hh};{ww}")), 0, b't')).boxed()
}

pub fn sixel_payload() -> BoxedStrategy<Vec<u8>> {
    let item = prop_oneof![
        6 => vec(0x3Fu8..=0x7E, 1..=12),
        2 => (1u32..=60, 0x3Fu8..=0x7E).prop_map(|(n, c)| { let mut v = format!("!{n}").into_bytes(); v.push(c); v }),
        2 => Just(b"$".to_vec()),
        2 => Just(b"-".to_vec()),
        2 => (0u32..=20).prop_map(|c| format!("#{c}").into_bytes()),
        1 => (0u32..=20, 0u32..=100, 0u32..=100, 0u32..=100).prop_map(|(c, r, g, b)| format!("#{c};2;{r};{g};{b}").into_bytes()),
        1 => (0u32..=3, 0u32..=3, 0u32..=40, 0u32..=40).prop_map(|(a, b, w, h)| format!("\"{a};{b};{w};{h}").into_bytes()),
        1 => vec(any::<u8>().prop_filter("no esc", |b| *b != 0x1B), 1..=3),
    ];
    vec(item, 0..=10).prop_map(|v| v.concat()).boxed()
}

pub fn b64(data: &[u8]) -> Vec<u8> {
    use base64::{engine::general_purpose, Engine};
    general_purpose::STANDARD.encode(data).into_bytes()
}

fn dcs() -> BoxedStrategy<Tok> {
    let hexbody = vec(
        prop_oneof![
            5 => any::<u8>().prop_map(|b| lits(format!("{b:02X}"))),
            1 => (0u32..=12, vec(any::<u8>(), 0..=3)).prop_map(|(n, bs)| {
                let mut s = format!("!{n};");
                for b in bs { s.push_str(&format!("{b:02x}")); }
                s.push(';');
                lits(s)
            }),
            1 => vec(prop::sample::select(b"!;0Gg z".to_vec()), 1..=2).prop_map(|v| vec![Piece::Lit(v)]),
            // hex-encoded control sequences (stored, replayed on invocation), incl. macro invocations
            1 => csi().prop_map(|c| vec![Piece::HexOf(c)]),
            1 => (0u32..=3).prop_map(|id| vec![Piece::HexOf(lits(format!("\x1b[{id}*z")))]),
        ],
        0..=8,
    )
    .prop_map(|v| v.concat());
    let textbody = vec(prop_oneof![3 => vec(0x20u8..=0x7E, 1..=6).prop_map(|v| vec![Piece::Lit(v)]), 1 => csi()], 0..=4).prop_map(|v| v.concat());
    let macro_def = (
        prop_oneof![3 => 0u32..=3, 1 => 0u32..=70],
        prop_oneof![Just(None), Just(Some(0u32)), Just(Some(1))],
        prop_oneof![4 => Just(0u32), 4 => Just(1), 1 => Just(2)],
        textbody,
        hexbody,
    )
        .prop_map(|(id, pdt, enc, tb, hb)| {
            let mut v = lits(format!("{id};{};{enc}!z", pdt.map(|x| x.to_string()).unwrap_or_default()));
            v.extend(if enc == 1 { hb } else { tb });
            v
        });
    let sixel = (params(0..=3), sixel_payload()).prop_map(|(p, s)| {
        let mut v = p;
        v.push(lit(b"q"));
        v.push(Piece::Lit(s));
        v
    });
    let font = (
        // slot 0 is the font every size computation uses: weight it
        prop_oneof![2 => Just(0u32), 3 => 0u32..=44],
        prop_oneof![
            // PSF1 with the interesting glyph heights (0 = degenerate) and modes
            (prop::sample::select(vec![0u8, 1, 8, 16, 32, 255]), 0u8..=3, vec(any::<u8>(), 0..=40)).prop_map(|(cs, mode, mut d)| {
                let mut v = vec![0x36, 0x04, mode, cs];
                v.append(&mut d);
                b64(&v)
            }),
            // well-formed PSF2 header with small / degenerate geometry
            (0u32..=3, 0u32..=3, 0u32..=9, 0u32..=9).prop_map(|(len, cs, hh, ww)| {
                let mut v = vec![0x72, 0xb5, 0x4a, 0x86];
                for f in [0u32, 32, 0, len, cs, hh, ww] {
                    v.extend_from_slice(&f.to_le_bytes());
                }
                v.extend(std::iter::repeat(0x55).take((len * cs) as usize));
                b64(&v)
            }),
            // raw font of a legal height
            (1usize..=32).prop_flat_map(|hh| vec(any::<u8>(), hh * 256)).prop_map(|d| b64(&d)),
            // psf2 / psf1 magic + short data
            vec(any::<u8>(), 0..=64).prop_map(|mut d| { let mut v = vec![0x72, 0xb5, 0x4a, 0x86]; v.append(&mut d); b64(&v) }),
            vec(any::<u8>(), 4..=64).prop_map(|mut d| { let mut v = vec![0x36, 0x04, 0x00, 0x10]; v.append(&mut d); b64(&v) }),
            vec(any::<u8>(), 0..=40).prop_map(|d| b64(&d)),
            vec(prop::sample::select(b"ABCab+/=*: ".to_vec()), 0..=12),
        ],
    )
        .prop_map(|(n, d)| {
            let mut v = format!("CTerm:Font:{n}:").into_bytes();
            v.extend(d);
            vec![Piece::Lit(v)]
        });
    let invoke_inside = (prop_oneof![3 => 0u32..=3, 1 => 0u32..=70], vec(0x20u8..=0x7E, 0..=4)).prop_map(|(id, t)| {
        let mut v = t.clone();
        v.extend(format!("\x1b[{id}*z").into_bytes());
        v.extend(t);
        vec![Piece::Lit(v)]
    });
    let random = vec(any::<u8>(), 0..=12).prop_map(|v| vec![Piece::Lit(v)]);
    // a (possibly degenerate) font for slot 0 immediately followed by a small sixel: image placement computes with the size of font 0
    let font0_then_sixel = (prop::sample::select(vec![0u8, 1, 2, 8, 16, 32]), 0u8..=1, sixel_payload()).prop_map(|(cs, mode, six)| {
        let mut f = vec![0x36, 0x04, mode, cs];
        f.extend(std::iter::repeat(0xA5).take(cs as usize * 3));
        let mut v = b"CTerm:Font:0:".to_vec();
        v.extend(b64(&f));
        v.extend(b"\x1b\\\x1bPq");
        v.extend(six);
        vec![Piece::Lit(v)]
    });
    (prop_oneof![8 => macro_def, 8 => sixel, 4 => font, 2 => invoke_inside, 2 => random, 1 => font0_then_sixel], prop_oneof![8 => Just(true), 1 => Just(false)])
        .prop_map(|(payload, terminated)| {
            let mut v = vec![lit(b"\x1bP")];
            v.extend(payload);
            if terminated {
                v.push(lit(b"\x1b\\"));
            }
            v
        })
        .boxed()
}

fn osc() -> BoxedStrategy<Tok> {
    // colour index: usually present, sometimes empty (the grammar allows the number to be missing)
    let pal = vec((prop_oneof![5 => (0u32..=300).prop_map(Some), 1 => Just(None)], any::<u8>(), any::<u8>(), any::<u8>()), 1..=3).prop_map(|cs| {
        let mut s = String::from("4");
        for (i, r, g, b) in cs {
            let i = i.map(|v| v.to_string()).unwrap_or_default();
            s.push_str(&format!(";{i};rgb:{r:02x}/{g:02x}/{b:02X}"));
        }
        s.into_bytes()
    });
    let link_open = vec(0x21u8..=0x7E, 1..=10).prop_map(|u| {
        let mut v = b"8;;".to_vec();
        v.extend(u);
        v
    });
    // long URIs (string-collecting states have no length limit of their own): lengths around typical limits (256, 1 KiB, 2083, 4 KiB, 8 KiB),
    // ASCII prefix of any parity followed by high bytes (which are two bytes each once stored in a String)
    let link_long = (
        prop_oneof![Just(250usize), Just(1020), Just(2040), Just(2075), Just(4090), Just(8185)],
        0usize..=24,
        0usize..=40,
        prop_oneof![2 => 0x80u8..=0xFF, 1 => 0x21u8..=0x7E],
    )
        .prop_map(|(base, extra, ascii, fill)| {
            let mut v = b"8;;".to_vec();
            v.extend(std::iter::repeat(b'a').take(ascii));
            v.extend(std::iter::repeat(fill).take(base + extra));
            v
        });
    let link_close = Just(b"8;;".to_vec());
    let other = vec(any::<u8>().prop_filter("no esc", |b| *b != 0x1B), 0..=10);
    // the string is a list of ';'-separated fields: any command number, 0..=4 fields, each field a short run over one byte alphabet
    // (ASCII, high bytes - two bytes each once stored in a String -, key=value pairs, digits, empty); offsets computed in characters
    // and used as byte offsets (or the reverse) only fail when high bytes sit in an EARLIER field
    let field = prop_oneof![
        2 => Just(Vec::new()),
        3 => vec(0x21u8..=0x7E, 1..=8).prop_map(|v| v.into_iter().filter(|b| *b != b';').collect::<Vec<u8>>()),
        4 => vec(0x80u8..=0xFF, 1..=5),
        2 => (vec(0x61u8..=0x7A, 1..=3), vec(prop_oneof![1 => 0x30u8..=0x7A, 1 => 0x80u8..=0xFF], 0..=4)).prop_map(|(k, v)| {
            let mut o = k;
            o.push(b'=');
            o.extend(v.into_iter().filter(|b| *b != b';'));
            o
        }),
        1 => vec(0x30u8..=0x39, 1..=10),
    ];
    let fields = (prop_oneof![4 => Just(8u32), 1 => Just(4), 1 => Just(0), 1 => Just(2), 1 => 0u32..=120], vec(field, 0..=4)).prop_map(|(cmd, fs)| {
        let mut v = cmd.to_string().into_bytes();
        for f in fs {
            v.push(b';');
            v.extend(f);
        }
        v
    });
    prop_oneof![6 => pal, 6 => link_open, 6 => link_close, 2 => other, 1 => link_long, 6 => fields]
        .prop_map(|p| {
            let mut v = vec![0x1B, b']'];
            v.extend(p);
            v.extend(b"\x1b\\");
            vec![Piece::Lit(v)]
        })
        .boxed()
}

/// a chain of `n` distinct macros, macro k invoking macro k+1 (hex-encoded definitions; `in_dcs`: the invocation sits inside a DCS
/// string, the second way the parser expands macros), followed by the invocation of the first one
pub fn macro_chain(n: u32, base: u32, in_dcs: bool) -> Vec<u8> {
    let mut v = Vec::new();
    for k in 0..n {
        let next = format!("\x1b[{}*z", base + k + 1);
        let body: Vec<u8> = if in_dcs { [b"\x1b\\\x1bP".as_slice(), next.as_bytes()].concat() } else { next.into_bytes() };
        v.extend_from_slice(format!("\x1bP{};0;1!z", base + k).as_bytes());
        for b in body {
            v.extend_from_slice(format!("{b:02X}").as_bytes());
        }
        v.extend_from_slice(b"\x1b\\");
    }
    // the last macro prints something
    v.extend_from_slice(format!("\x1bP{};0;0!zend\x1b\\", base + n).as_bytes());
    v.extend_from_slice(format!("\x1b[{base}*z").as_bytes());
    v
}

fn music() -> BoxedStrategy<Tok> {
    (prop::sample::select(b"MN|".to_vec()), vec(prop::sample::select(b"TLOCDEFGABP<>M+-#.0123456789FBNLS \x0e".to_vec()), 0..=14), any::<bool>())
        .prop_map(|(lead, body, end)| {
            let mut v = vec![0x1B, b'[', lead];
            v.extend(body);
            if end {
                v.push(0x0E);
            }
            vec![Piece::Lit(v)]
        })
        .boxed()
}

fn text() -> BoxedStrategy<Tok> {
    let ch = prop_oneof![4 => 0x20u8..=0x7E, 1 => 0x80u8..=0xFF];
    prop_oneof![
        3 => (ch.clone(), 1u32..=6).prop_map(|(c, n)| vec![Piece::Run(c, Sym::Lit(n), 0)]),
        // runs relative to the width: wrap exactly, one short, a few over
        1 => (ch, prop_oneof![Just(Sym::W), Just(Sym::WHalf), Just(Sym::WMinus1)], -1i32..=3).prop_map(|(c, s, d)| vec![Piece::Run(c, s, d)]),
    ]
    .boxed()
}

fn emu_specific(emu: u8) -> BoxedStrategy<Tok> {
    let s: BoxedStrategy<Vec<u8>> = match emu {
        5 => prop_oneof![
            (Just(0x16u8), 0u8..=12, vec(any::<u8>(), 0..=4)).prop_map(|(a, c, mut r)| { let mut v = vec![a, c]; v.append(&mut r); v }),
            (Just(0x19u8), any::<u8>(), any::<u8>()).prop_map(|(a, c, n)| vec![a, c, n]),
            Just(vec![0x0C]),
            (Just(0x16u8), Just(8u8), any::<u8>(), any::<u8>()).prop_map(|(a, b, y, x)| vec![a, b, y, x]),
            (Just(0x16u8), Just(1u8), any::<u8>()).prop_map(|(a, b, c)| vec![a, b, c]),
        ]
        .boxed(),
        6 => prop_oneof![
            (vec(prop::sample::select(b"0123456789ABCDEFabcdefxz@".to_vec()), 2)).prop_map(|h| { let mut v = b"@X".to_vec(); v.extend(h); v }),
            Just(b"@CLS@".to_vec()),
            vec(prop::sample::select(b"@XCLSP0F".to_vec()), 1..=5),
        ]
        .boxed(),
        7 => (Just(1u8), any::<u8>()).prop_map(|(a, b)| vec![a, b]).boxed(),
        8 => prop_oneof![(0u8..=39).prop_map(|n| format!("|{n:02}").into_bytes()), vec(prop::sample::select(b"|019x".to_vec()), 1..=3)].boxed(),
        9..=12 => prop_oneof![
            3 => vec(prop_oneof![0u8..=0x1F, 0x80u8..=0x9F, Just(0x7Fu8), Just(0xFFu8)], 1..=4),
            1 => (Just(0x1Bu8), any::<u8>()).prop_map(|(a, b)| vec![a, b]),
            1 => vec(any::<u8>(), 1..=4),
        ]
        .boxed(),
        _ => vec(any::<u8>(), 1..=3).boxed(),
    };
    s.prop_map(|v| vec![Piece::Lit(v)]).boxed()
}

/// one token for emulation `emu`; `with_resize` adds the text-area resize request to the alphabet
pub fn token(emu: u8, with_resize: bool) -> BoxedStrategy<Tok> {
    let c0 = prop_oneof![4 => prop::sample::select(vec![7u8, 8, 9, 10, 12, 13, 0x7F, 0]), 1 => 0u8..=0x1F].prop_map(|b| vec![Piece::Lit(vec![b])]);
    let esc = (Just(0x1Bu8), prop_oneof![3 => prop::sample::select(b"78cDMEH".to_vec()), 1 => any::<u8>()]).prop_map(|(a, b)| vec![Piece::Lit(vec![a, b])]);
    let aps = prop_oneof![12 => vec(any::<u8>().prop_filter("no esc", |b| *b != 0x1B), 0..=8), 1 => vec(prop_oneof![0x20u8..=0x7E, 0x80u8..=0xFF], 250..=300)].prop_map(|p| {
        let mut v = vec![0x1B, b'_'];
        v.extend(p);
        v.extend(b"\x1b\\");
        vec![Piece::Lit(v)]
    });
    let raw = vec(any::<u8>(), 1..=6).prop_map(|v| vec![Piece::Lit(v)]);
    let ansi_like = emu <= 8;
    if ansi_like {
        let mut opts: Vec<(u32, BoxedStrategy<Tok>)> = vec![
            (8, text()),
            (4, c0.boxed()),
            (2, esc.boxed()),
            (12, csi()),
            (3, dcs()),
            (2, osc()),
            (1, aps.boxed()),
            (if (1..=3).contains(&emu) { 3 } else { 1 }, music()),
            (2, raw.boxed()),
            (if emu >= 5 { 8 } else { 1 }, emu_specific(emu)),
        ];
        if with_resize {
            opts.push((1, resize()));
        }
        proptest::strategy::Union::new_weighted(opts).boxed()
    } else {
        prop_oneof![8 => text(), 4 => c0, 2 => esc, 2 => raw, 8 => emu_specific(emu), 1 => csi()].boxed()
    }
}

/// token list for one emulation
pub fn tokens(emu: u8, with_resize: bool, max_tokens: usize) -> BoxedStrategy<Vec<Tok>> {
    vec(token(emu, with_resize), 0..=max_tokens).boxed()
}

/// does the stream contain a macro invocation (`*z`), literally or hex-encoded?
pub fn has_macro_invoke(bytes: &[u8]) -> bool {
    bytes.windows(2).any(|w| w == b"*z") || bytes.windows(4).any(|w| w.eq_ignore_ascii_case(b"2A7A"))
}

// ---------------------------------------------------------------------------------------------------- exhaustive token alphabet

fn alit(b: &[u8]) -> Piece {
    Piece::Lit(b.to_vec())
}
fn acsi1(p: Sym, tail: &[u8]) -> Tok {
    vec![alit(b"\x1b["), Piece::Num(p), alit(tail)]
}
fn acsi2(p: Sym, q: Sym, tail: &[u8]) -> Tok {
    vec![alit(b"\x1b["), Piece::Num(p), alit(b";"), Piece::Num(q), alit(tail)]
}

/// The ~70-token alphabet of the exhaustive part (ANSI emulation). No text-area resize request in it.
pub fn alphabet() -> Vec<Tok> {
    let mut a: Vec<Tok> = Vec::new();
    // printables
    a.push(vec![alit(b"A")]);
    a.push(vec![Piece::Run(b'x', Sym::WMinus1, 0)]);
    a.push(vec![Piece::Run(b'y', Sym::W, 0)]);
    // C0
    for c in [8u8, 9, 10, 13, 12, 0x7F] {
        a.push(vec![alit(&[c])]);
    }
    // ESC x
    for c in b"78cDMEH" {
        a.push(vec![alit(&[0x1B, *c])]);
    }
    // cursor position
    a.push(vec![alit(b"\x1b[H")]);
    a.push(acsi2(Sym::H, Sym::W, b"H"));
    a.push(acsi2(Sym::HPlus1, Sym::WPlus1, b"H"));
    a.push(acsi2(Sym::Max, Sym::Max, b"f"));
    a.push(acsi2(Sym::Lit(0), Sym::Lit(0), b"H"));
    // relative / absolute moves with the parameter set {none,1,mid,size,size+1,9999} spread over the finals
    a.push(vec![alit(b"\x1b[A")]);
    a.push(acsi1(Sym::HPlus1, b"A"));
    a.push(acsi1(Sym::Max, b"k"));
    a.push(vec![alit(b"\x1b[B")]);
    a.push(acsi1(Sym::H, b"B"));
    a.push(acsi1(Sym::Max, b"B"));
    a.push(vec![alit(b"\x1b[C")]);
    a.push(acsi1(Sym::W, b"C"));
    a.push(acsi1(Sym::Max, b"C"));
    a.push(acsi1(Sym::WHalf, b"D"));
    a.push(acsi1(Sym::Max, b"j"));
    a.push(acsi1(Sym::Lit(0), b"D"));
    a.push(acsi1(Sym::Lit(1), b"E"));
    a.push(acsi1(Sym::Max, b"E"));
    a.push(acsi1(Sym::Lit(1), b"F"));
    a.push(acsi1(Sym::Max, b"F"));
    a.push(acsi1(Sym::WPlus1, b"G"));
    a.push(acsi1(Sym::Lit(0), b"G"));
    a.push(acsi1(Sym::HPlus1, b"d"));
    a.push(acsi1(Sym::Lit(0), b"d"));
    a.push(acsi1(Sym::Max, b"e"));
    a.push(acsi1(Sym::Max, b"a"));
    a.push(acsi1(Sym::WPlus1, b"'"));
    // tabs
    a.push(acsi1(Sym::Lit(1), b"Y"));
    a.push(acsi1(Sym::B255, b"Y"));
    a.push(acsi1(Sym::Lit(1), b"Z"));
    a.push(acsi1(Sym::B255, b"Z"));
    a.push(vec![alit(b"\x1b[3g")]);
    a.push(vec![alit(b"\x1b[2 d")]);
    // margins / origin / wrap
    a.push(acsi2(Sym::Lit(2), Sym::HMinus1, b"r"));
    a.push(acsi2(Sym::HHalf, Sym::HHalf, b"r"));
    a.push(acsi2(Sym::Lit(0), Sym::HPlus1, b"r"));
    a.push(acsi2(Sym::H, Sym::Lit(1), b"r"));
    a.push(vec![alit(b"\x1b[r")]);
    a.push(vec![alit(b"\x1b[?69h")]);
    a.push(acsi2(Sym::Lit(2), Sym::WMinus1, b"s"));
    a.push(acsi2(Sym::WHalf, Sym::WPlus1, b"s"));
    a.push(vec![alit(b"\x1b[?69l")]);
    a.push(vec![alit(b"\x1b[?6h")]);
    a.push(vec![alit(b"\x1b[?7l")]);
    a.push(vec![alit(b"\x1b[?7h")]);
    a.push(vec![alit(b"\x1b[=r")]);
    a.push(vec![alit(b"\x1b[=0;"), Piece::Num(Sym::HHalf), alit(b"m")]);
    a.push(vec![alit(b"\x1b[1;"), Piece::Num(Sym::HHalf), alit(b";2;"), Piece::Num(Sym::WHalf), alit(b"r")]);
    // save / restore / reset
    a.push(vec![alit(b"\x1b[s")]);
    a.push(vec![alit(b"\x1b[u")]);
    a.push(vec![alit(b"\x1b[!p")]);
    // scroll / insert / delete / erase (counts bounded by the screen: magnitude is C03's subject)
    a.push(acsi1(Sym::Lit(1), b"S"));
    a.push(acsi1(Sym::HPlus1, b"S"));
    a.push(acsi1(Sym::Lit(1), b"T"));
    a.push(acsi1(Sym::HPlus1, b"T"));
    a.push(acsi1(Sym::Lit(1), b"L"));
    a.push(acsi1(Sym::H, b"M"));
    a.push(acsi1(Sym::WHalf, b"@"));
    a.push(acsi1(Sym::WPlus1, b"P"));
    a.push(acsi1(Sym::WPlus1, b"X"));
    a.push(vec![alit(b"\x1b[2J")]);
    a.push(vec![alit(b"\x1b[J")]);
    a.push(vec![alit(b"\x1b[1K")]);
    a.push(acsi1(Sym::W, b"b"));
    a.push(vec![alit(b"\x1b[4h")]);
    // single-edge margin updates with parameter 0 / 1 / beyond the screen, whole-region setters with 0
    for k in 0..4u32 {
        a.push(vec![alit(format!("\x1b[={k};0m").as_bytes())]);
    }
    a.push(vec![alit(b"\x1b[=1;"), Piece::Num(Sym::HPlus1), alit(b"m")]);
    a.push(vec![alit(b"\x1b[=3;"), Piece::Num(Sym::WPlus1), alit(b"m")]);
    a.push(acsi2(Sym::Lit(0), Sym::Lit(0), b"r"));
    a.push(acsi2(Sym::Lit(0), Sym::Lit(0), b"s"));
    // key emulation
    a.push(vec![alit(b"\x1b[4~")]);
    a.push(vec![alit(b"\x1b[1~")]);
    a
}

