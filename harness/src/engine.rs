//! The common check engine: parts (generated / enumerated, in-process / worker-isolated), shrinking,
//! known findings, replay files, evidence.

use crate::{alloc, panics, worker};
use proptest::strategy::{BoxedStrategy, Strategy, ValueTree};
use proptest::test_runner::{Config, RngAlgorithm, TestRng, TestRunner};
use serde::{de::DeserializeOwned, Deserialize, Serialize};
use serde_json::{json, Value};
use std::collections::{BTreeMap, HashSet};
use std::hash::{Hash, Hasher};
use std::path::PathBuf;
use std::sync::atomic::{AtomicBool, AtomicU64, Ordering};
use std::sync::Mutex;
use std::time::{Duration, Instant};

pub trait CaseT: Clone + std::fmt::Debug + Hash + Serialize + DeserializeOwned + Send + 'static {}
impl<T: Clone + std::fmt::Debug + Hash + Serialize + DeserializeOwned + Send + 'static> CaseT for T {}

#[derive(Clone, Debug, Serialize, Deserialize)]
pub enum Verdict {
    /// property held on this case
    Pass { nontrivial: bool, class: String },
    /// property violated; `key` identifies the root cause class (panic signature, oracle clause + input class)
    Fail { key: String, msg: String },
    /// case outside the property's domain (counted, never a violation)
    Discard { why: String },
}

impl Verdict {
    pub fn pass(nontrivial: bool, class: impl Into<String>) -> Verdict {
        Verdict::Pass { nontrivial, class: class.into() }
    }
    pub fn fail(key: impl Into<String>, msg: impl Into<String>) -> Verdict {
        Verdict::Fail { key: key.into(), msg: msg.into() }
    }
    pub fn discard(why: impl Into<String>) -> Verdict {
        Verdict::Discard { why: why.into() }
    }
}

#[derive(Clone, Copy, Debug, PartialEq, Eq)]
pub enum Tier {
    Quick,
    Thorough,
}

#[derive(Clone, Debug, Deserialize)]
pub struct Finding {
    pub property: String,
    pub id: String,
    pub status: String,
    #[serde(default)]
    pub key: Option<String>,
    #[serde(default)]
    pub key_prefix: Option<String>,
    /// any of these exact keys (one root cause that shows through several oracle clauses, e.g. slow / hang / heap cap)
    #[serde(default)]
    pub keys: Vec<String>,
    #[serde(default)]
    pub witness: Option<String>,
    pub what: String,
    #[serde(default)]
    pub commit: Option<String>,
}

impl Finding {
    fn matches(&self, key: &str) -> bool {
        if let Some(k) = &self.key {
            if k == key {
                return true;
            }
        }
        if self.keys.iter().any(|k| k == key) {
            return true;
        }
        if let Some(p) = &self.key_prefix {
            if key.starts_with(p.as_str()) {
                return true;
            }
        }
        false
    }
}

#[derive(Clone, Debug)]
pub struct PartCfg {
    pub name: &'static str,
    /// number of cases in the quick / thorough tier (generated parts)
    pub quick: u64,
    pub thorough: u64,
    /// run the checker in worker processes (crash / abort / hang / heap observation)
    pub isolated: bool,
    /// per-case wall limit for isolated parts
    pub timeout_ms: u64,
    /// heap cap for isolated parts (bytes)
    pub heap_cap: usize,
    /// is a hang (no answer within timeout_ms) a violation of this property? if false it is counted as inconclusive
    pub hang_is_violation: bool,
    /// is a worker abort / heap-cap hit a violation of this property? if false it is counted as inconclusive
    pub crash_is_violation: bool,
    /// is crossing the heap cap a violation of this property? (memory bounds are C03's subject)
    pub heapcap_is_violation: bool,
    pub threads: usize,
    /// enumerated part covers its finite domain completely
    pub exhaustive: bool,
    /// max shrink evaluations
    pub shrink_budget: u64,
}

impl PartCfg {
    pub fn new(name: &'static str, quick: u64, thorough: u64) -> PartCfg {
        PartCfg {
            name,
            quick,
            thorough,
            isolated: false,
            timeout_ms: 20_000,
            heap_cap: 2 << 30,
            hang_is_violation: false,
            crash_is_violation: true,
            heapcap_is_violation: true,
            threads: default_threads(),
            exhaustive: false,
            shrink_budget: 1500,
        }
    }
    pub fn isolated(mut self) -> Self {
        self.isolated = true;
        self
    }
    pub fn timeout_ms(mut self, ms: u64) -> Self {
        self.timeout_ms = ms;
        self
    }
    pub fn heap_cap(mut self, b: usize) -> Self {
        self.heap_cap = b;
        self
    }
    pub fn hang_is_violation(mut self, b: bool) -> Self {
        self.hang_is_violation = b;
        self
    }
    pub fn heapcap_is_violation(mut self, b: bool) -> Self {
        self.heapcap_is_violation = b;
        self
    }
    pub fn crash_is_violation(mut self, b: bool) -> Self {
        self.crash_is_violation = b;
        self
    }
    pub fn threads(mut self, n: usize) -> Self {
        self.threads = n.max(1);
        self
    }
    pub fn exhaustive(mut self, b: bool) -> Self {
        self.exhaustive = b;
        self
    }
    pub fn shrink_budget(mut self, n: u64) -> Self {
        self.shrink_budget = n;
        self
    }
}

pub fn default_threads() -> usize {
    std::env::var("ICYV_THREADS").ok().and_then(|s| s.parse().ok()).unwrap_or_else(|| std::thread::available_parallelism().map(|n| n.get()).unwrap_or(8).min(16))
}

#[derive(Default, Debug)]
pub struct PartStats {
    pub evaluations: u64,
    pub passed: u64,
    pub discarded: u64,
    pub nontrivial: u64,
    pub nontrivial_hashes: HashSet<u64>,
    pub classes: BTreeMap<String, u64>,
    pub excluded_known: BTreeMap<String, u64>,
    pub inconclusive: u64,
    pub dup_violations: u64,
    pub samples: Vec<Value>,
    pub shrink_evals: u64,
    pub max_cpu_us: u64,
    pub max_peak_heap: u64,
}

impl PartStats {
    fn merge(&mut self, o: PartStats) {
        self.evaluations += o.evaluations;
        self.passed += o.passed;
        self.discarded += o.discarded;
        self.nontrivial += o.nontrivial;
        self.nontrivial_hashes.extend(o.nontrivial_hashes);
        for (k, v) in o.classes {
            *self.classes.entry(k).or_default() += v;
        }
        for (k, v) in o.excluded_known {
            *self.excluded_known.entry(k).or_default() += v;
        }
        self.inconclusive += o.inconclusive;
        self.dup_violations += o.dup_violations;
        for s in o.samples {
            if self.samples.len() < 6 {
                self.samples.push(s);
            }
        }
        self.shrink_evals += o.shrink_evals;
        self.max_cpu_us = self.max_cpu_us.max(o.max_cpu_us);
        self.max_peak_heap = self.max_peak_heap.max(o.max_peak_heap);
    }
}

#[derive(Clone, Debug, Serialize)]
pub struct Violation {
    pub part: String,
    pub key: String,
    pub msg: String,
    pub replay: String,
}

#[derive(Serialize, Deserialize)]
struct ReplayFile {
    property: String,
    part: String,
    key: String,
    msg: String,
    seed: u64,
    case: Value,
}

#[derive(Serialize, Deserialize)]
struct WorkerReply {
    v: Verdict,
    cpu_us: u64,
    peak: u64,
}

pub struct Shared {
    pub prop: String,
    pub tier: Tier,
    pub seed: u64,
    pub verif_dir: PathBuf,
    pub findings: Vec<Finding>,
    seen_keys: Mutex<HashSet<String>>,
    violations: Mutex<Vec<Violation>>,
    stop: AtomicBool,
    max_violations: usize,
}

impl Shared {
    pub fn known(&self, key: &str) -> Option<&Finding> {
        self.findings.iter().find(|f| f.status == "open" && f.property == self.prop && f.matches(key))
    }
    fn n_violations(&self) -> usize {
        self.violations.lock().unwrap().len()
    }
}

trait PartDyn: Sync + Send {
    fn cfg(&self) -> &PartCfg;
    fn run(&self, sh: &Shared) -> PartStats;
    /// evaluate a JSON-encoded case (replay / witnesses); isolated parts go through a worker
    fn eval_json(&self, sh: &Shared, case: &Value) -> Result<Verdict, String>;
    fn worker_loop(&self) -> !;
}

enum Source<C> {
    Generated(Box<dyn Fn() -> BoxedStrategy<C> + Sync + Send>),
    Enumerated { total: u64, make: Box<dyn Fn(u64) -> C + Sync + Send> },
}

struct Part<C: CaseT> {
    cfg: PartCfg,
    source: Source<C>,
    check: Box<dyn Fn(&C) -> Verdict + Sync + Send>,
    /// input class used to key aborts / hangs / heap-cap hits (no oracle message exists for those)
    classify: Box<dyn Fn(&C) -> String + Sync + Send>,
    /// optional domain-specific simplification candidates, applied greedily after proptest's own shrinking
    minimize: Option<Box<dyn Fn(&C) -> Vec<C> + Sync + Send>>,
}

fn hash_case<C: Hash>(c: &C) -> u64 {
    let mut h = std::collections::hash_map::DefaultHasher::new();
    c.hash(&mut h);
    h.finish()
}

fn sample_value<C: Serialize>(c: &C) -> Value {
    let v = serde_json::to_value(c).unwrap_or(Value::Null);
    let s = v.to_string();
    if s.len() > 1500 {
        let cut: String = s.chars().take(1500).collect();
        json!({"truncated_json": cut, "full_len": s.len()})
    } else {
        v
    }
}

enum Evaluator<'a, C: CaseT> {
    InProc(&'a (dyn Fn(&C) -> Verdict + Sync + Send)),
    Worker { w: worker::Worker, cfg: &'a PartCfg, classify: &'a (dyn Fn(&C) -> String + Sync + Send) },
}

struct EvalOut {
    v: Verdict,
    cpu_us: u64,
    peak: u64,
    inconclusive: bool,
}

fn eval_inproc<C>(check: &(dyn Fn(&C) -> Verdict + Sync + Send), c: &C) -> Verdict {
    match panics::guarded(|| check(c)) {
        Ok(v) => v,
        Err((sig, msg)) => Verdict::Fail { key: sig, msg },
    }
}

impl<'a, C: CaseT> Evaluator<'a, C> {
    fn eval(&mut self, c: &C) -> EvalOut {
        match self {
            Evaluator::InProc(check) => EvalOut { v: eval_inproc(*check, c), cpu_us: 0, peak: 0, inconclusive: false },
            Evaluator::Worker { w, cfg, classify } => {
                let req = serde_json::to_vec(c).expect("case to json");
                match w.call(&req, Duration::from_millis(cfg.timeout_ms)) {
                    worker::Reply::Frame(b) => match serde_json::from_slice::<WorkerReply>(&b) {
                        Ok(r) => EvalOut { v: r.v, cpu_us: r.cpu_us, peak: r.peak, inconclusive: false },
                        Err(e) => EvalOut { v: Verdict::discard(format!("bad worker frame: {e}")), cpu_us: 0, peak: 0, inconclusive: true },
                    },
                    worker::Reply::Died { code, .. } if code == Some(alloc::HEAPCAP_EXIT) && !cfg.heapcap_is_violation => {
                        EvalOut { v: Verdict::discard("heap cap crossed: not this property's subject".to_string()), cpu_us: 0, peak: cfg.heap_cap as u64, inconclusive: true }
                    }
                    worker::Reply::Died { signal, code } if !cfg.crash_is_violation => {
                        EvalOut { v: Verdict::discard(format!("worker died (signal {signal:?}, code {code:?}): not this property's subject")), cpu_us: 0, peak: 0, inconclusive: true }
                    }
                    worker::Reply::Died { signal, code } => {
                        let class = classify(c);
                        if code == Some(alloc::HEAPCAP_EXIT) {
                            EvalOut {
                                v: Verdict::fail(format!("heapcap|{class}"), format!("worker crossed the heap cap of {} bytes", cfg.heap_cap)),
                                cpu_us: 0,
                                peak: cfg.heap_cap as u64,
                                inconclusive: false,
                            }
                        } else if let Some(sig) = signal {
                            let n = worker::signal_name(sig);
                            EvalOut { v: Verdict::fail(format!("abort|{n}|{class}"), format!("worker killed by {n}")), cpu_us: 0, peak: 0, inconclusive: false }
                        } else {
                            EvalOut {
                                v: Verdict::fail(format!("abort|exit{}|{class}", code.unwrap_or(-1)), format!("worker exited with {code:?}")),
                                cpu_us: 0,
                                peak: 0,
                                inconclusive: false,
                            }
                        }
                    }
                    worker::Reply::Timeout { cpu_bound } => {
                        let class = classify(c);
                        let kind = if cpu_bound { "cpu" } else { "sleep" };
                        if cfg.hang_is_violation {
                            EvalOut {
                                v: Verdict::fail(format!("hang|{class}"), format!("no answer within {} ms (worker was {kind}-bound when killed)", cfg.timeout_ms)),
                                cpu_us: cfg.timeout_ms * 1000,
                                peak: 0,
                                inconclusive: false,
                            }
                        } else {
                            EvalOut { v: Verdict::discard(format!("timeout ({kind}) class={class}")), cpu_us: 0, peak: 0, inconclusive: true }
                        }
                    }
                }
            }
        }
    }
}

impl<C: CaseT> Part<C> {
    fn make_eval<'a>(&'a self, sh: &Shared) -> Evaluator<'a, C> {
        if self.cfg.isolated {
            let env = vec![("ICYV_SEED".to_string(), sh.seed.to_string())];
            Evaluator::Worker { w: worker::Worker::new(self.cfg.name, &env), cfg: &self.cfg, classify: &*self.classify }
        } else {
            Evaluator::InProc(&*self.check)
        }
    }

    /// account one evaluated case; returns Some((key,msg)) if it is an unknown failure that should be shrunk
    fn account(&self, sh: &Shared, st: &mut PartStats, c: &C, out: &EvalOut) -> Option<(String, String)> {
        st.evaluations += 1;
        st.max_cpu_us = st.max_cpu_us.max(out.cpu_us);
        st.max_peak_heap = st.max_peak_heap.max(out.peak);
        if out.inconclusive {
            st.inconclusive += 1;
        }
        match &out.v {
            Verdict::Pass { nontrivial, class } => {
                st.passed += 1;
                *st.classes.entry(class.clone()).or_default() += 1;
                if *nontrivial {
                    st.nontrivial += 1;
                    let fresh = st.nontrivial_hashes.insert(hash_case(c));
                    if fresh && st.samples.len() < 3 && (st.nontrivial_hashes.len() % 7 == 1) {
                        st.samples.push(json!({"part": self.cfg.name, "class": class, "case": sample_value(c)}));
                    }
                }
                None
            }
            Verdict::Discard { why } => {
                st.discarded += 1;
                let w: String = why.chars().take(40).collect();
                *st.classes.entry(format!("discard:{w}")).or_default() += 1;
                None
            }
            Verdict::Fail { key, msg } => {
                if let Some(f) = sh.known(key) {
                    *st.excluded_known.entry(f.id.clone()).or_default() += 1;
                    return None;
                }
                let mut seen = sh.seen_keys.lock().unwrap();
                if seen.contains(key) {
                    st.dup_violations += 1;
                    return None;
                }
                seen.insert(key.clone());
                Some((key.clone(), msg.clone()))
            }
        }
    }

    fn record_violation(&self, sh: &Shared, c: &C, key: &str, msg: &str) {
        let case = serde_json::to_value(c).unwrap_or(Value::Null);
        let rf = ReplayFile { property: sh.prop.clone(), part: self.cfg.name.to_string(), key: key.to_string(), msg: msg.to_string(), seed: sh.seed, case };
        let body = serde_json::to_string_pretty(&rf).unwrap();
        let mut h = std::collections::hash_map::DefaultHasher::new();
        key.hash(&mut h);
        body.hash(&mut h);
        let dir = sh.verif_dir.join("replay").join(&sh.prop);
        let _ = std::fs::create_dir_all(&dir);
        let path = dir.join(format!("{}-{:012x}.json", self.cfg.name, h.finish() & 0xffff_ffff_ffff));
        let _ = std::fs::write(&path, body);
        let v = Violation { part: self.cfg.name.to_string(), key: key.to_string(), msg: msg.to_string(), replay: path.display().to_string() };
        println!("VIOLATION property={} replay={}", sh.prop, v.replay);
        println!("  part={} key={}", v.part, v.key);
        println!("  msg={}", v.msg.chars().take(600).collect::<String>());
        let mut vs = sh.violations.lock().unwrap();
        vs.push(v);
        if vs.len() >= sh.max_violations {
            sh.stop.store(true, Ordering::Relaxed);
        }
    }

    fn shrink(&self, ev: &mut Evaluator<C>, st: &mut PartStats, mut tree: Box<dyn ValueTree<Value = C>>, first: C, key: &str, msg: &str) -> (C, String) {
        let mut best = first;
        let mut best_msg = msg.to_string();
        let mut evals = 0u64;
        let t0 = Instant::now();
        if tree.simplify() {
            loop {
                if evals >= self.cfg.shrink_budget || t0.elapsed() > Duration::from_secs(120) {
                    break;
                }
                evals += 1;
                let c = tree.current();
                let out = ev.eval(&c);
                let same = matches!(&out.v, Verdict::Fail { key: k, .. } if k == key);
                if same {
                    if let Verdict::Fail { msg, .. } = out.v {
                        best_msg = msg;
                    }
                    best = c;
                    if !tree.simplify() {
                        break;
                    }
                } else if !tree.complicate() {
                    break;
                }
            }
        }
        // second pass: greedy descent over domain-specific candidates (e.g. chunk removal on byte strings)
        if let Some(minimize) = &self.minimize {
            let mut progress = true;
            while progress && evals < self.cfg.shrink_budget * 3 && t0.elapsed() < Duration::from_secs(240) {
                progress = false;
                for cand in minimize(&best) {
                    if evals >= self.cfg.shrink_budget * 3 {
                        break;
                    }
                    evals += 1;
                    let out = ev.eval(&cand);
                    if let Verdict::Fail { key: k, msg } = out.v {
                        if k == key {
                            best = cand;
                            best_msg = msg;
                            progress = true;
                            break;
                        }
                    }
                }
            }
        }
        st.shrink_evals += evals;
        (best, best_msg)
    }

    fn run_generated_thread(&self, sh: &Shared, shard: u64, quota: u64, strat: &BoxedStrategy<C>) -> PartStats {
        let mut st = PartStats::default();
        let mut seed = [0u8; 32];
        seed[..8].copy_from_slice(&sh.seed.to_le_bytes());
        seed[8..16].copy_from_slice(&shard.to_le_bytes());
        let mut h = std::collections::hash_map::DefaultHasher::new();
        self.cfg.name.hash(&mut h);
        sh.prop.hash(&mut h);
        seed[16..24].copy_from_slice(&h.finish().to_le_bytes());
        let rng = TestRng::from_seed(RngAlgorithm::ChaCha, &seed);
        let mut runner = TestRunner::new_with_rng(Config { failure_persistence: None, ..Config::default() }, rng);
        let mut ev = self.make_eval(sh);
        for _ in 0..quota {
            if sh.stop.load(Ordering::Relaxed) {
                break;
            }
            let Ok(tree) = strat.new_tree(&mut runner) else {
                st.discarded += 1;
                continue;
            };
            let c = tree.current();
            let out = ev.eval(&c);
            if let Some((key, msg)) = self.account(sh, &mut st, &c, &out) {
                let (min, min_msg) = self.shrink(&mut ev, &mut st, Box::new(tree), c, &key, &msg);
                self.record_violation(sh, &min, &key, &min_msg);
            }
        }
        st
    }

    fn run_enumerated_thread(&self, sh: &Shared, next: &AtomicU64, total: u64, make: &(dyn Fn(u64) -> C + Sync + Send)) -> PartStats {
        let mut st = PartStats::default();
        let mut ev = self.make_eval(sh);
        let chunk = (total / 512).clamp(1, 4096);
        loop {
            if sh.stop.load(Ordering::Relaxed) {
                break;
            }
            let start = next.fetch_add(chunk, Ordering::Relaxed);
            if start >= total {
                break;
            }
            for i in start..(start + chunk).min(total) {
                let c = make(i);
                let out = ev.eval(&c);
                if let Some((key, msg)) = self.account(sh, &mut st, &c, &out) {
                    self.record_violation(sh, &c, &key, &msg);
                }
            }
        }
        st
    }
}

impl<C: CaseT> PartDyn for Part<C> {
    fn cfg(&self) -> &PartCfg {
        &self.cfg
    }

    fn run(&self, sh: &Shared) -> PartStats {
        let threads = self.cfg.threads as u64;
        let mut total_stats = PartStats::default();
        match &self.source {
            Source::Generated(factory) => {
                let n = match sh.tier {
                    Tier::Quick => self.cfg.quick,
                    Tier::Thorough => self.cfg.thorough,
                };
                let threads = threads.min(n.max(1));
                let results: Vec<PartStats> = std::thread::scope(|s| {
                    let hs: Vec<_> = (0..threads)
                        .map(|t| {
                            let quota = n / threads + u64::from(t < n % threads);
                            std::thread::Builder::new()
                                .name(format!("icyv-{t}"))
                                .spawn_scoped(s, move || {
                                    let strat = factory();
                                    self.run_generated_thread(sh, t, quota, &strat)
                                })
                                .expect("spawn engine thread")
                        })
                        .collect();
                    hs.into_iter().map(|h| h.join().expect("engine thread panicked")).collect()
                });
                for r in results {
                    total_stats.merge(r);
                }
            }
            Source::Enumerated { total, make } => {
                let next = AtomicU64::new(0);
                let results: Vec<PartStats> = std::thread::scope(|s| {
                    let hs: Vec<_> = (0..threads)
                        .map(|t| {
                            let next = &next;
                            std::thread::Builder::new()
                                .name(format!("icyv-{t}"))
                                .spawn_scoped(s, move || self.run_enumerated_thread(sh, next, *total, &**make))
                                .expect("spawn engine thread")
                        })
                        .collect();
                    hs.into_iter().map(|h| h.join().expect("engine thread panicked")).collect()
                });
                for r in results {
                    total_stats.merge(r);
                }
            }
        }
        total_stats
    }

    fn eval_json(&self, sh: &Shared, case: &Value) -> Result<Verdict, String> {
        let c: C = serde_json::from_value(case.clone()).map_err(|e| format!("cannot decode case for part {}: {e}", self.cfg.name))?;
        let mut ev = self.make_eval(sh);
        Ok(ev.eval(&c).v)
    }

    fn worker_loop(&self) -> ! {
        let mut io = worker::WorkerIo::open();
        panics::install();
        alloc::enable(self.cfg.heap_cap);
        while let Some(req) = io.recv() {
            let reply = match serde_json::from_slice::<C>(&req) {
                Ok(c) => {
                    alloc::reset_peak();
                    let base = alloc::live();
                    let t0 = alloc::cpu_us();
                    let v = eval_inproc(&*self.check, &c);
                    let cpu_us = alloc::cpu_us().saturating_sub(t0);
                    let peak = alloc::peak().saturating_sub(base) as u64;
                    WorkerReply { v, cpu_us, peak }
                }
                Err(e) => WorkerReply { v: Verdict::discard(format!("worker cannot decode case: {e}")), cpu_us: 0, peak: 0 },
            };
            io.send(&serde_json::to_vec(&reply).unwrap());
        }
        unsafe { libc::_exit(0) }
    }
}

pub struct Engine {
    sh: Shared,
    parts: Vec<Box<dyn PartDyn>>,
    rule: String,
    assumptions: Vec<String>,
    replay: Option<PathBuf>,
    only_part: Option<String>,
    extra: BTreeMap<String, Value>,
    t0: Instant,
}

fn usage(prop: &str) -> ! {
    eprintln!("usage: {} <quick|thorough> [--part NAME] | --replay <file>", prop.to_lowercase());
    std::process::exit(2);
}

impl Engine {
    pub fn new(prop: &str) -> Engine {
        let args: Vec<String> = std::env::args().skip(1).collect();
        let mut tier = None;
        let mut replay = None;
        let mut only_part = None;
        let mut i = 0;
        while i < args.len() {
            match args[i].as_str() {
                "quick" => tier = Some(Tier::Quick),
                "thorough" => tier = Some(Tier::Thorough),
                "--replay" => {
                    i += 1;
                    replay = args.get(i).map(PathBuf::from);
                    if replay.is_none() {
                        usage(prop);
                    }
                }
                "--part" => {
                    i += 1;
                    only_part = args.get(i).cloned();
                }
                _ => usage(prop),
            }
            i += 1;
        }
        let tier = tier.unwrap_or_else(|| match std::env::var("VERIF_TIER").as_deref() {
            Ok("thorough") => Tier::Thorough,
            _ => Tier::Quick,
        });
        let seed = std::env::var("ICYV_SEED")
            .ok()
            .or_else(|| std::env::var("VERIF_SEED").ok())
            .and_then(|s| s.trim().parse::<i64>().ok())
            .map(|v| v as u64)
            .unwrap_or(1);
        let verif_dir = PathBuf::from(std::env::var("ICYV_VERIF").unwrap_or_else(|_| "/verif".to_string()));
        let findings = load_findings(&verif_dir);
        panics::install();
        Engine {
            sh: Shared {
                prop: prop.to_string(),
                tier,
                seed,
                verif_dir,
                findings,
                seen_keys: Mutex::new(HashSet::new()),
                violations: Mutex::new(Vec::new()),
                stop: AtomicBool::new(false),
                max_violations: std::env::var("ICYV_MAX_VIOLATIONS").ok().and_then(|s| s.parse().ok()).unwrap_or(6),
            },
            parts: Vec::new(),
            rule: String::new(),
            assumptions: Vec::new(),
            replay,
            only_part,
            extra: BTreeMap::new(),
            t0: Instant::now(),
        }
    }

    pub fn tier(&self) -> Tier {
        self.sh.tier
    }
    pub fn seed(&self) -> u64 {
        self.sh.seed
    }
    pub fn is_thorough(&self) -> bool {
        self.sh.tier == Tier::Thorough
    }
    pub fn verif_dir(&self) -> &std::path::Path {
        &self.sh.verif_dir
    }
    pub fn rule(&mut self, s: &str) {
        self.rule = s.to_string();
    }
    pub fn assume(&mut self, s: &str) {
        self.assumptions.push(s.to_string());
    }
    pub fn extra(&mut self, k: &str, v: Value) {
        self.extra.insert(k.to_string(), v);
    }
    /// is the finding with this id listed as open for this property?
    pub fn finding_open(&self, id: &str) -> bool {
        self.sh.findings.iter().any(|f| f.property == self.sh.prop && f.id == id && f.status == "open")
    }

    /// A part whose cases come from a proptest strategy (shrunk on failure).
    pub fn generated<C: CaseT>(
        &mut self,
        cfg: PartCfg,
        strategy: impl Fn() -> BoxedStrategy<C> + Sync + Send + 'static,
        check: impl Fn(&C) -> Verdict + Sync + Send + 'static,
    ) {
        self.generated_with_class(cfg, strategy, check, |_| "-".to_string());
    }

    pub fn generated_with_class<C: CaseT>(
        &mut self,
        cfg: PartCfg,
        strategy: impl Fn() -> BoxedStrategy<C> + Sync + Send + 'static,
        check: impl Fn(&C) -> Verdict + Sync + Send + 'static,
        classify: impl Fn(&C) -> String + Sync + Send + 'static,
    ) {
        self.parts.push(Box::new(Part { cfg, source: Source::Generated(Box::new(strategy)), check: Box::new(check), classify: Box::new(classify), minimize: None }));
    }

    /// like `generated_with_class`, plus a minimiser: `minimize(case)` lists simpler candidate cases (tried greedily after proptest's shrinking)
    pub fn generated_min<C: CaseT>(
        &mut self,
        cfg: PartCfg,
        strategy: impl Fn() -> BoxedStrategy<C> + Sync + Send + 'static,
        check: impl Fn(&C) -> Verdict + Sync + Send + 'static,
        classify: impl Fn(&C) -> String + Sync + Send + 'static,
        minimize: impl Fn(&C) -> Vec<C> + Sync + Send + 'static,
    ) {
        self.parts.push(Box::new(Part {
            cfg,
            source: Source::Generated(Box::new(strategy)),
            check: Box::new(check),
            classify: Box::new(classify),
            minimize: Some(Box::new(minimize)),
        }));
    }

    /// A part over a finite index space 0..total; `make(i)` builds case i.
    pub fn enumerated<C: CaseT>(
        &mut self,
        cfg: PartCfg,
        total: u64,
        make: impl Fn(u64) -> C + Sync + Send + 'static,
        check: impl Fn(&C) -> Verdict + Sync + Send + 'static,
    ) {
        self.enumerated_with_class(cfg, total, make, check, |_| "-".to_string());
    }

    pub fn enumerated_with_class<C: CaseT>(
        &mut self,
        cfg: PartCfg,
        total: u64,
        make: impl Fn(u64) -> C + Sync + Send + 'static,
        check: impl Fn(&C) -> Verdict + Sync + Send + 'static,
        classify: impl Fn(&C) -> String + Sync + Send + 'static,
    ) {
        self.parts.push(Box::new(Part { cfg, source: Source::Enumerated { total, make: Box::new(make) }, check: Box::new(check), classify: Box::new(classify), minimize: None }));
    }

    fn find_part(&self, name: &str) -> Option<&dyn PartDyn> {
        self.parts.iter().find(|p| p.cfg().name == name).map(|b| &**b)
    }

    /// Evaluate one replay file. Returns (verdict, part).
    fn eval_replay_file(&self, path: &std::path::Path) -> Result<(Verdict, ReplayFile), String> {
        let txt = std::fs::read_to_string(path).map_err(|e| format!("cannot read {}: {e}", path.display()))?;
        let rf: ReplayFile = serde_json::from_str(&txt).map_err(|e| format!("cannot parse {}: {e}", path.display()))?;
        if rf.property != self.sh.prop {
            return Err(format!("{} belongs to {}, not {}", path.display(), rf.property, self.sh.prop));
        }
        let part = self.find_part(&rf.part).ok_or_else(|| format!("{}: unknown part {}", path.display(), rf.part))?;
        let v = part.eval_json(&self.sh, &rf.case)?;
        Ok((v, rf))
    }

    /// Run everything; never returns.
    pub fn run(mut self) -> ! {
        // worker mode
        if let Ok(part) = std::env::var("ICYV_WORKER") {
            match self.parts.iter().find(|p| p.cfg().name == part) {
                Some(p) => p.worker_loop(),
                None => std::process::exit(90),
            }
        }
        let prop = self.sh.prop.clone();

        // single replay mode
        if let Some(path) = self.replay.take() {
            match self.eval_replay_file(&path) {
                Ok((Verdict::Fail { key, msg }, _)) => {
                    if let Some(f) = self.sh.known(&key) {
                        println!("KNOWN-FINDING: property={} {} [{}]", prop, f.what, f.id);
                        println!("  key={key}");
                        std::process::exit(0);
                    }
                    println!("VIOLATION property={} replay={}", prop, path.display());
                    println!("  key={key}\n  msg={msg}");
                    std::process::exit(1);
                }
                Ok((v, _)) => {
                    println!("replay {}: {:?}", path.display(), v);
                    std::process::exit(0);
                }
                Err(e) => {
                    eprintln!("replay error: {e}");
                    std::process::exit(2);
                }
            }
        }

        let tier_s = if self.sh.tier == Tier::Quick { "quick" } else { "thorough" };
        println!("[{}] tier={} seed={} threads={}", prop, tier_s, self.sh.seed, default_threads());

        // 1. known-finding witnesses
        let mut known_lines = Vec::new();
        let mut resolved = Vec::new();
        let findings: Vec<Finding> = self.sh.findings.iter().filter(|f| f.property == prop && f.status == "open").cloned().collect();
        // witnesses are evaluated concurrently (a hanging witness costs a full worker timeout)
        let witness_results: Vec<Option<Result<(Verdict, ReplayFile), String>>> = std::thread::scope(|s| {
            let hs: Vec<_> = findings
                .iter()
                .map(|f| {
                    let me = &self;
                    s.spawn(move || f.witness.as_ref().map(|w| me.eval_replay_file(&me.sh.verif_dir.join(w))))
                })
                .collect();
            hs.into_iter().map(|h| h.join().expect("witness thread")).collect()
        });
        for (f, wr) in findings.iter().zip(witness_results) {
            let Some(wr) = wr else {
                println!("KNOWN-FINDING: property={} {} [{}] (no witness file)", prop, f.what, f.id);
                known_lines.push(f.id.clone());
                continue;
            };
            let path = self.sh.verif_dir.join(f.witness.as_ref().unwrap());
            match wr {
                Ok((Verdict::Fail { key, msg }, _)) => {
                    if f.matches(&key) {
                        println!("KNOWN-FINDING: property={} {} [{}]", prop, f.what, f.id);
                        known_lines.push(f.id.clone());
                    } else if self.sh.known(&key).is_some() {
                        println!("KNOWN-FINDING: property={} {} [{}] (witness now fails as another listed finding)", prop, f.what, f.id);
                        known_lines.push(f.id.clone());
                    } else {
                        // the witness fails in a way no entry lists: that is a new violation
                        let mut seen = self.sh.seen_keys.lock().unwrap();
                        if seen.insert(key.clone()) {
                            println!("VIOLATION property={} replay={}", prop, path.display());
                            println!("  (witness of {} fails with an unlisted key)\n  key={key}\n  msg={msg}", f.id);
                            self.sh.violations.lock().unwrap().push(Violation { part: "witness".into(), key, msg, replay: path.display().to_string() });
                        }
                    }
                }
                Ok(_) => {
                    println!("RESOLVED (informational): witness of {} no longer fails", f.id);
                    resolved.push(f.id.clone());
                }
                Err(e) => {
                    println!("WARNING: witness of {} could not be evaluated: {e}", f.id);
                }
            }
        }

        // 2. regression replay tier: every committed replay file of this property
        let mut replayed = 0u64;
        let rdir = self.sh.verif_dir.join("replay").join(&prop).join("regress");
        if let Ok(rd) = std::fs::read_dir(&rdir) {
            let mut files: Vec<PathBuf> = rd.filter_map(|e| e.ok()).map(|e| e.path()).filter(|p| p.extension().map(|e| e == "json").unwrap_or(false)).collect();
            files.sort();
            for path in files {
                replayed += 1;
                match self.eval_replay_file(&path) {
                    Ok((Verdict::Fail { key, msg }, _)) => {
                        if self.sh.known(&key).is_none() {
                            let mut seen = self.sh.seen_keys.lock().unwrap();
                            if seen.insert(key.clone()) {
                                println!("VIOLATION property={} replay={}", prop, path.display());
                                println!("  key={key}\n  msg={}", msg.chars().take(600).collect::<String>());
                                self.sh.violations.lock().unwrap().push(Violation { part: "regress".into(), key, msg, replay: path.display().to_string() });
                            }
                        }
                    }
                    Ok(_) => {}
                    Err(e) => println!("WARNING: {e}"),
                }
            }
        }

        // 3. the parts
        let mut per_part = Vec::new();
        let mut total = PartStats::default();
        let mut all_exhaustive = !self.parts.is_empty();
        let mut samples: Vec<Value> = Vec::new();
        for p in &self.parts {
            if let Some(only) = &self.only_part {
                if p.cfg().name != only {
                    continue;
                }
            }
            if self.sh.n_violations() >= self.sh.max_violations {
                break;
            }
            self.sh.stop.store(false, Ordering::Relaxed);
            let t = Instant::now();
            let st = p.run(&self.sh);
            let secs = t.elapsed().as_secs_f64();
            println!(
                "  part {:<24} evals={:<9} nontrivial_distinct={:<9} known_excluded={:<7} discarded={:<7} inconclusive={:<5} {:.1}s",
                p.cfg().name,
                st.evaluations,
                st.nontrivial_hashes.len(),
                st.excluded_known.values().sum::<u64>(),
                st.discarded,
                st.inconclusive,
                secs
            );
            all_exhaustive &= p.cfg().exhaustive;
            per_part.push(json!({
                "name": p.cfg().name,
                "evaluations": st.evaluations,
                "passed": st.passed,
                "discarded": st.discarded,
                "distinct_nontrivial": st.nontrivial_hashes.len(),
                "classes": st.classes,
                "excluded_known": st.excluded_known,
                "inconclusive_timeouts": st.inconclusive,
                "duplicate_violation_cases": st.dup_violations,
                "shrink_evaluations": st.shrink_evals,
                "isolated_worker_processes": p.cfg().isolated,
                "exhaustive": p.cfg().exhaustive,
                "max_case_cpu_us": st.max_cpu_us,
                "max_case_peak_heap_bytes": st.max_peak_heap,
                "wall_s": secs,
            }));
            for s in &st.samples {
                if samples.len() < 12 {
                    samples.push(s.clone());
                }
            }
            // distinct hashes are per part; fold part name in to keep them apart
            let mut st = st;
            let name_h = {
                let mut h = std::collections::hash_map::DefaultHasher::new();
                p.cfg().name.hash(&mut h);
                h.finish()
            };
            st.nontrivial_hashes = st.nontrivial_hashes.into_iter().map(|x| x ^ name_h).collect();
            st.samples.clear();
            total.merge(st);
        }

        let violations = self.sh.violations.lock().unwrap().clone();
        let wall = self.t0.elapsed().as_secs_f64();
        if samples.is_empty() {
            samples.push(json!({"note": "no non-trivial sample recorded"}));
        }
        let mut coverage = serde_json::Map::new();
        coverage.insert("evaluations".into(), json!(total.evaluations));
        coverage.insert("distinct_nontrivial".into(), json!(total.nontrivial_hashes.len()));
        coverage.insert("rule".into(), json!(self.rule));
        coverage.insert("samples".into(), json!(samples));
        coverage.insert("exhaustive".into(), json!(all_exhaustive));
        coverage.insert("parts".into(), json!(per_part));
        coverage.insert("excluded_known".into(), json!(total.excluded_known));
        coverage.insert("known_findings_reported".into(), json!(known_lines));
        coverage.insert("known_findings_resolved".into(), json!(resolved));
        coverage.insert("regression_replays".into(), json!(replayed));
        coverage.insert("inconclusive_timeouts".into(), json!(total.inconclusive));
        coverage.insert("violation_details".into(), json!(violations));
        for (k, v) in &self.extra {
            coverage.insert(k.clone(), v.clone());
        }
        let ev = json!({
            "property_id": prop,
            "tier": tier_s,
            "seed": self.sh.seed as i64,
            "level": "exploration",
            "coverage": Value::Object(coverage),
            "assumptions": self.assumptions,
            "wall_s": wall,
            "violations": violations.len(),
        });
        let edir = self.sh.verif_dir.join("evidence");
        let _ = std::fs::create_dir_all(&edir);
        let epath = edir.join(format!("{prop}.json"));
        if self.only_part.is_none() {
            if let Err(e) = std::fs::write(&epath, serde_json::to_string_pretty(&ev).unwrap()) {
                eprintln!("cannot write evidence: {e}");
            }
        }
        println!(
            "[{}] evaluations={} distinct_nontrivial={} known_excluded={} violations={} wall={:.1}s",
            prop,
            total.evaluations,
            total.nontrivial_hashes.len(),
            total.excluded_known.values().sum::<u64>(),
            violations.len(),
            wall
        );
        if violations.is_empty() {
            std::process::exit(0);
        }
        std::process::exit(1);
    }
}

fn load_findings(verif_dir: &std::path::Path) -> Vec<Finding> {
    #[derive(Deserialize)]
    struct FF {
        findings: Vec<Finding>,
    }
    let p = verif_dir.join("known_findings.json");
    match std::fs::read_to_string(&p) {
        Ok(t) => match serde_json::from_str::<FF>(&t) {
            Ok(f) => f.findings,
            Err(e) => {
                eprintln!("FATAL: cannot parse {}: {e}", p.display());
                std::process::exit(2);
            }
        },
        Err(_) => Vec::new(),
    }
}
