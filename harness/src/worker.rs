//! Supervisor / worker process pair.
//!
//! The supervisor re-executes the current binary with ICYV_WORKER=<part>; frames are length-prefixed
//! JSON over dedicated pipes on fd 3 (supervisor -> worker) and fd 4 (worker -> supervisor). The worker's
//! stdout/stderr go to /dev/null (the RIP interpreter println!s).

use std::io::{Read, Write};
use std::os::fd::{FromRawFd, RawFd};
use std::os::unix::process::CommandExt;
use std::process::{Child, Command, Stdio};
use std::time::{Duration, Instant};

pub enum Reply {
    /// worker answered
    Frame(Vec<u8>),
    /// worker process ended while the case was in flight: (signal, exit code)
    Died { signal: Option<i32>, code: Option<i32> },
    /// no answer within the limit; `cpu_bound` tells burn from sleep
    Timeout { cpu_bound: bool },
}

pub struct Worker {
    child: Child,
    tx: std::fs::File,
    rx_fd: RawFd,
    rx: std::fs::File,
    part: String,
    extra_env: Vec<(String, String)>,
    pub restarts: u64,
}

fn pipe() -> (RawFd, RawFd) {
    let mut fds = [0 as RawFd; 2];
    let r = unsafe { libc::pipe(fds.as_mut_ptr()) };
    assert!(r == 0, "pipe() failed");
    (fds[0], fds[1])
}

fn set_cloexec(fd: RawFd) {
    unsafe {
        let fl = libc::fcntl(fd, libc::F_GETFD);
        libc::fcntl(fd, libc::F_SETFD, fl | libc::FD_CLOEXEC);
    }
}

static SPAWN_LOCK: std::sync::Mutex<()> = std::sync::Mutex::new(());

fn spawn(part: &str, extra_env: &[(String, String)]) -> (Child, std::fs::File, RawFd, std::fs::File) {
    let _g = SPAWN_LOCK.lock().unwrap_or_else(|e| e.into_inner());
    let exe = std::env::current_exe().expect("current_exe");
    let (c_rd, p_wr) = pipe(); // supervisor -> worker
    let (p_rd, c_wr) = pipe(); // worker -> supervisor
    // all four ends close-on-exec: the child gets fresh (non-cloexec) duplicates on fd 3/4 in pre_exec,
    // and no sibling worker spawned concurrently inherits an end of this pair
    set_cloexec(p_wr);
    set_cloexec(p_rd);
    set_cloexec(c_rd);
    set_cloexec(c_wr);
    let mut cmd = Command::new(exe);
    cmd.env("ICYV_WORKER", part).stdin(Stdio::null()).stdout(Stdio::null()).stderr(Stdio::null());
    for a in std::env::args().skip(1) {
        cmd.arg(a);
    }
    for (k, v) in extra_env {
        cmd.env(k, v);
    }
    unsafe {
        cmd.pre_exec(move || {
            // move the child's ends to fd 3 / 4 (they may already be 3/4 or overlap: go via high fds)
            let a = libc::fcntl(c_rd, libc::F_DUPFD, 100);
            let b = libc::fcntl(c_wr, libc::F_DUPFD, 100);
            if a < 0 || b < 0 {
                return Err(std::io::Error::last_os_error());
            }
            libc::close(c_rd);
            libc::close(c_wr);
            if libc::dup2(a, 3) < 0 || libc::dup2(b, 4) < 0 {
                return Err(std::io::Error::last_os_error());
            }
            libc::close(a);
            libc::close(b);
            // a crashing worker should not leave core files
            let lim = libc::rlimit { rlim_cur: 0, rlim_max: 0 };
            libc::setrlimit(libc::RLIMIT_CORE, &lim);
            Ok(())
        });
    }
    let child = cmd.spawn().expect("spawn worker");
    unsafe {
        libc::close(c_rd);
        libc::close(c_wr);
    }
    let tx = unsafe { std::fs::File::from_raw_fd(p_wr) };
    let rx = unsafe { std::fs::File::from_raw_fd(p_rd) };
    (child, tx, p_rd, rx)
}

fn proc_cpu_ticks(pid: u32) -> Option<u64> {
    let s = std::fs::read_to_string(format!("/proc/{pid}/stat")).ok()?;
    let rp = s.rfind(')')?;
    let f: Vec<&str> = s[rp + 2..].split_whitespace().collect();
    // after comm: state is index 0; utime = field 14 overall => index 11, stime index 12
    let ut: u64 = f.get(11)?.parse().ok()?;
    let st: u64 = f.get(12)?.parse().ok()?;
    Some(ut + st)
}

impl Worker {
    pub fn new(part: &str, extra_env: &[(String, String)]) -> Worker {
        let (child, tx, rx_fd, rx) = spawn(part, extra_env);
        Worker { child, tx, rx_fd, rx, part: part.to_string(), extra_env: extra_env.to_vec(), restarts: 0 }
    }

    fn restart(&mut self) {
        let _ = self.child.kill();
        let _ = self.child.wait();
        let (child, tx, rx_fd, rx) = spawn(&self.part, &self.extra_env);
        self.child = child;
        self.tx = tx;
        self.rx_fd = rx_fd;
        self.rx = rx;
        self.restarts += 1;
    }

    fn read_exact_deadline(&mut self, buf: &mut [u8], deadline: Instant) -> Result<(), bool> {
        // Err(true) = timeout, Err(false) = EOF/error
        let mut off = 0;
        while off < buf.len() {
            let now = Instant::now();
            if now >= deadline {
                return Err(true);
            }
            let ms = (deadline - now).as_millis().min(1000) as i32;
            let mut pfd = libc::pollfd { fd: self.rx_fd, events: libc::POLLIN, revents: 0 };
            let r = unsafe { libc::poll(&mut pfd, 1, ms.max(1)) };
            if r < 0 {
                let e = std::io::Error::last_os_error();
                if e.kind() == std::io::ErrorKind::Interrupted {
                    continue;
                }
                return Err(false);
            }
            if r == 0 {
                continue;
            }
            match self.rx.read(&mut buf[off..]) {
                Ok(0) => return Err(false),
                Ok(n) => off += n,
                Err(e) if e.kind() == std::io::ErrorKind::Interrupted => {}
                Err(_) => return Err(false),
            }
        }
        Ok(())
    }

    /// Send one request and wait for the answer. A dead or stuck worker is replaced before returning.
    pub fn call(&mut self, req: &[u8], timeout: Duration) -> Reply {
        let mut frame = Vec::with_capacity(req.len() + 4);
        frame.extend_from_slice(&(req.len() as u32).to_le_bytes());
        frame.extend_from_slice(req);
        if self.tx.write_all(&frame).is_err() {
            // worker died before/while receiving: find out how
            return self.reap();
        }
        let deadline = Instant::now() + timeout;
        let mut len = [0u8; 4];
        match self.read_exact_deadline(&mut len, deadline) {
            Ok(()) => {}
            Err(true) => return self.timed_out(),
            Err(false) => return self.reap(),
        }
        let n = u32::from_le_bytes(len) as usize;
        let mut body = vec![0u8; n];
        match self.read_exact_deadline(&mut body, deadline + Duration::from_secs(5)) {
            Ok(()) => Reply::Frame(body),
            Err(true) => self.timed_out(),
            Err(false) => self.reap(),
        }
    }

    fn timed_out(&mut self) -> Reply {
        let pid = self.child.id();
        let t0 = proc_cpu_ticks(pid);
        std::thread::sleep(Duration::from_millis(200));
        let t1 = proc_cpu_ticks(pid);
        let cpu_bound = match (t0, t1) {
            (Some(a), Some(b)) => b > a + 5, // > 50 ms of CPU in 200 ms wall
            _ => true,
        };
        self.restart();
        Reply::Timeout { cpu_bound }
    }

    fn reap(&mut self) -> Reply {
        use std::os::unix::process::ExitStatusExt;
        let st = self.child.wait().ok();
        let (signal, code) = match st {
            Some(s) => (s.signal(), s.code()),
            None => (None, None),
        };
        self.restart();
        Reply::Died { signal, code }
    }
}

impl Drop for Worker {
    fn drop(&mut self) {
        let _ = self.child.kill();
        let _ = self.child.wait();
    }
}

/// Worker side: the two ends on fd 3 / fd 4.
pub struct WorkerIo {
    rx: std::fs::File,
    tx: std::fs::File,
}

impl WorkerIo {
    pub fn open() -> WorkerIo {
        unsafe { WorkerIo { rx: std::fs::File::from_raw_fd(3), tx: std::fs::File::from_raw_fd(4) } }
    }
    pub fn recv(&mut self) -> Option<Vec<u8>> {
        let mut len = [0u8; 4];
        self.rx.read_exact(&mut len).ok()?;
        let mut body = vec![0u8; u32::from_le_bytes(len) as usize];
        self.rx.read_exact(&mut body).ok()?;
        Some(body)
    }
    pub fn send(&mut self, body: &[u8]) {
        let mut frame = Vec::with_capacity(body.len() + 4);
        frame.extend_from_slice(&(body.len() as u32).to_le_bytes());
        frame.extend_from_slice(body);
        let _ = self.tx.write_all(&frame);
    }
}

pub fn signal_name(sig: i32) -> String {
    match sig {
        libc::SIGSEGV => "SIGSEGV".into(),
        libc::SIGABRT => "SIGABRT".into(),
        libc::SIGBUS => "SIGBUS".into(),
        libc::SIGILL => "SIGILL".into(),
        libc::SIGFPE => "SIGFPE".into(),
        libc::SIGKILL => "SIGKILL".into(),
        n => format!("SIG{n}"),
    }
}
