//! Storage-shape perturbations of a Buffer that do NOT change the picture inside the buffer rectangle.
//!
//! A document that went through the editor (resize, crop, insert/delete line, load + enlarge ...) stores its picture in
//! many shapes: more or fewer allocated lines than the height, rows longer than the width, a layer larger than the
//! buffer, a terminal size that differs from the buffer size. Code that confuses `get_line_count()` with `get_height()`,
//! layer width with buffer width or terminal width with buffer width only fails on such documents. Generators apply
//! `perturb(buf, code)` (code from the case, 0 = leave alone) after building the buffer.

use icy_engine::{AttributedChar, Buffer, Line, TextAttribute, TextPane};

pub const CODES: u8 = 8;

fn junk(i: usize) -> AttributedChar {
    AttributedChar::new((b'A' + (i % 26) as u8) as char, TextAttribute::from_u8(0x1E + (i % 7) as u8, icy_engine::IceMode::Ice))
}

/// Applies perturbation `code % CODES` to layer 0 / the buffer. Returns a short name for class histograms.
pub fn perturb(buf: &mut Buffer, code: u8) -> &'static str {
    let w = buf.get_width().max(0) as usize;
    let h = buf.get_height().max(0) as usize;
    match code % CODES {
        0 => "plain",
        1 => {
            // extra allocated lines below the picture, holding cells that are not part of it
            let mut l = Line::new();
            for i in 0..w.min(40) {
                l.chars.push(junk(i));
            }
            let n = buf.layers[0].lines.len().max(h);
            buf.layers[0].lines.resize(n, Line::new());
            buf.layers[0].lines.push(l.clone());
            buf.layers[0].lines.push(l);
            "extra_lines_below"
        }
        2 => {
            // rows stored longer than the width
            for (y, line) in buf.layers[0].lines.iter_mut().enumerate().take(h) {
                if line.chars.len() >= w {
                    line.chars.truncate(w);
                    line.chars.push(junk(y));
                    line.chars.push(junk(y + 1));
                }
            }
            "rows_longer_than_width"
        }
        3 => {
            // the layer is larger than the buffer (buffer was cropped with set_size only)
            let size = buf.layers[0].get_size();
            buf.layers[0].set_size((size.width + 3, size.height + 2));
            for y in 0..(size.height + 2) {
                for x in size.width..size.width + 3 {
                    buf.layers[0].set_char((x, y), junk((x + y) as usize));
                }
            }
            for x in 0..size.width.min(20) {
                buf.layers[0].set_char((x, size.height), junk(x as usize));
            }
            "layer_larger_than_buffer"
        }
        4 => {
            // terminal size wider/taller than the buffer (buffer cropped after creation)
            buf.terminal_state.set_size((buf.get_width() + 40, buf.get_height() + 25));
            "terminal_larger_than_buffer"
        }
        5 => {
            // terminal size smaller than the buffer (buffer enlarged after creation)
            buf.terminal_state.set_size(((buf.get_width() / 2).max(1), (buf.get_height() / 2).max(1)));
            "terminal_smaller_than_buffer"
        }
        6 => {
            // trailing rows that only hold invisible cells are not allocated at all
            let inv = AttributedChar::invisible();
            while buf.layers[0].lines.last().is_some_and(|l| l.chars.iter().all(|c| *c == inv)) && buf.layers[0].lines.len() > 1 {
                buf.layers[0].lines.pop();
            }
            // and trailing invisible cells of a row are not stored
            for line in &mut buf.layers[0].lines {
                while line.chars.last().is_some_and(|c| *c == inv) {
                    line.chars.pop();
                }
            }
            "unallocated_trailing_cells"
        }
        _ => {
            // all of 1, 2 and 4 together
            perturb(buf, 2);
            perturb(buf, 1);
            perturb(buf, 4);
            "combined"
        }
    }
}
