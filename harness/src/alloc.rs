//! Counting global allocator: live/peak heap bytes, optional hard cap (process exits with code 77).
//! Tracking is off by default (in-process parallel runs); workers switch it on.

use std::alloc::{GlobalAlloc, Layout, System};
use std::sync::atomic::{AtomicBool, AtomicUsize, Ordering::Relaxed};

pub struct CountingAlloc;

static ENABLED: AtomicBool = AtomicBool::new(false);
static LIVE: AtomicUsize = AtomicUsize::new(0);
static PEAK: AtomicUsize = AtomicUsize::new(0);
static CAP: AtomicUsize = AtomicUsize::new(usize::MAX);

pub const HEAPCAP_EXIT: i32 = 77;

#[inline]
fn add(sz: usize) {
    let live = LIVE.fetch_add(sz, Relaxed).wrapping_add(sz);
    if live > PEAK.load(Relaxed) {
        PEAK.fetch_max(live, Relaxed);
    }
    if live > CAP.load(Relaxed) && live < usize::MAX / 2 {
        unsafe { libc::_exit(HEAPCAP_EXIT) };
    }
}

#[inline]
fn sub(sz: usize) {
    // saturating: memory allocated before tracking was enabled may be freed afterwards
    let mut cur = LIVE.load(Relaxed);
    loop {
        let new = cur.saturating_sub(sz);
        match LIVE.compare_exchange_weak(cur, new, Relaxed, Relaxed) {
            Ok(_) => break,
            Err(c) => cur = c,
        }
    }
}

unsafe impl GlobalAlloc for CountingAlloc {
    unsafe fn alloc(&self, l: Layout) -> *mut u8 {
        if ENABLED.load(Relaxed) {
            // refuse absurd requests early so that the cap, not the OS overcommit policy, decides
            if l.size() > CAP.load(Relaxed) {
                libc::_exit(HEAPCAP_EXIT);
            }
            let p = System.alloc(l);
            if !p.is_null() {
                add(l.size());
            }
            p
        } else {
            System.alloc(l)
        }
    }
    unsafe fn alloc_zeroed(&self, l: Layout) -> *mut u8 {
        if ENABLED.load(Relaxed) {
            if l.size() > CAP.load(Relaxed) {
                libc::_exit(HEAPCAP_EXIT);
            }
            let p = System.alloc_zeroed(l);
            if !p.is_null() {
                add(l.size());
            }
            p
        } else {
            System.alloc_zeroed(l)
        }
    }
    unsafe fn dealloc(&self, p: *mut u8, l: Layout) {
        if ENABLED.load(Relaxed) {
            sub(l.size());
        }
        System.dealloc(p, l);
    }
    unsafe fn realloc(&self, p: *mut u8, l: Layout, new_size: usize) -> *mut u8 {
        if ENABLED.load(Relaxed) {
            if new_size > CAP.load(Relaxed) {
                libc::_exit(HEAPCAP_EXIT);
            }
            let q = System.realloc(p, l, new_size);
            if !q.is_null() {
                if new_size >= l.size() {
                    add(new_size - l.size());
                } else {
                    sub(l.size() - new_size);
                }
            }
            q
        } else {
            System.realloc(p, l, new_size)
        }
    }
}

pub fn enable(cap_bytes: usize) {
    CAP.store(cap_bytes, Relaxed);
    LIVE.store(0, Relaxed);
    PEAK.store(0, Relaxed);
    ENABLED.store(true, Relaxed);
}

/// Reset the peak to the current live value; returns live bytes.
pub fn reset_peak() -> usize {
    let live = LIVE.load(Relaxed);
    PEAK.store(live, Relaxed);
    live
}

pub fn peak() -> usize {
    PEAK.load(Relaxed)
}

pub fn live() -> usize {
    LIVE.load(Relaxed)
}

/// CPU time consumed by the whole process (all threads), microseconds.
pub fn cpu_us() -> u64 {
    let mut ts = libc::timespec { tv_sec: 0, tv_nsec: 0 };
    unsafe { libc::clock_gettime(libc::CLOCK_PROCESS_CPUTIME_ID, &mut ts) };
    ts.tv_sec as u64 * 1_000_000 + ts.tv_nsec as u64 / 1000
}
