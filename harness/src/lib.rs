//! icyv — verification harness for mkrueger/icy_engine (property-based testing and fuzzing).
pub mod alloc;
pub mod engine;
pub mod panics;
pub mod worker;

#[global_allocator]
static GLOBAL: alloc::CountingAlloc = alloc::CountingAlloc;

pub use engine::{Engine, PartCfg, Tier, Verdict};
pub use proptest;
pub use serde;
pub use serde_json;
pub mod stream;
pub mod util;
pub mod shape;
