pub fn hello() {}
