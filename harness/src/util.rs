//! Small shared helpers.
use serde::{Deserialize, Deserializer, Serialize, Serializer};

/// Byte string that serialises as a compact, readable escaped string (for replay files and samples).
#[derive(Clone, PartialEq, Eq, Hash, Default)]
pub struct Bytes(pub Vec<u8>);

impl std::fmt::Debug for Bytes {
    fn fmt(&self, f: &mut std::fmt::Formatter<'_>) -> std::fmt::Result {
        write!(f, "b\"{}\"", escape(&self.0))
    }
}

pub fn escape(b: &[u8]) -> String {
    let mut s = String::with_capacity(b.len() + 8);
    for &c in b {
        match c {
            b'\\' => s.push_str("\\\\"),
            0x20..=0x7E => s.push(c as char),
            _ => s.push_str(&format!("\\x{c:02x}")),
        }
    }
    s
}

pub fn unescape(s: &str) -> Result<Vec<u8>, String> {
    let b = s.as_bytes();
    let mut out = Vec::with_capacity(b.len());
    let mut i = 0;
    while i < b.len() {
        if b[i] == b'\\' {
            if i + 1 < b.len() && b[i + 1] == b'\\' {
                out.push(b'\\');
                i += 2;
            } else if i + 3 < b.len() && b[i + 1] == b'x' {
                let h = std::str::from_utf8(&b[i + 2..i + 4]).map_err(|e| e.to_string())?;
                out.push(u8::from_str_radix(h, 16).map_err(|e| e.to_string())?);
                i += 4;
            } else {
                return Err(format!("bad escape at {i}"));
            }
        } else {
            out.push(b[i]);
            i += 1;
        }
    }
    Ok(out)
}

impl Serialize for Bytes {
    fn serialize<S: Serializer>(&self, s: S) -> Result<S::Ok, S::Error> {
        s.serialize_str(&escape(&self.0))
    }
}
impl<'de> Deserialize<'de> for Bytes {
    fn deserialize<D: Deserializer<'de>>(d: D) -> Result<Self, D::Error> {
        let s = String::deserialize(d)?;
        unescape(&s).map(Bytes).map_err(serde::de::Error::custom)
    }
}

impl std::ops::Deref for Bytes {
    type Target = [u8];
    fn deref(&self) -> &[u8] {
        &self.0
    }
}

/// monotone index map (shrinks towards index 0): i in 0..=65535 -> 0..len
pub fn pick(i: u16, len: usize) -> usize {
    if len == 0 {
        0
    } else {
        ((i as usize) * len) >> 16
    }
}

/// ddmin-style candidates for a byte string: the string with one chunk removed, chunk sizes n/2, n/4, ... 1
/// (largest first), then single bytes replaced by a simpler byte.
pub fn bytes_candidates(b: &[u8]) -> Vec<Vec<u8>> {
    let n = b.len();
    let mut out = Vec::new();
    if n == 0 {
        return out;
    }
    let mut size = n.div_ceil(2);
    loop {
        let mut start = 0;
        while start < n {
            let end = (start + size).min(n);
            let mut v = Vec::with_capacity(n - (end - start));
            v.extend_from_slice(&b[..start]);
            v.extend_from_slice(&b[end..]);
            out.push(v);
            start += size;
        }
        if size == 1 || out.len() > 600 {
            break;
        }
        size = size.div_ceil(2);
    }
    if n <= 64 {
        for i in 0..n {
            let simpler = match b[i] {
                b'1'..=b'9' => Some(b[i] - 1),
                0x80..=0xFF => Some(b'a'),
                _ => None,
            };
            if let Some(s) = simpler {
                let mut v = b.to_vec();
                v[i] = s;
                out.push(v);
            }
        }
    }
    out
}
