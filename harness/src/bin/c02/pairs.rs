//! Enumerated PAIRS for formats with a fixed header that carries size / offset / count fields: every truncation length
//! 0..=(header size + 8) x every such field set to {0, 1, the truncated length, length - 1, length + 1, the original value}
//! (one field at a time), through every route a header can take (direct API, inside an .ans via DCS, inside an .icy record).
//! Plus the table of huge numbers in ANSI-family files.
use crate::golden::{self, Chunk, G_FONT, G_IDF, G_SAUCE, G_TDF, G_XB};
use crate::mutate::{Inner, Mut};
use crate::{textfield, Case, Src, TARGETS};
use base64::{engine::general_purpose, Engine};
use icyv::util::Bytes;

fn target(name: &str) -> u8 {
    TARGETS.iter().position(|t| t.name == name).expect("target name") as u8
}

/// [optional Put, KeepLen(len)] for every (length, field, value); `shift` moves all offsets (a header inside a record)
fn pair_muts(fields: &[(usize, u8)], lens: impl Iterator<Item = usize>, shift: usize) -> Vec<Vec<Mut>> {
    let mut out = Vec::new();
    for len in lens {
        let keep = Mut::KeepLen((len + shift) as u32);
        // the original value: plain truncation
        out.push(vec![keep.clone()]);
        for (off, w) in fields {
            let mut vals = vec![0u64, 1, len as u64, len as u64 + 1];
            if len > 0 {
                vals.push(len as u64 - 1);
            }
            // a field counts from the start of the header, from its own position or from its end
            vals.push((len as u64).saturating_sub(*off as u64));
            vals.push((len as u64).saturating_sub((*off + *w as usize) as u64));
            vals.sort_unstable();
            vals.dedup();
            for v in vals {
                out.push(vec![Mut::Put { at: (*off + shift) as u32, width: *w, val: v }, keep.clone()]);
            }
        }
    }
    out
}

fn golden_case(target: u8, gi: usize, muts: Vec<Mut>) -> Case {
    Case { target, src: Src::Golden(gi as u16), inner: vec![], muts }
}

fn find_golden(group: usize, tag_part: &str) -> Option<(usize, &'static golden::Golden)> {
    golden::group(group).iter().enumerate().find(|(_, g)| g.tag.contains(tag_part))
}

fn apply_all(bytes: &[u8], muts: &[Mut]) -> Vec<u8> {
    let mut b = bytes.to_vec();
    for m in muts {
        crate::mutate::apply(m, &mut b, crate::mutate::Ctx::None);
    }
    b
}

const PSF1_FIELDS: [(usize, u8); 2] = [(2, 1), (3, 1)];
/// version, header size, flags, length, char size, height, width
const PSF2_FIELDS: [(usize, u8); 7] = [(4, 4), (8, 4), (12, 4), (16, 4), (20, 4), (24, 4), (28, 4)];

pub fn pair_cases(thorough: bool, out: &mut Vec<Case>) {
    // ---- bitmap fonts: BitFont::from_bytes, the CTerm:Font DCS of an .ans file, the FONT_ record of an .icy file
    let bitfont = target("bitfont");
    let ans = target("ans");
    let icy = target("icy");
    let base = textfield::icy_chunks(0, b"title");
    let font_idx = base.iter().position(|c| c.key == "FONT_0").unwrap_or(0);
    let sel = |i: usize, n: usize| ((i * 65536 + 32768) / n.max(1)).min(65535) as u16;
    for (tag, fields, max_len) in [("psf2:custom8x1", &PSF2_FIELDS[..], 40usize), ("psf1:mode0:8x1", &PSF1_FIELDS[..], 12)] {
        let Some((gi, g)) = find_golden(G_FONT, tag) else { continue };
        for muts in pair_muts(fields, 0..=max_len, 0) {
            // a font file
            out.push(golden_case(bitfont, gi, muts.clone()));
            let font = apply_all(&g.bytes, &muts);
            // the font as custom font of a terminal stream
            let mut dcs = b"\x1bPCTerm:Font:1:".to_vec();
            dcs.extend(general_purpose::STANDARD.encode(&font).bytes());
            dcs.extend_from_slice(b"\x1b\\\x1b[11mtext\r\n");
            out.push(Case { target: ans, src: Src::Raw(Bytes(dcs)), inner: vec![], muts: vec![] });
            // the font behind its name in an .icy record
            let mut chunks = base.clone();
            let mut rec = 4u32.to_le_bytes().to_vec();
            rec.extend_from_slice(b"font");
            rec.extend(font);
            chunks[font_idx].data = Bytes(rec);
            out.push(Case { target: icy, src: Src::Chunks(chunks), inner: vec![], muts: vec![] });
        }
    }

    // ---- a complete font with one extreme size field as the document's font, then text, then a sixel: the picture is placed
    // and clipped with the font's cell size (50 ms per case: only fonts that the loader accepts, or that make it panic)
    for (tag, fields) in [("psf2:custom8x1", &PSF2_FIELDS[..]), ("psf1:mode0:8x1", &PSF1_FIELDS[..]), ("psf2:default8x16", &PSF2_FIELDS[..])] {
        let Some((_, g)) = find_golden(G_FONT, tag) else { continue };
        for (off, w) in fields {
            for v in crate::mutate::extremes(*w) {
                let font = apply_all(&g.bytes, &[Mut::Put { at: *off as u32, width: *w, val: *v }]);
                if matches!(icyv::panics::guarded(|| icy_engine::BitFont::from_bytes("probe", &font)), Ok(Err(_))) {
                    continue;
                }
                for slot in [0, 1] {
                    let mut dcs = format!("\x1bPCTerm:Font:{slot}:").into_bytes();
                    dcs.extend(general_purpose::STANDARD.encode(&font).bytes());
                    dcs.extend_from_slice(b"\x1b\\");
                    dcs.extend_from_slice(if slot == 1 { &b"\x1b[11m"[..] } else { &b""[..] });
                    dcs.extend_from_slice(b"abc");
                    dcs.extend_from_slice(SIXEL);
                    dcs.extend_from_slice(b"z\r\n");
                    out.push(Case { target: ans, src: Src::Raw(Bytes(dcs)), inner: vec![], muts: vec![] });
                }
            }
        }
    }

    // ---- .icy record headers: ICED (width, height), FONT_ (name length), LAYER_ (title length, size, data length, picture size)
    {
        let n = base.len();
        let payload = |ci: usize, muts: Vec<Mut>| Case {
            target: icy,
            src: Src::Chunks(base.clone()),
            inner: muts.into_iter().map(|m| Inner::Payload { chunk: sel(ci, n), m }).collect(),
            muts: vec![],
        };
        for (ci, c) in base.iter().enumerate() {
            let fields: Vec<(usize, u8)> = match c.key.as_str() {
                "ICED" => vec![(11, 4), (15, 4)],
                "FONT_0" => vec![(0, 4)],
                // title "layer" (5 bytes): fixed part starts at 9
                "LAYER_0" => vec![(0, 4), (9 + 23, 4), (9 + 27, 4), (9 + 31, 2), (9 + 33, 8)],
                _ => continue,
            };
            let max = match c.key.as_str() {
                "ICED" => 19 + 8,
                "FONT_0" => 8 + 40,
                _ => 9 + 41 + 8 + 8,
            };
            for muts in pair_muts(&fields, 0..=max, 0) {
                out.push(payload(ci, muts));
            }
        }
        // a picture layer: role 1, picture header behind the fixed part (title "L": fixed part starts at 5)
        let mut chunks = base.clone();
        let li = chunks.iter().position(|c| c.key == "LAYER_0").unwrap_or(0);
        chunks[li].data = Bytes(crate::layer_record(1, 2, 1, Some([12, 6, 1, 1]), &[1, 2, 3, 4, 5, 6, 7, 8]));
        let fields = [(0usize, 4u8), (5 + 23, 4), (5 + 27, 4), (5 + 33, 8), (5 + 41, 4), (5 + 45, 4), (5 + 49, 4), (5 + 53, 4)];
        for muts in pair_muts(&fields, 0..=(5 + 41 + 16 + 8), 0) {
            for cont in [false, true] {
                let mut v = chunks.clone();
                if cont {
                    v.insert(li + 1, Chunk { key: "LAYER_0~1".into(), data: Bytes(vec![9, 9, 9, 9]) });
                }
                let m = v.len();
                out.push(Case { target: icy, src: Src::Chunks(v), inner: muts.iter().cloned().map(|m_| Inner::Payload { chunk: sel(li, m), m: m_ }).collect(), muts: vec![] });
            }
        }
    }

    // ---- XBin: width, height, font height, flags
    let xb = target("xb");
    for tag in ["xb:80x3:sauce0:opt0", "xb:80x2+font8x14:sauce0:opt0", "xb:80x2+two_fonts:sauce0:opt0", "xb:40x5+ice+palette:sauce0:opt0"] {
        if let Some((gi, _)) = find_golden(G_XB, tag) {
            for muts in pair_muts(&[(5, 2), (7, 2), (9, 1), (10, 1)], 0..=19, 0) {
                out.push(golden_case(xb, gi, muts));
            }
        }
    }

    // ---- iCE Draw: x1, y1, x2, y2; the loader wants header + font + palette, so the lengths around that minimum count too
    let idf = target("idf");
    if let Some((gi, g)) = golden::group(G_IDF).iter().enumerate().next() {
        let min = 12 + 4096 + 48;
        let lens: Vec<usize> = (0..=20).chain(min - 4..=min + 10).chain(g.bytes.len().saturating_sub(6)..=g.bytes.len()).collect();
        for muts in pair_muts(&[(4, 2), (6, 2), (8, 2), (10, 2)], lens.into_iter(), 0) {
            out.push(golden_case(idf, gi, muts));
        }
    }

    // ---- TheDraw fonts: name length, type, spacing, block size, glyph offsets; the second font of a bundle likewise
    let tdf = target("tdf");
    let tdf_fields = |o: usize| vec![(o + 4, 1u8), (o + 21, 1), (o + 22, 1), (o + 23, 2), (o + 25, 2), (o + 27, 2), (o + 25 + 2 * 93, 2)];
    if let Some((gi, _)) = find_golden(G_TDF, "synthetic:BLOCK") {
        for muts in pair_muts(&tdf_fields(20), (0..=241).step_by(if thorough { 1 } else { 2 }), 0) {
            out.push(golden_case(tdf, gi, muts));
        }
    }
    if let Some((gi, g)) = find_golden(G_TDF, "synthetic:bundle3") {
        // second font: behind the first font's header (213 bytes) and glyph block
        if g.bytes.len() > 45 {
            let block0 = g.bytes[43] as usize | (g.bytes[44] as usize) << 8;
            let o2 = 20 + 213 + block0;
            for muts in pair_muts(&tdf_fields(o2), (o2..=o2 + 221).step_by(if thorough { 1 } else { 3 }), 0) {
                out.push(golden_case(tdf, gi, muts));
            }
        }
    }

    // ---- SAUCE: comment count x number of bytes in front of the record (file = suffix of EOF + COMNT + 2 lines + record)
    let sauce = target("sauce");
    if let Some((gi, g)) = find_golden(G_SAUCE, "sauce:ans:trailer2") {
        let s = g.bytes.len() - 128;
        for front in 0..=s {
            let mut counts = vec![0u64, 1, 2, 3, 4, 255, front as u64 / 64, front as u64 / 64 + 1, (front as u64).saturating_sub(5) / 64];
            counts.sort_unstable();
            counts.dedup();
            for c in counts {
                let muts = vec![Mut::Put { at: (s + 104) as u32, width: 1, val: c }, Mut::DropLen((s - front) as u32)];
                out.push(golden_case(sauce, gi, muts.clone()));
                // the same trailer as a whole .ans / .bin file and as SAUCE record of an .icy file
                let bytes = apply_all(&g.bytes, &muts);
                for t in ["ans", "bin"] {
                    out.push(Case { target: target(t), src: Src::Raw(Bytes(bytes.clone())), inner: vec![], muts: vec![] });
                }
                if front % 4 == 0 || front < 12 || front + 12 > s {
                    let mut chunks = base.clone();
                    chunks.insert(1, Chunk { key: "SAUCE".into(), data: Bytes(bytes) });
                    out.push(Case { target: icy, src: Src::Chunks(chunks), inner: vec![], muts: vec![] });
                }
            }
        }
    }

    // ---- sixel raster attributes "Pan;Pad;Ph;Pv in a DCS q of an .ans file: every cut of the data x Ph / Pv
    let body = b"#0;2;100;0;0#1;2;0;100;0#0~~@@vv@@~~$#1!10?-#0!10~";
    for cut in (0..=body.len()).step_by(if thorough { 1 } else { 4 }) {
        for (w, h) in [(10usize, 12usize), (0, 12), (10, 0), (1, 1), (cut, 12), (10, cut), (cut + 1, cut + 1), (65536, 1), (1, 65536)] {
            let mut v = format!("\x1bPq\"1;1;{w};{h}").into_bytes();
            v.extend_from_slice(&body[..cut]);
            v.extend_from_slice(b"\x1b\\x\r\n");
            out.push(Case { target: ans, src: Src::Raw(Bytes(v)), inner: vec![], muts: vec![] });
        }
    }
}

/// a small sixel picture (one colour, two columns)
pub const SIXEL: &[u8] = b"\x1bPq#1;2;100;0;0#1~~\x1b\\";

/// Huge numbers in ANSI-family FILES (documents grow instead of scrolling: other code paths than a terminal):
/// prefix {none, 90 x LF, text + margins} x every CSI final 0x40..=0x7E x 8 intermediates x parameter lists of length <= 2 over
/// {0, 1, 25, 65536, 2147483599, 2147483647}; the count of REP (CSI Pn b) is capped at 9999.
pub fn csi_cases(thorough: bool, out: &mut Vec<Case>) {
    const V: [u32; 6] = [0, 1, 25, 65536, 2_147_483_599, 2_147_483_647];
    let mut lists: Vec<Vec<u32>> = vec![vec![]];
    for a in V {
        lists.push(vec![a]);
        for b in V {
            lists.push(vec![a, b]);
        }
    }
    let mut prefixes: Vec<Vec<u8>> = vec![vec![], vec![b'\n'; 90]];
    prefixes.push(b"Hello\r\nworld \x1b[5;20r\x1b[?69h\x1b[10;70s\x1b[12;30Hab".to_vec());
    // the quick tier runs the lists of length 2 for .ans with the intermediates none / SP / ? only; for the other parsers in front
    // of the ANSI parser the lists of length <= 1
    for (ti, name) in ["ans", "ice", "diz", "msg", "pcb", "avt", "an1", "xyz"].into_iter().enumerate() {
        let t = target(name);
        for prefix in &prefixes {
            for fin in 0x40u8..=0x7E {
                for inter in [&b""[..], b" ", b"$", b"*", b"?", b"=", b"!", b"<"] {
                    for l in &lists {
                        if !thorough && l.len() > 1 && (ti > 0 || !matches!(inter, b"" | b" " | b"?")) {
                            continue;
                        }
                        // a document of 65536 rows costs a third of a second and every heap-cap hit a worker restart: in the quick tier 65536 and
                        // 2147483599 only as single parameter
                        if !thorough && l.len() > 1 && (l.contains(&65536) || l.contains(&2_147_483_599)) {
                            continue;
                        }
                        // ice / diz / unknown extensions are the very same loader as ans: one prefix each in the quick tier
                        if !thorough && matches!(name, "ice" | "diz" | "xyz") && prefix.len() != 90 {
                            continue;
                        }
                        // the other parsers: without the line-feed prefix in the quick tier
                        if !thorough && matches!(name, "msg" | "pcb" | "avt" | "an1") && prefix.len() == 90 {
                            continue;
                        }
                        let mut v = prefix.clone();
                        v.extend_from_slice(b"\x1b[");
                        // private-parameter markers come in front of the numbers, intermediates behind them
                        let front = matches!(inter, b"?" | b"=" | b"!" | b"<");
                        if front {
                            v.extend_from_slice(inter);
                        }
                        let nums: Vec<String> = l.iter().map(|n| if fin == b'b' && inter.is_empty() { (*n).min(9999) } else { *n }.to_string()).collect();
                        v.extend_from_slice(nums.join(";").as_bytes());
                        if !front {
                            v.extend_from_slice(inter);
                        }
                        v.push(fin);
                        // a character, then a way down: line feed (which allocates every row down to the caret: only for plain
                        // single-parameter sequences of .ans without prefix) or index (ESC D)
                        v.extend_from_slice(if ti == 0 && inter.is_empty() && prefix.is_empty() && l.len() <= 1 { &b"x\r\ny"[..] } else { &b"x\x1bDy"[..] });
                        out.push(Case { target: t, src: Src::Raw(Bytes(v)), inner: vec![], muts: vec![] });
                    }
                }
            }
        }
    }

    // ---- sixels combined with other features (every file with a sixel costs >= 50 ms: parse_with_parser polls the decoder)
    let seq = |fin: u8, l: &[u32]| {
        let mut v = b"\x1b[".to_vec();
        v.extend_from_slice(l.iter().map(|n| n.to_string()).collect::<Vec<_>>().join(";").as_bytes());
        v.push(fin);
        v
    };
    // with a character behind the picture, or the picture as the last thing of the file (a character on row 2^31 ends in the heap
    // cap before the picture is placed)
    let sixel_tail = |mut v: Vec<u8>, with_char: bool| {
        v.extend_from_slice(SIXEL);
        if with_char {
            v.extend_from_slice(b"z\r\n");
        }
        v
    };
    let ans = target("ans");
    // (i) the sequence under test, then a small sixel, then a character: every final, no intermediate, parameter lists
    //     {none, 1, 2147483647}, after {nothing, text + margins, text area 132 columns wide + cursor far right}
    let wide_right: &[u8] = b"\x1b[8;30;132t\x1b[3;120H";
    for prefix in [&b""[..], &b"Hello\r\nworld \x1b[5;20r\x1b[?69h\x1b[10;70s\x1b[12;30Hab"[..], wide_right] {
        for fin in 0x40u8..=0x7E {
            for (l, with_char) in [(&[][..], true), (&[1u32][..], thorough), (&[2_147_483_647][..], true), (&[2_147_483_647][..], false), (&[200_000_000][..], false)] {
                if !thorough && l == [200_000_000] && !matches!(fin, b'B' | b'C' | b'E' | b'H' | b'd' | b'e' | b'a' | b'G' | b'f' | b'`') {
                    continue;
                }
                if l == [1] && !thorough {
                    continue;
                }
                let mut v = prefix.to_vec();
                v.extend(seq(fin, &l.iter().map(|n| if fin == b'b' { (*n).min(9999) } else { *n }).collect::<Vec<_>>()));
                out.push(Case { target: ans, src: Src::Raw(Bytes(sixel_tail(v, with_char))), inner: vec![], muts: vec![] });
            }
        }
    }
    // (ii) two-sequence prefixes from {resize wider, resize narrower, margins, cursor far right / bottom, origin mode}, a cursor
    //      movement, then the sixel
    let setups: [&[u8]; 6] = [b"", b"\x1b[8;30;132t", b"\x1b[8;10;20t", b"\x1b[5;20r\x1b[?69h\x1b[10;70s", b"\x1b[60;120H", b"\x1b[?6h"];
    let moves: Vec<Vec<u8>> = vec![
        vec![],
        seq(b'B', &[2_147_483_647]),
        seq(b'B', &[200_000_000]),
        seq(b'C', &[2_147_483_647]),
        seq(b'H', &[2_147_483_647, 2_147_483_647]),
        seq(b'H', &[1, 200]),
        seq(b'd', &[65536]),
    ];
    for (i, a) in setups.iter().enumerate() {
        for (j, b) in setups.iter().enumerate() {
            if i == j && i != 0 {
                continue;
            }
            for m in &moves {
                let mut v = b"ab".to_vec();
                v.extend_from_slice(a);
                v.extend_from_slice(b);
                v.extend_from_slice(m);
                for with_char in [true, false] {
                    out.push(Case { target: ans, src: Src::Raw(Bytes(sixel_tail(v.clone(), with_char))), inner: vec![], muts: vec![] });
                }
            }
        }
    }
}
