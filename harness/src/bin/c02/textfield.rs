//! Text fields as a dimension of every loader that decodes text: a text of a chosen byte length, alphabet and alignment is
//! placed into one text-carrying position (slot) of an otherwise VALID file that is generated around it (not mutated into it):
//! palette formats (title / author / description / colour name / free lines), the .icy PALETTE, layer title, font name and
//! SAUCE records, SAUCE title / author / group / comment / font name behind any content, TheDraw font names, and the string
//! arguments of ANSI control strings (OSC 8 hyperlink id and URI, OSC 0/2 titles, OSC 4 colour spec, APS, DCS).
use crate::golden::{self, Chunk};
use icyv::util::Bytes;
use serde::{Deserialize, Serialize};

#[derive(Clone, Debug, Hash, Serialize, Deserialize, PartialEq)]
pub struct TextCase {
    /// index into the slot list of the target's format (modulo its length)
    pub slot: u8,
    /// byte length the text reaches (the last character may overshoot it)
    pub len: u32,
    /// 0 ASCII, 1 Latin-1 letters (2-byte UTF-8), 2 three-byte, 3 four-byte characters, 4 control characters,
    /// 5 separators of the text formats, 6 all of them in turn
    pub alpha: u8,
    /// ASCII bytes in front, so that multi-byte characters start at every offset mod 4
    pub align: u8,
    /// text-based loaders: UTF-8 with BOM (otherwise the bytes are what a CP437 file would contain)
    pub bom: bool,
}

pub const LENGTHS: [u32; 12] = [0, 1, 127, 128, 129, 130, 255, 256, 257, 258, 1000, 70000];
pub const ALPHABETS: u8 = 7;

pub fn text(t: &TextCase) -> Vec<u8> {
    let alpha: &[&str] = match t.alpha % ALPHABETS {
        0 => &["x"],
        1 => &["\u{e9}", "\u{d6}"],
        2 => &["\u{2588}", "\u{20ac}"],
        3 => &["\u{1F600}"],
        4 => &["\x01", "\x07", "\x08", "\t", "\x0c", "\r", "\x1a", "\x7f", "\u{9b}"],
        5 => &["#", ";", ":", "=", " ", "\t", ",", "/", "\\", "\"", "'", "0", "1", "2", " ", "f", "F", "~", "|", "@", "^"],
        _ => &["a", "\u{e9}", "\u{2588}", "\u{1F600}", ";", "7"],
    };
    let mut out = vec![b'a'; (t.align % 4) as usize];
    let len = t.len.min(200_000) as usize;
    out.truncate(len);
    let mut i = 0;
    while out.len() < len {
        out.extend_from_slice(alpha[i % alpha.len()].as_bytes());
        i += 1;
    }
    out
}

/// the file formats that carry text
#[derive(Clone, Copy, PartialEq, Eq, Debug)]
pub enum Format {
    PalIce,
    PalHex,
    PalPal,
    PalGpl,
    PalTxt,
    Icy,
    /// SAUCE trailer behind a short content (any buffer extension, SauceData::extract)
    Sauce,
    Tdf,
    /// control strings of the ANSI parser (ans / ice / diz / unknown extension; Avatar, PCBoard fall back to it)
    Ansi,
}

pub fn slots(f: Format) -> usize {
    match f {
        Format::PalIce => 6,
        Format::PalGpl => 6,
        Format::PalTxt => 5,
        Format::PalPal => 3,
        Format::PalHex => 3,
        Format::Icy => 12,
        Format::Sauce => 6,
        Format::Tdf => 2,
        Format::Ansi => 8,
    }
}

/// fixed-size slots: longer texts are cut to the field, so only a few lengths are distinct
pub fn field_size(f: Format, slot: usize) -> Option<usize> {
    match (f, slot) {
        (Format::Sauce, 0) => Some(35),
        (Format::Sauce, 1 | 2) => Some(20),
        (Format::Sauce, 3 | 4) => Some(64),
        (Format::Sauce, 5) => Some(22),
        (Format::Icy, 6) => Some(35),
        (Format::Icy, 7 | 8) => Some(20),
        (Format::Icy, 9) => Some(64),
        (Format::Icy, 10) => Some(22),
        (Format::Tdf, _) => Some(12),
        _ => None,
    }
}

fn lines(parts: &[&[u8]]) -> Vec<u8> {
    parts.concat()
}

fn palette_ice(slot: usize, t: &[u8]) -> Vec<u8> {
    let f = |i: usize, d: &'static str| if slot == i { t.to_vec() } else { d.as_bytes().to_vec() };
    let mut v = lines(&[b"ICE Palette\n#Palette Name: ", &f(0, "title"), b"\n#Author: ", &f(1, "author"), b"\n#Description: ", &f(2, "text"), b"\n#Colors: 2\n#Name: ", &f(3, "black"), b"\n000000\n"]);
    if slot == 4 {
        // a line that is neither header nor colour
        v.extend_from_slice(t);
        v.push(b'\n');
    }
    v.extend_from_slice(b"ffffff\n");
    if slot == 5 {
        // no newline at the end
        v.extend_from_slice(b"#Name: ");
        v.extend_from_slice(t);
    }
    v
}

fn palette_gpl(slot: usize, t: &[u8]) -> Vec<u8> {
    let f = |i: usize, d: &'static str| if slot == i { t.to_vec() } else { d.as_bytes().to_vec() };
    let mut v = lines(&[b"GIMP Palette\n#Palette Name: ", &f(0, "title"), b"\n#Author: ", &f(1, "author"), b"\n#Description: ", &f(2, "text"), b"\n#Colors: 2\n  0   0   0 ", &f(3, "black"), b"\n"]);
    if slot == 4 {
        v.extend_from_slice(b"Name: ");
        v.extend_from_slice(t);
        v.extend_from_slice(b"\nColumns: 16\n# ");
        v.extend_from_slice(t);
        v.push(b'\n');
    }
    v.extend_from_slice(b"255 255 255 white\n");
    if slot == 5 {
        v.extend_from_slice(b"#Description: ");
        v.extend_from_slice(t);
    }
    v
}

fn palette_txt(slot: usize, t: &[u8]) -> Vec<u8> {
    let f = |i: usize, d: &'static str| if slot == i { t.to_vec() } else { d.as_bytes().to_vec() };
    let mut v = lines(&[b";paint.net Palette File\n;Palette Name: ", &f(0, "title"), b"\n;Author: ", &f(1, "author"), b"\n;Description: ", &f(2, "text"), b"\n;Colors: 2\nFF000000\n"]);
    if slot == 3 {
        v.extend_from_slice(b"; ");
        v.extend_from_slice(t);
        v.push(b'\n');
    }
    v.extend_from_slice(b"FFffffff\n");
    if slot == 4 {
        v.extend_from_slice(b";Palette Name: ");
        v.extend_from_slice(t);
    }
    v
}

fn palette_pal(slot: usize, t: &[u8]) -> Vec<u8> {
    let mut v = b"JASC-PAL\n0100".to_vec();
    if slot == 0 {
        v.extend_from_slice(t);
    }
    v.extend_from_slice(b"\n2\n0 0 0");
    if slot == 1 {
        v.push(b' ');
        v.extend_from_slice(t);
    }
    v.push(b'\n');
    if slot == 2 {
        v.extend_from_slice(t);
        v.push(b'\n');
    }
    v.extend_from_slice(b"255 255 255\n");
    v
}

fn palette_hex(slot: usize, t: &[u8]) -> Vec<u8> {
    let mut v = b"000000".to_vec();
    if slot == 0 {
        v.push(b' ');
        v.extend_from_slice(t);
    }
    v.push(b'\n');
    if slot == 1 {
        v.extend_from_slice(t);
        v.push(b'\n');
    }
    v.extend_from_slice(b"ffffff\n");
    if slot == 2 {
        v.extend_from_slice(t);
    }
    v
}

/// 128-byte SAUCE record (Character / ANSi, 80 x 25) with optional comment block; `slot` 0 title, 1 author, 2 group,
/// 3 first comment line, 4 last comment line, 5 font name (TInfoS)
pub fn sauce_trailer(slot: usize, t: &[u8], with_eof: bool) -> Vec<u8> {
    let field = |i: usize, size: usize, d: &'static str, pad: u8| {
        let mut v = if slot == i { t.to_vec() } else { d.as_bytes().to_vec() };
        v.truncate(size);
        v.resize(size, pad);
        v
    };
    let mut out = Vec::new();
    if with_eof {
        out.push(0x1A);
    }
    let comments = if slot == 3 || slot == 4 { 2u8 } else { 0 };
    if comments > 0 {
        out.extend_from_slice(b"COMNT");
        out.extend(field(3, 64, "first line", 0));
        out.extend(field(4, 64, "last line", b' '));
    }
    out.extend_from_slice(b"SAUCE00");
    out.extend(field(0, 35, "title", b' '));
    out.extend(field(1, 20, "author", b' '));
    out.extend(field(2, 20, "group", b' '));
    out.extend_from_slice(b"20240229");
    out.extend(5u32.to_le_bytes());
    out.extend([1u8, 1]);
    out.extend(80u16.to_le_bytes());
    out.extend(25u16.to_le_bytes());
    out.extend([0u8; 4]);
    out.push(comments);
    out.push(0);
    out.extend(field(5, 22, "IBM VGA", 0));
    out
}

fn utf8_record(t: &[u8], rest: &[u8]) -> Vec<u8> {
    let mut v = (t.len() as u32).to_le_bytes().to_vec();
    v.extend_from_slice(t);
    v.extend_from_slice(rest);
    v
}

/// record list of an .icy file: slot 0..=4 PALETTE title / author / description / colour name / free line, 5 second PALETTE
/// record (title), 6..=10 SAUCE record fields, 11 layer title and font name
pub fn icy_chunks(slot: usize, t: &[u8]) -> Vec<Chunk> {
    let rec = |key: &str, data: Vec<u8>| Chunk { key: key.to_string(), data: Bytes(data) };
    let mut v = vec![rec("ICED", vec![0, 0, 0, 0, 0, 0, 1, 0, 1, 1, 1, 80, 0, 0, 0, 25, 0, 0, 0])];
    if (6..=10).contains(&slot) {
        v.push(rec("SAUCE", sauce_trailer(slot - 6, t, true)));
    }
    if slot <= 4 {
        v.push(rec("PALETTE", palette_ice(slot, t)));
    }
    if slot == 5 {
        v.push(rec("PALETTE", palette_ice(9, b"")));
        v.push(rec("PALETTE", palette_ice(0, t)));
    }
    // a font (8x1 PSF2, 256 glyphs) and a 2x1 text layer with one short cell
    let mut psf = vec![0x72, 0xB5, 0x4A, 0x86];
    for x in [0u32, 32, 0, 256, 1, 1, 8] {
        psf.extend(x.to_le_bytes());
    }
    psf.extend([0x55u8; 256]);
    let name: &[u8] = if slot == 11 { t } else { b"font" };
    v.push(rec("FONT_0", utf8_record(name, &psf)));
    let mut layer = vec![0u8, 0, 0, 0, 0, 0, 0, 0, 0, 0];
    layer.extend(1u32.to_le_bytes());
    layer.push(0);
    layer.extend([0u8; 8]);
    layer.extend(2u32.to_le_bytes());
    layer.extend(1u32.to_le_bytes());
    layer.extend(0u16.to_le_bytes());
    layer.extend(8u64.to_le_bytes());
    layer.extend([0x07, 0x40, b'a', 7, 0, 0, 0x00, 0xC0]);
    let title: &[u8] = if slot == 11 { t } else { b"layer" };
    v.push(rec("LAYER_0", utf8_record(title, &layer)));
    v.push(rec("END", vec![]));
    v
}

fn tdf(slot: usize, t: &[u8]) -> Vec<u8> {
    // the synthetic block font written by the engine, its 12-byte name field replaced
    let g = golden::group(golden::G_TDF);
    let mut v = g.get(1).or(g.first()).map(|g| g.bytes.clone()).unwrap_or_default();
    if v.len() >= 37 {
        let mut name = t.to_vec();
        name.truncate(12);
        // slot 0: declared length = text length; slot 1: declared length 12, text NUL-padded
        v[24] = if slot == 0 { name.len() as u8 } else { 12 };
        name.resize(12, 0);
        v[25..37].copy_from_slice(&name);
    }
    v
}

fn ansi(slot: usize, t: &[u8]) -> Vec<u8> {
    let mut v = b"\x1b[1;33mtext ".to_vec();
    match slot {
        0 => v.extend(lines(&[b"\x1b]8;;", t, b"\x1b\\link\x1b]8;;\x1b\\"])),
        1 => v.extend(lines(&[b"\x1b]8;id=", t, b";http://x\x1b\\link\x1b]8;;\x1b\\"])),
        2 => v.extend(lines(&[b"\x1b]0;", t, b"\x07"])),
        3 => v.extend(lines(&[b"\x1b]2;", t, b"\x1b\\"])),
        4 => v.extend(lines(&[b"\x1b]4;1;rgb:", t, b"\x1b\\"])),
        5 => v.extend(lines(&[b"\x1b_", t, b"\x1b\\"])),
        6 => v.extend(lines(&[b"\x1bP", t, b"\x1b\\"])),
        // an OSC 8 link that is still open at the end of the file, the text is what it covers
        _ => v.extend(lines(&[b"\x1b]8;;http://x\x1b\\", t])),
    }
    v.extend_from_slice(b" more\r\n");
    v
}

/// the complete file (for `Format::Icy` use `icy_chunks` + the container writer)
pub fn build(f: Format, c: &TextCase) -> Vec<u8> {
    let n = slots(f);
    let slot = c.slot as usize % n;
    let mut t = text(c);
    if let Some(size) = field_size(f, slot) {
        t.truncate(size + 2);
    }
    let mut v = match f {
        Format::PalIce => palette_ice(slot, &t),
        Format::PalGpl => palette_gpl(slot, &t),
        Format::PalTxt => palette_txt(slot, &t),
        Format::PalPal => palette_pal(slot, &t),
        Format::PalHex => palette_hex(slot, &t),
        Format::Icy => golden::wrap_icy(&icy_chunks(slot, &t)),
        Format::Sauce => {
            let mut v = b"hello".to_vec();
            v.extend(sauce_trailer(slot, &t, true));
            v
        }
        Format::Tdf => tdf(slot, &t),
        Format::Ansi => ansi(slot, &t),
    };
    if c.bom && matches!(f, Format::Ansi) {
        let mut w = vec![0xEF, 0xBB, 0xBF];
        w.append(&mut v);
        v = w;
    }
    v
}
