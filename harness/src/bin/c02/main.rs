//! C02 — no file content can crash a loader.
//!
//! Every case is (target, source, mutations): the target is a file extension handed to `Buffer::from_bytes` or one of the
//! APIs `SauceData::extract`, `BitFont::from_bytes`, `TheDrawFont::from_tdf_bytes`, `Palette::load_palette` /
//! `import_palette`; the source is a golden file written by the engine's own writers (index into a table computed once per
//! process), raw bytes, or the record list of an IcyDraw container; the mutations are (b) truncation, (c) 1-4 byte
//! corruption weighted to header and SAUCE tail, (d) header-field extremes per known field offset, (e) prefix + SAUCE
//! trailer with generated fields and comment counts, (f) random bytes, and mutation *inside* the base64 zTXt records of
//! IcyDraw files (decoded with a standard PNG reader, mutated, re-encoded, re-wrapped in a minimal PNG).
//! The loaders run in worker processes: Ok/Err is accepted, a panic is a violation keyed by its panic signature, an
//! abort / stack overflow kills the worker and is keyed by "ext=<extension or api>". Hangs and heap-cap hits are C03's subject (inconclusive here).
//!
//! Parts: `systematic` (enumerated: every truncation and every field extreme of every golden file), then one generated
//! part per API family: `buffer`, `sauce`, `bitfont`, `tdf`, `palette`.
mod golden;
mod mutate;
mod pairs;
mod textfield;

use golden::*;
use icy_engine::{BitFont, Buffer, Palette, SauceData, TheDrawFont};
use icyv::proptest::collection::vec;
use icyv::proptest::prelude::*;
use icyv::serde_json::json;
use icyv::stream;
use icyv::util::Bytes;
use icyv::{Engine, PartCfg, Verdict};
use mutate::*;
use serde::{Deserialize, Serialize};
use std::path::Path;
use std::sync::OnceLock;
use textfield::{Format, TextCase};

// ------------------------------------------------------------------------------------------------ targets

#[derive(Clone, Copy, PartialEq, Eq, Debug)]
enum Family {
    Buffer,
    Sauce,
    Font,
    Tdf,
    Palette,
}

#[derive(Clone, Copy, PartialEq, Eq, Debug)]
enum Kind {
    /// Buffer::from_bytes("c02.<name>")
    Ext,
    Sauce,
    Font,
    Tdf,
    /// Palette::load_palette(format of the golden group)
    Load,
    /// Palette::import_palette("c02.<ext>")
    Import(&'static str),
}

struct Target {
    /// extension or api name (plus the origin of foreign golden files): the class of aborts is "ext=<name>"
    name: &'static str,
    /// the extension handed to Buffer::from_bytes
    file_ext: &'static str,
    family: Family,
    kind: Kind,
    /// golden group
    group: usize,
    ctx: Ctx,
    /// weight inside its family's generated part
    weight: u32,
    /// terminal-stream grammar used for raw content (text loaders)
    emu: Option<u8>,
    /// length of the magic / fixed header checked first (0: the loader has no such check)
    header: usize,
}

const fn ext(name: &'static str, group: usize, ctx: Ctx, weight: u32, emu: Option<u8>, header: usize) -> Target {
    Target { name, file_ext: name, family: Family::Buffer, kind: Kind::Ext, group, ctx, weight, emu, header }
}
const fn api(name: &'static str, family: Family, kind: Kind, group: usize, ctx: Ctx, weight: u32, header: usize) -> Target {
    Target { name, file_ext: "", family, kind, group, ctx, weight, emu: None, header }
}

const EMU_ANSI: u8 = 0;
const EMU_AVATAR: u8 = 5;
const EMU_PCB: u8 = 6;
const EMU_CTRLA: u8 = 7;
const EMU_RENEGADE: u8 = 8;
const EMU_ASCII: u8 = 13;

static TARGETS: [Target; 45] = [
    ext("ans", G_ANS, Ctx::None, 12, Some(EMU_ANSI), 0),
    ext("ice", G_ANS, Ctx::None, 3, Some(EMU_ANSI), 0),
    ext("diz", G_ANS, Ctx::None, 3, Some(EMU_ANSI), 0),
    ext("icy", G_ICY, Ctx::None, 40, None, 33),
    ext("idf", G_IDF, Ctx::Idf, 20, None, 12),
    ext("bin", G_BIN, Ctx::None, 8, None, 0),
    ext("xb", G_XB, Ctx::Xb, 28, None, 11),
    ext("tnd", G_TND, Ctx::Tnd, 24, None, 9),
    ext("pcb", G_PCB, Ctx::None, 8, Some(EMU_PCB), 0),
    ext("avt", G_AVT, Ctx::None, 8, Some(EMU_AVATAR), 0),
    ext("asc", G_ASC, Ctx::None, 4, Some(EMU_ASCII), 0),
    ext("adf", G_ADF, Ctx::Adf, 16, None, 1),
    ext("msg", G_MSG, Ctx::None, 8, Some(EMU_CTRLA), 0),
    ext("an1", G_AN1, Ctx::None, 6, Some(EMU_RENEGADE), 0),
    ext("an2", G_AN1, Ctx::None, 1, Some(EMU_RENEGADE), 0),
    ext("an3", G_AN1, Ctx::None, 1, Some(EMU_RENEGADE), 0),
    ext("an4", G_AN1, Ctx::None, 1, Some(EMU_RENEGADE), 0),
    ext("an5", G_AN1, Ctx::None, 1, Some(EMU_RENEGADE), 0),
    ext("an6", G_AN1, Ctx::None, 1, Some(EMU_RENEGADE), 0),
    ext("an7", G_AN1, Ctx::None, 1, Some(EMU_RENEGADE), 0),
    ext("an8", G_AN1, Ctx::None, 1, Some(EMU_RENEGADE), 0),
    ext("an9", G_AN1, Ctx::None, 1, Some(EMU_RENEGADE), 0),
    ext("seq", G_SEQ, Ctx::None, 10, Some(stream::EMU_PETSCII), 0),
    ext("ata", G_ATA, Ctx::None, 10, Some(stream::EMU_ATASCII), 0),
    // an extension no format claims: falls back to the ANSI loader
    ext("xyz", G_ANS, Ctx::None, 4, Some(EMU_ANSI), 0),
    // extensions are matched case-insensitively
    ext("XB", G_XB, Ctx::Xb, 3, None, 11),
    ext("Icy", G_ICY, Ctx::None, 3, None, 33),
    ext("TND", G_TND, Ctx::Tnd, 2, None, 9),
    // binary loaders behind a foreign extension's golden files: xb file loaded as .tnd etc. is covered by raw bytes; here the
    // reverse: text golden files under binary extensions
    Target { file_ext: "adf", ..ext("adf<-ans", G_ANS, Ctx::None, 1, None, 1) },
    Target { file_ext: "idf", ..ext("idf<-xb", G_XB, Ctx::Idf, 1, None, 12) },
    Target { file_ext: "xb", ..ext("xb<-idf", G_IDF, Ctx::Xb, 1, None, 11) },
    Target { file_ext: "icy", ..ext("icy<-xb", G_XB, Ctx::None, 1, None, 33) },
    api("sauce", Family::Sauce, Kind::Sauce, G_SAUCE, Ctx::None, 1, 0),
    api("bitfont", Family::Font, Kind::Font, G_FONT, Ctx::Psf, 1, 4),
    api("tdf", Family::Tdf, Kind::Tdf, G_TDF, Ctx::Tdf, 1, 20),
    api("palette.ice", Family::Palette, Kind::Load, G_PAL_ICE, Ctx::None, 3, 12),
    api("palette.hex", Family::Palette, Kind::Load, G_PAL_HEX, Ctx::None, 2, 0),
    api("palette.pal", Family::Palette, Kind::Load, G_PAL_PAL, Ctx::None, 3, 9),
    api("palette.gpl", Family::Palette, Kind::Load, G_PAL_GPL, Ctx::None, 3, 13),
    api("palette.txt", Family::Palette, Kind::Load, G_PAL_TXT, Ctx::None, 3, 0),
    api("import.pal", Family::Palette, Kind::Import("pal"), G_PAL_PAL, Ctx::None, 1, 9),
    api("import.gpl", Family::Palette, Kind::Import("GPL"), G_PAL_GPL, Ctx::None, 1, 13),
    api("import.txt", Family::Palette, Kind::Import("txt"), G_PAL_TXT, Ctx::None, 1, 0),
    api("import.hex", Family::Palette, Kind::Import("hex"), G_PAL_HEX, Ctx::None, 1, 0),
    api("import.unknown", Family::Palette, Kind::Import("ase"), G_PAL_ICE, Ctx::None, 1, 0),
];

// ------------------------------------------------------------------------------------------------ cases

#[derive(Clone, Debug, Hash, Serialize, Deserialize, PartialEq)]
enum Src {
    /// index into the golden table of the target's group
    Golden(u16),
    Raw(Bytes),
    /// records of an IcyDraw container (wrapped into a minimal PNG)
    Chunks(Vec<Chunk>),
    /// a valid file of the target's format generated around a text field (see textfield.rs)
    Text(TextCase),
}

#[derive(Clone, Debug, Hash, Serialize, Deserialize)]
struct Case {
    target: u8,
    src: Src,
    /// operations on the record list of an IcyDraw golden file / record list, applied before wrapping
    inner: Vec<Inner>,
    /// mutations of the byte string, in order
    muts: Vec<Mut>,
}

fn target(c: &Case) -> &'static Target {
    &TARGETS[(c.target as usize).min(TARGETS.len() - 1)]
}

/// the text-carrying formats a target decodes, in slot order
fn text_formats(t: &Target) -> Vec<Format> {
    match t.kind {
        Kind::Sauce => vec![Format::Sauce],
        Kind::Tdf => vec![Format::Tdf],
        Kind::Font => vec![],
        Kind::Load | Kind::Import(_) => vec![match t.group {
            G_PAL_ICE => Format::PalIce,
            G_PAL_HEX => Format::PalHex,
            G_PAL_PAL => Format::PalPal,
            G_PAL_GPL => Format::PalGpl,
            _ => Format::PalTxt,
        }],
        Kind::Ext if t.group == G_ICY => vec![Format::Icy],
        // parsers that take ANSI control strings (the Avatar, PCBoard, Ctrl-A and Renegade parsers fall back to the ANSI parser)
        Kind::Ext if matches!(t.emu, Some(EMU_ANSI | EMU_AVATAR | EMU_PCB | EMU_CTRLA | EMU_RENEGADE)) => vec![Format::Ansi, Format::Sauce],
        Kind::Ext => vec![Format::Sauce],
    }
}

/// (format, slot inside the format) of a text case for this target
fn text_slot(t: &Target, c: &TextCase) -> Option<(Format, usize)> {
    let fs = text_formats(t);
    let total: usize = fs.iter().map(|f| textfield::slots(*f)).sum();
    if total == 0 {
        return None;
    }
    let mut s = c.slot as usize % total;
    for f in fs {
        if s < textfield::slots(f) {
            return Some((f, s));
        }
        s -= textfield::slots(f);
    }
    None
}

fn golden_of(t: &Target, idx: u16) -> Option<(usize, &'static Golden)> {
    let g = group(t.group);
    if g.is_empty() {
        None
    } else {
        let i = idx as usize % g.len();
        Some((i, &g[i]))
    }
}

/// the record list the inner operations work on (None: the case has no container level)
fn chunks_of(c: &Case) -> Option<Vec<Chunk>> {
    let t = target(c);
    let mut ch = match &c.src {
        Src::Chunks(v) => v.clone(),
        Src::Golden(idx) if t.group == G_ICY && !c.inner.is_empty() => icy_chunks(golden_of(t, *idx)?.0).to_vec(),
        _ => return None,
    };
    for op in &c.inner {
        apply_inner(op, &mut ch);
    }
    Some(ch)
}

fn materialise(c: &Case) -> Vec<u8> {
    let t = target(c);
    let mut bytes = match chunks_of(c) {
        Some(ch) => wrap_icy(&ch),
        None => match &c.src {
            Src::Golden(idx) => golden_of(t, *idx).map(|g| g.1.bytes.clone()).unwrap_or_default(),
            Src::Raw(b) => b.0.clone(),
            Src::Chunks(_) => unreachable!(),
            Src::Text(tc) => match text_slot(t, tc) {
                Some((f, slot)) => textfield::build(f, &TextCase { slot: slot as u8, ..tc.clone() }),
                None => Vec::new(),
            },
        },
    };
    for m in &c.muts {
        apply(m, &mut bytes, t.ctx);
    }
    bytes
}

// ------------------------------------------------------------------------------------------------ running a loader

/// The file name as a dimension of Buffer::from_bytes: `{e}` is the target's extension as listed, `{E}` upper case, `{M}` mixed
/// case. 0 is the default. Names without extension, without stem, with a directory part that carries the extension, with a
/// trailing dot, non-ASCII and (index 255) non-UTF-8 extensions fall through to the ANSI loader or select by the LAST extension.
const FILE_NAMES: [&str; 24] = [
    "c02.{e}",
    "c02.{E}",
    "c02.{M}",
    "README",
    ".{e}",
    "pic.{e}.bak",
    "pic.bak.{e}",
    "dir.xb/pic.{e}",
    "dir.{e}/README",
    "pic.\u{e4}n\u{15b}",
    "",
    "pic.nfo",
    "pic.txt",
    "pic.x",
    "pic.",
    "..",
    "pic.{e} ",
    "c02.{e}/",
    "/",
    "pic.{e}.",
    " .{e}",
    "pic.{e}\u{e9}",
    "\u{1F600}.{e}",
    "a/b.c/d.{M}",
];

fn file_name_of(c: &Case) -> u8 {
    c.muts.iter().rev().find_map(|m| if let Mut::FileName(i) = m { Some(*i) } else { None }).unwrap_or(0)
}

fn path_of(t: &Target, fname: u8) -> std::path::PathBuf {
    if fname == 255 {
        // an extension that is not UTF-8
        use std::os::unix::ffi::OsStrExt;
        let mut b = b"pic.".to_vec();
        b.extend_from_slice(&[0xFF, 0xFE, b'a']);
        return std::path::PathBuf::from(std::ffi::OsStr::from_bytes(&b));
    }
    let e = t.file_ext;
    let mixed: String = e.chars().enumerate().map(|(i, ch)| if i % 2 == 0 { ch.to_ascii_uppercase() } else { ch.to_ascii_lowercase() }).collect();
    let name = FILE_NAMES[fname as usize % FILE_NAMES.len()].replace("{e}", e).replace("{E}", &e.to_ascii_uppercase()).replace("{M}", &mixed);
    std::path::PathBuf::from(name)
}

struct Outcome {
    /// None = Ok(..)
    err: Option<String>,
    /// Ok value carries something (layers of a buffer, Some(sauce), colours, fonts)
    substantial: bool,
}

fn run(t: &Target, bytes: &[u8], fname: u8) -> Outcome {
    fn of<T>(r: Result<T, impl std::fmt::Display>, substantial: impl FnOnce(&T) -> bool) -> Outcome {
        match r {
            Ok(v) => Outcome { err: None, substantial: substantial(&v) },
            Err(e) => Outcome { err: Some(e.to_string()), substantial: false },
        }
    }
    match t.kind {
        Kind::Ext => of(Buffer::from_bytes(&path_of(t, fname), true, bytes), |b| !b.layers.is_empty()),
        Kind::Sauce => of(SauceData::extract(bytes), |s| s.is_some()),
        Kind::Font => of(BitFont::from_bytes("c02", bytes), |_| true),
        Kind::Tdf => of(TheDrawFont::from_tdf_bytes(bytes), |v| !v.is_empty()),
        Kind::Load => of(Palette::load_palette(&palette_format(t.group), bytes), |p| !p.is_empty()),
        Kind::Import(e) => of(Palette::import_palette(Path::new(&format!("c02.{e}")), bytes), |p| !p.is_empty()),
    }
}

fn strip_digits(s: &str) -> String {
    let mut out = String::new();
    let mut last = false;
    for ch in s.chars() {
        if ch.is_ascii_digit() {
            if !last {
                out.push('#');
            }
            last = true;
        } else {
            out.push(ch);
            last = false;
        }
    }
    out
}

/// errors raised by the magic / minimum-length checks in front of a loader
fn early_error(t: &Target, e: &str) -> bool {
    let e = e.to_ascii_lowercase();
    match t.family {
        Family::Buffer => {
            e.contains("file too short") || e.contains("id mismatch") || e.contains("unsupported adf version") || e.contains("error decoding png") || e.contains("file length needs to be even")
        }
        Family::Sauce => e.contains("unsupported version"),
        Family::Font => false,
        Family::Tdf => e.contains("file too short") || e.contains("id mismatch") || e.contains("id length mismatch"),
        Family::Palette => e.contains("only ") || e.contains("invalid input") || e.contains("unsupported file extension"),
    }
}

/// Did the loader get past its magic / length check?
fn nontrivial(t: &Target, bytes: &[u8], out: &Outcome, fname: u8) -> (bool, &'static str) {
    match &out.err {
        None => {
            let nt = match t.family {
                // a truncated PNG loads as an empty document without layers: only a document with layers went through a record parser
                Family::Buffer if t.header == 33 => out.substantial,
                Family::Buffer => !bytes.is_empty(),
                Family::Sauce => out.substantial,
                Family::Font | Family::Tdf => true,
                Family::Palette => out.substantial,
            };
            (nt, if nt { "ok" } else { "ok_empty" })
        }
        Some(e) => {
            if early_error(t, e) {
                return (false, "err_early");
            }
            if t.family == Family::Font {
                // the PSF2 field checks sit behind magic + 32-byte minimum length; raw fonts only have the length % 256 check
                let deep = bytes.len() >= 32 && bytes[..4] == [0x72, 0xB5, 0x4A, 0x86];
                return (deep, if deep { "err_deep" } else { "err_early" });
            }
            // compare with the result for the header alone: the same error means the rest of the file was never looked at
            if t.header > 0 {
                let head = &bytes[..t.header.min(bytes.len())];
                if let Ok(h) = icyv::panics::guarded(|| run(t, head, fname)) {
                    if h.err.as_deref().map(strip_digits) == Some(strip_digits(e)) {
                        return (false, "err_early");
                    }
                }
            }
            (true, "err_deep")
        }
    }
}

/// The engine's panic signature with the part of a std message that quotes the *input* removed ("byte index 256 is not a
/// char boundary; it is inside 'x' (bytes ..) of `<the text>`"): the key must not depend on the content of the file.
fn stable_key(sig: &str) -> String {
    let mut parts: Vec<String> = sig.split('|').map(str::to_string).collect();
    if parts.len() >= 5 {
        let m = &mut parts[3];
        for pat in ["; it is inside", " of `", " when slicing `"] {
            if let Some(i) = m.find(pat) {
                m.truncate(i);
            }
        }
    }
    parts.join("|")
}

fn check(c: &Case) -> Verdict {
    let t = target(c);
    let bytes = materialise(c);
    // ICYV_C02_DUMP=<file> (debugging aid for replays): write the materialised input and describe it on stderr
    if let Ok(path) = std::env::var("ICYV_C02_DUMP") {
        let _ = std::fs::write(&path, &bytes);
        let mut d = format!("target {} ({} bytes)\n", t.name, bytes.len());
        if let Src::Golden(i) = &c.src {
            if let Some((_, g)) = golden_of(t, *i) {
                d.push_str(&format!("golden {}\n", g.tag));
            }
        }
        if let Some(ch) = chunks_of(c) {
            for x in &ch {
                d.push_str(&format!("record {:?} ({} bytes) {}\n", x.key, x.data.len(), icyv::util::escape(&x.data[..x.data.len().min(80)])));
            }
        }
        let _ = std::fs::write(format!("{path}.txt"), d);
    }
    // Ok(_) and Err(_) are both fine; a panic is a violation keyed by its panic signature, an abort kills the worker
    let fname = file_name_of(c);
    let out = match icyv::panics::guarded(|| run(t, &bytes, fname)) {
        Ok(o) => o,
        Err((sig, msg)) => return Verdict::fail(stable_key(&sig), format!("{} [{} bytes as {}, file name {:?}]", msg.chars().take(300).collect::<String>(), bytes.len(), t.name, path_of(t, fname))),
    };
    let (nt, class) = nontrivial(t, &bytes, &out, fname);
    // an2..an9 are one alias list of the Renegade loader: one histogram row
    let label = if t.name.len() == 3 && t.name.starts_with("an") && t.name != "an1" && t.name != "ans" { "an2-9" } else { t.name };
    Verdict::pass(nt, format!("{label}:{class}"))
}

/// input class of an abort / heap-cap hit: the extension (lower case, as the dispatcher sees it) or the api
fn classify(c: &Case) -> String {
    let t = target(c);
    if t.kind == Kind::Ext {
        format!("ext={}", t.file_ext.to_ascii_lowercase())
    } else {
        format!("ext={}", t.name)
    }
}

// ------------------------------------------------------------------------------------------------ minimiser

fn minimize(c: &Case) -> Vec<Case> {
    let t = target(c);
    let mut out = Vec::new();
    // fewer operations first
    for i in 0..c.muts.len() {
        let mut d = c.clone();
        d.muts.remove(i);
        out.push(d);
    }
    for i in 0..c.inner.len() {
        let mut d = c.clone();
        d.inner.remove(i);
        out.push(d);
    }
    if let Src::Golden(g) = &c.src {
        if *g != 0 {
            out.push(Case { src: Src::Golden(0), ..c.clone() });
            out.push(Case { src: Src::Golden(*g / 2), ..c.clone() });
        }
    }
    if let Src::Text(tc) = &c.src {
        for len in [tc.len / 2, tc.len.saturating_sub(1), tc.len.saturating_sub(4)] {
            if len != tc.len {
                out.push(Case { src: Src::Text(TextCase { len, ..tc.clone() }), ..c.clone() });
            }
        }
        if tc.align != 0 {
            out.push(Case { src: Src::Text(TextCase { align: 0, ..tc.clone() }), ..c.clone() });
        }
        if tc.bom {
            out.push(Case { src: Src::Text(TextCase { bom: false, ..tc.clone() }), ..c.clone() });
        }
        if tc.alpha != 0 {
            out.push(Case { src: Src::Text(TextCase { alpha: 0, ..tc.clone() }), ..c.clone() });
        }
        // the record list of a generated .icy file, once its text is short
        if let Some((Format::Icy, slot)) = text_slot(t, tc) {
            if tc.len <= 600 && c.muts.is_empty() {
                out.push(Case { src: Src::Chunks(textfield::icy_chunks(slot, &textfield::text(tc))), ..c.clone() });
            }
        }
    }
    // then self-contained forms: a record list for IcyDraw containers, raw bytes otherwise (only when short enough to read)
    match &c.src {
        Src::Chunks(v) if c.inner.is_empty() => {
            for i in 0..v.len() {
                let mut w = v.clone();
                w.remove(i);
                out.push(Case { src: Src::Chunks(w), ..c.clone() });
            }
            for i in 0..v.len() {
                for cand in icyv::util::bytes_candidates(&v[i].data).into_iter().take(120) {
                    let mut w = v.clone();
                    w[i].data = Bytes(cand);
                    out.push(Case { src: Src::Chunks(w), ..c.clone() });
                }
            }
        }
        Src::Raw(b) if c.muts.iter().all(|m| matches!(m, Mut::FileName(_))) => {
            out.extend(icyv::util::bytes_candidates(b).into_iter().map(|d| Case { src: Src::Raw(Bytes(d)), ..c.clone() }));
        }
        _ => {
            if !c.inner.is_empty() || matches!(c.src, Src::Chunks(_)) {
                if let Some(ch) = chunks_of(c) {
                    if ch.iter().map(|x| x.data.len()).sum::<usize>() <= 6000 {
                        out.push(Case { src: Src::Chunks(ch), inner: vec![], ..c.clone() });
                    }
                }
            } else {
                let bytes = materialise(c);
                if bytes.len() <= 1200 && t.group != G_ICY {
                    let name: Vec<Mut> = c.muts.iter().filter(|m| matches!(m, Mut::FileName(_))).cloned().collect();
                    out.push(Case { src: Src::Raw(Bytes(bytes)), inner: vec![], muts: name, ..c.clone() });
                }
            }
        }
    }
    out
}

// ------------------------------------------------------------------------------------------------ generators

fn utf8_of(bytes: &[u8]) -> Vec<u8> {
    let mut s = String::from("\u{FEFF}");
    for (i, b) in bytes.iter().enumerate() {
        s.push(*b as char);
        // a few characters above U+00FF, which CP437 content cannot contain
        if *b == b'u' && i % 3 == 0 {
            s.push(['\u{2588}', '\u{0100}', '\u{FFFD}', '\u{1F600}', '\u{D7FF}', '\u{E000}'][i % 6]);
        }
    }
    s.into_bytes()
}

/// sixel decodes cost >= 50 ms per file (parse_with_parser polls the decode threads every 50 ms): keep them to a fraction of the cases
fn defuse_sixel(b: &mut [u8]) {
    let mut i = 0;
    while i + 1 < b.len() {
        if b[i] == 0x1B && b[i + 1] == b'P' {
            let mut j = i + 2;
            while j < b.len() && (b[j].is_ascii_digit() || b[j] == b';') {
                j += 1;
            }
            if j < b.len() && b[j] == b'q' {
                b[j] = b'Q';
            }
            i = j;
        } else {
            i += 1;
        }
    }
}

fn tundra_stream() -> BoxedStrategy<Vec<u8>> {
    let cmd = prop_oneof![
        4 => vec(any::<u8>(), 1..=4),
        2 => (prop::sample::select(vec![0u32, 1, 79, 80, 0xFFFE, 0xFFFF, 0x7FFF_FFFF, 0xFFFF_FFFF]), prop::sample::select(vec![0u32, 1, 79, 80, 0xFFFF_FFFF])).prop_map(|(y, x)| {
            let mut v = vec![1u8];
            v.extend(y.to_be_bytes());
            v.extend(x.to_be_bytes());
            v
        }),
        4 => (prop::sample::select(vec![2u8, 4, 6]), vec(any::<u8>(), 9)).prop_map(|(c, d)| {
            let mut v = vec![c];
            v.extend(&d[..if c == 6 { 9 } else { 5 }]);
            v
        }),
    ];
    (vec(cmd, 0..=12), 0usize..=9).prop_map(|(cmds, chop)| {
        let mut v = vec![24u8];
        v.extend_from_slice(b"TUNDRA24");
        v.extend(cmds.concat());
        let n = v.len().saturating_sub(chop).max(9);
        v.truncate(n);
        v
    })
    .boxed()
}

fn xbin_stream() -> BoxedStrategy<Vec<u8>> {
    let dim = || prop::sample::select(vec![0u16, 1, 2, 80, 160, 4096, 4097, 0xFFFF]);
    (dim(), dim(), prop::sample::select(vec![0u8, 1, 8, 16, 32, 33, 255]), 0u8..=31, vec(any::<u8>(), 0..=160), vec(byte_val(), 0..=24))
        .prop_map(|(w, h, fs, flags, body, tail)| {
            let mut v = b"XBIN\x1a".to_vec();
            v.extend(w.to_le_bytes());
            v.extend(h.to_le_bytes());
            v.push(fs);
            v.push(flags);
            v.extend(body);
            v.extend(tail);
            v
        })
        .boxed()
}

fn psf_stream() -> BoxedStrategy<Vec<u8>> {
    let w32 = || prop::sample::select(vec![0u32, 1, 8, 16, 32, 255, 256, 512, 0xFFFF, 0x7FFF_FFFF, 0x8000_0000, 0xFFFF_FFFF]);
    prop_oneof![
        (any::<u8>(), any::<u8>(), vec(any::<u8>(), 0..=600)).prop_map(|(mode, cs, d)| {
            let mut v = vec![0x36, 0x04, mode, cs];
            v.extend(d);
            v
        }),
        (vec(w32(), 7), vec(any::<u8>(), 0..=600)).prop_map(|(f, d)| {
            let mut v = vec![0x72, 0xB5, 0x4A, 0x86];
            for x in f {
                v.extend(x.to_le_bytes());
            }
            v.extend(d);
            v
        }),
        (0usize..=8, any::<u8>()).prop_map(|(n, b)| vec![b; n * 256]),
    ]
    .boxed()
}

fn tdf_stream() -> BoxedStrategy<Vec<u8>> {
    (0u8..=3, 0u8..=14, 0u8..=41, any::<u16>(), vec(prop_oneof![Just(0xFFFFu16), 0u16..=300, any::<u16>()], 94), vec(byte_val(), 0..=200), 0usize..=40)
        .prop_map(|(ty, nl, sp, bs, table, data, chop)| {
            let mut v = vec![19u8];
            v.extend_from_slice(b"TheDraw FONTS file\x1a");
            v.extend([0x55, 0xAA, 0x00, 0xFF, nl]);
            v.extend_from_slice(b"FONTNAME\0\0\0\0");
            v.extend([0, 0, 0, 0, ty, sp]);
            v.extend(bs.to_le_bytes());
            for t in table {
                v.extend(t.to_le_bytes());
            }
            v.extend(data);
            let n = v.len().saturating_sub(chop);
            v.truncate(n);
            v
        })
        .boxed()
}

fn palette_text(g: usize) -> BoxedStrategy<Vec<u8>> {
    let head: &'static str = match g {
        G_PAL_ICE => "ICE Palette\n",
        G_PAL_PAL => "JASC-PAL\n0100\n3\n",
        G_PAL_GPL => "GIMP Palette\n",
        G_PAL_TXT => ";paint.net Palette File\n",
        _ => "",
    };
    let line = prop_oneof![
        "[0-9a-fA-F]{0,9}",
        "[0-9]{1,12} [0-9]{1,12} [0-9]{1,4}( .{0,6})?",
        "[#;](Name|Palette Name|Author|Description|Colors): ?.{0,8}",
        ".{0,12}",
        "[ \t]*[0-9]{1,3}[ \t]+[0-9]{1,3}[ \t]+[0-9]{1,3}[ \t]*.{0,5}",
    ];
    (vec(line, 0..=8), any::<bool>(), prop::option::of(vec(any::<u8>(), 1..=4))).prop_map(move |(lines, crlf, junk)| {
        let mut s = head.to_string();
        for l in lines {
            s.push_str(&l);
            s.push_str(if crlf { "\r\n" } else { "\n" });
        }
        let mut v = s.into_bytes();
        v.extend(junk.unwrap_or_default());
        v
    })
    .boxed()
}

fn target_cases(ti: usize) -> BoxedStrategy<Case> {
    let t = &TARGETS[ti];
    let target = ti as u8;
    let n = group(t.group).len();
    let raw = move |b: Vec<u8>, muts: Vec<Mut>| Case { target, src: Src::Raw(Bytes(b)), inner: vec![], muts };
    let with_sauce = || prop::option::weighted(0.3, sauce_rec()).prop_map(|s| s.map(Mut::Sauce).into_iter().collect::<Vec<Mut>>());
    let mut opts: Vec<(u32, BoxedStrategy<Case>)> = Vec::new();
    if n > 0 {
        // (a)-(e) on golden files
        opts.push((12, (0..n as u16, muts()).prop_map(move |(g, muts)| Case { target, src: Src::Golden(g), inner: vec![], muts }).boxed()));
    }
    if !text_formats(t).is_empty() {
        // a valid file generated around a text field: length x alphabet x alignment in every text-carrying position
        let len = prop_oneof![
            6 => prop::sample::select(textfield::LENGTHS[..11].to_vec()),
            3 => 0u32..=300,
            3 => 120u32..=135,
            4 => 248u32..=264,
            1 => 1000u32..=1100,
            1 => Just(70000u32),
        ];
        opts.push((
            3,
            (any::<u8>(), len, 0u8..textfield::ALPHABETS, 0u8..4, prop::bool::weighted(0.3), prop::option::weighted(0.1, set()))
                .prop_map(move |(slot, len, alpha, align, bom, m)| Case { target, src: Src::Text(TextCase { slot, len, alpha, align, bom }), inner: vec![], muts: m.into_iter().collect() })
                .boxed(),
        ));
    }
    // (f) random bytes, optionally in front of a SAUCE trailer (e)
    opts.push((2, (vec(any::<u8>(), 0..=512), with_sauce()).prop_map(move |(b, m)| raw(b, m)).boxed()));
    if let Some(emu) = t.emu {
        // content from the terminal-stream grammar of the loader's parser, as CP437 or as UTF-8 with BOM
        opts.push((
            8,
            (stream::tokens(emu, false, 24), prop::bool::weighted(0.15), prop::bool::weighted(0.1), with_sauce())
                .prop_map(move |(toks, bom, keep_sixel, m)| {
                    // numeric parameters capped at 999: rows allocated per cursor-movement number are C03's subject (memory bounded by numbers in the input)
                    let mut b = stream::render(&toks, 80, 25, 999);
                    if !keep_sixel {
                        defuse_sixel(&mut b);
                    }
                    raw(if bom { utf8_of(&b) } else { b }, m)
                })
                .boxed(),
        ));
    }
    match t.ctx {
        Ctx::Tnd => opts.push((6, (tundra_stream(), with_sauce()).prop_map(move |(b, m)| raw(b, m)).boxed())),
        Ctx::Xb => opts.push((6, (xbin_stream(), with_sauce()).prop_map(move |(b, m)| raw(b, m)).boxed())),
        Ctx::Psf => opts.push((6, psf_stream().prop_map(move |b| raw(b, vec![])).boxed())),
        Ctx::Tdf => opts.push((6, tdf_stream().prop_map(move |b| raw(b, vec![])).boxed())),
        _ => {}
    }
    if t.family == Family::Palette {
        opts.push((8, (palette_text(t.group), prop::option::weighted(0.3, prop_oneof![set(), text_number()])).prop_map(move |(b, m)| raw(b, m.into_iter().collect())).boxed()));
        if n > 0 {
            // numbers of a golden text at extreme magnitudes, header lines with such numbers
            opts.push((10, (0..n as u16, vec(text_number(), 1..=3)).prop_map(move |(g, muts)| Case { target, src: Src::Golden(g), inner: vec![], muts }).boxed()));
        }
    }
    if t.group == G_ICY {
        // hand-written record lists: one or two layers of either role with extreme sizes / picture headers, continuation records
        // no sizes between 2^16 and 2^31: they allocate (and fill) hundreds of megabytes per row before the heap cap ends the case
        let dim = || prop_oneof![6 => prop::sample::select(vec![0u32, 0xFFFF_FFFF, 1]), 1 => Just(0x7FFF_FFFFu32), 5 => 2u32..=12, 1 => prop::sample::select(vec![0x8000_0000u32, 0xFFFF, 0x1_0000])];
        let layer = (0u8..=1, dim(), dim(), [dim(), dim(), dim(), dim()], prop_oneof![Just(vec![]), Just(SOME_CELLS.to_vec()), vec(any::<u8>(), 0..=20)])
            .prop_map(|(role, w, h, pic, payload)| layer_record(role, w, h, if role == 1 { Some(pic) } else { None }, &payload));
        opts.push((
            8,
            (vec(layer, 1..=2), vec((0u8..=2, 1u8..=2, continuation_payload()), 0..=2))
                .prop_map(move |(layers, conts)| {
                    let mut v = vec![Chunk { key: "ICED".into(), data: Bytes(vec![0, 0, 0, 0, 0, 0, 1, 0, 1, 1, 1, 80, 0, 0, 0, 25, 0, 0, 0]) }];
                    v.extend(layers.into_iter().enumerate().map(|(i, d)| Chunk { key: format!("LAYER_{i}"), data: Bytes(d) }));
                    v.extend(conts.into_iter().map(|(l, k, d)| Chunk { key: format!("LAYER_{l}~{k}"), data: Bytes(d) }));
                    v.push(Chunk { key: "END".into(), data: Bytes(vec![]) });
                    Case { target, src: Src::Chunks(v), inner: vec![], muts: vec![] }
                })
                .boxed(),
        ));
    }
    if t.group == G_ICY && n > 0 {
        // mutation inside the zTXt records; sometimes followed by a mutation of the container
        opts.push((
            24,
            (0..n as u16, vec(inner(), 1..=3), prop::option::weighted(0.15, prop_oneof![set(), trunc()]))
                .prop_map(move |(g, inner, m)| Case { target, src: Src::Golden(g), inner, muts: m.into_iter().collect() })
                .boxed(),
        ));
    }
    let all = proptest::strategy::Union::new_weighted(opts);
    // ANSI-family files: a sixel somewhere after (or inside) the mutated region; every such file costs >= 50 ms, hence the small share
    let ansi_family = t.kind == Kind::Ext && matches!(t.emu, Some(EMU_ANSI | EMU_AVATAR | EMU_PCB | EMU_CTRLA | EMU_RENEGADE));
    let all = if ansi_family {
        let share = if THOROUGH.load(std::sync::atomic::Ordering::Relaxed) { 0.08 } else { 0.02 };
        (all, prop::option::weighted(share, prop_oneof![3 => Just(u16::MAX), 1 => any::<u16>()]))
            .prop_map(|(mut c, sixel)| {
                if let Some(sel) = sixel {
                    c.muts.push(Mut::Sixel { sel });
                }
                c
            })
            .boxed()
    } else {
        all.boxed()
    };
    if t.kind == Kind::Ext {
        // the file name is a dimension of Buffer::from_bytes: one case in eight is loaded under another spelling
        (all, prop::option::weighted(0.125, prop_oneof![8 => 1u8..FILE_NAMES.len() as u8, 1 => Just(255u8)]))
            .prop_map(|(mut c, name)| {
                if let Some(i) = name {
                    c.muts.push(Mut::FileName(i));
                }
                c
            })
            .boxed()
    } else {
        all.boxed()
    }
}

static THOROUGH: std::sync::atomic::AtomicBool = std::sync::atomic::AtomicBool::new(false);

fn family_cases(f: Family) -> BoxedStrategy<Case> {
    let opts: Vec<(u32, BoxedStrategy<Case>)> = TARGETS.iter().enumerate().filter(|(_, t)| t.family == f).map(|(i, t)| (t.weight, target_cases(i))).collect();
    proptest::strategy::Union::new_weighted(opts).boxed()
}

// ------------------------------------------------------------------------------------------------ enumerated part

/// every truncation (all lengths below 4 KiB; above: the first 1024, the last 700 and 1024 evenly spaced lengths) and every
/// known-field extreme of every golden file, for one representative extension per loader and for every API
fn systematic(thorough: bool) -> Vec<Case> {
    let mut out = Vec::new();
    // the file-name table: every spelling x every extension target x {golden file, short text, empty file}
    for (ti, t) in TARGETS.iter().enumerate() {
        if t.kind != Kind::Ext {
            continue;
        }
        for name in (1..FILE_NAMES.len() as u8).chain([255u8]) {
            let m = vec![Mut::FileName(name)];
            if !group(t.group).is_empty() {
                out.push(Case { target: ti as u8, src: Src::Golden(0), inner: vec![], muts: m.clone() });
            }
            out.push(Case { target: ti as u8, src: Src::Raw(Bytes(b"hello \x1b[1;31mworld\r\n".to_vec())), inner: vec![], muts: m.clone() });
            out.push(Case { target: ti as u8, src: Src::Raw(Bytes(vec![])), inner: vec![], muts: m });
        }
    }
    // ICYV_C02_SKIP=pairs,csi (debugging aid): leave tables out to time the rest
    let skip = std::env::var("ICYV_C02_SKIP").unwrap_or_default();
    if !skip.contains("pairs") {
        pairs::pair_cases(thorough, &mut out);
    }
    if !skip.contains("csi") {
        pairs::csi_cases(thorough, &mut out);
    }
    let mut seen_groups = Vec::new();
    for (ti, t) in TARGETS.iter().enumerate() {
        let representative = match t.kind {
            Kind::Ext => !seen_groups.contains(&t.group),
            Kind::Import(_) => false,
            _ => true,
        };
        if !representative {
            continue;
        }
        seen_groups.push(t.group);
        if t.kind == Kind::Ext {
            // every file of one byte; every file of two bytes for the loaders that feed raw bytes to a byte-coded parser
            for b in 0..=255u8 {
                out.push(Case { target: ti as u8, src: Src::Raw(Bytes(vec![b])), inner: vec![], muts: vec![] });
            }
            if t.emu == Some(stream::EMU_PETSCII) || t.emu == Some(stream::EMU_ATASCII) {
                for a in 0..=255u8 {
                    for b in 0..=255u8 {
                        out.push(Case { target: ti as u8, src: Src::Raw(Bytes(vec![a, b])), inner: vec![], muts: vec![] });
                    }
                }
            }
        }
        if t.group == G_ICY {
            icy_layer_cases(ti, &mut out);
            icy_combo_cases(ti, &mut out);
        }
        text_field_cases(ti, thorough, &mut out);
        let g = group(t.group);
        for (gi, gold) in g.iter().enumerate() {
            let len = gold.bytes.len();
            let mut lens: Vec<usize> = if len <= 4096 {
                (0..=len).collect()
            } else {
                let mut v: Vec<usize> = (0..1024).collect();
                v.extend((0..1024).map(|i| 1024 + i * (len - 1024 - 700) / 1024));
                v.extend(len - 700..=len);
                v
            };
            lens.dedup();
            // the quick tier takes every length of the files below 1200 bytes and of the first file of each group,
            // around header and SAUCE trailer of the others
            if !thorough && gi != 0 && len > 1200 {
                lens.retain(|l| *l < 300 || *l + 300 > len || l % 7 == 0);
            }
            for l in lens {
                out.push(Case { target: ti as u8, src: Src::Golden(gi as u16), inner: vec![], muts: vec![Mut::KeepLen(l as u32)] });
            }
            // files that are nothing but a SAUCE trailer: every suffix that starts around the EOF byte / comment block / record
            if let Some(s) = sauce_at(&gold.bytes) {
                let comments = gold.bytes[s + 104] as usize;
                let block = if comments > 0 { 5 + 64 * comments } else { 0 };
                for n in s.saturating_sub(block + 3)..=(s + 2).min(len) {
                    if n > s.saturating_sub(block) + 8 && n + 3 < s {
                        continue;
                    }
                    out.push(Case { target: ti as u8, src: Src::Golden(gi as u16), inner: vec![], muts: vec![Mut::DropLen(n as u32)] });
                }
            }
            let fs = fields(t.ctx, &gold.bytes);
            for (fi, (_, w)) in fs.iter().enumerate() {
                for vi in 0..extremes(*w).len() {
                    out.push(Case { target: ti as u8, src: Src::Golden(gi as u16), inner: vec![], muts: vec![Mut::Field { idx: fi as u8, val: vi as u8 }] });
                }
            }
            if t.family == Family::Palette {
                text_number_cases(&gold.bytes, true, &|m| Case { target: ti as u8, src: Src::Golden(gi as u16), inner: vec![], muts: vec![m] }, &mut out);
            }
            if t.group == G_ICY {
                // the same inside every record of the container
                let chunks = icy_chunks(gi);
                for (ci, ch) in chunks.iter().enumerate() {
                    let sel = ((ci * 65536 + 32768) / chunks.len().max(1)) as u16;
                    let n = ch.data.len();
                    let step = if thorough || n <= 300 { 1 } else { n / 150 };
                    let mut l = 0;
                    while l < n {
                        out.push(Case { target: ti as u8, src: Src::Golden(gi as u16), inner: vec![Inner::Payload { chunk: sel, m: Mut::KeepLen(l as u32) }], muts: vec![] });
                        l += if l < 80 { 1 } else { step };
                    }
                    let fs = fields(chunk_ctx(&ch.key), &ch.data);
                    for (fi, (_, w)) in fs.iter().enumerate() {
                        for vi in 0..extremes(*w).len() {
                            out.push(Case {
                                target: ti as u8,
                                src: Src::Golden(gi as u16),
                                inner: vec![Inner::Payload { chunk: sel, m: Mut::Field { idx: fi as u8, val: vi as u8 } }],
                                muts: vec![],
                            });
                        }
                    }
                    // the ICE palette text inside the container
                    if ch.key == "PALETTE" {
                        text_number_cases(&ch.data, thorough, &|m| Case { target: ti as u8, src: Src::Golden(gi as u16), inner: vec![Inner::Payload { chunk: sel, m }], muts: vec![] }, &mut out);
                    }
                    // every record under every other keyword (in place, and as an additional record behind the original)
                    for name in 0..CHUNK_NAMES.len() as u8 {
                        out.push(Case { target: ti as u8, src: Src::Golden(gi as u16), inner: vec![Inner::Rename { chunk: sel, name }], muts: vec![] });
                        out.push(Case { target: ti as u8, src: Src::Golden(gi as u16), inner: vec![Inner::Dup { chunk: sel, name }], muts: vec![] });
                    }
                    // a layer record repeated as continuation record of layer 0, truncated
                    if ch.key.starts_with("LAYER_") {
                        let sel2 = (((ci + 1) * 65536 + 32768) / (chunks.len() + 1)) as u16;
                        let mut l = 0;
                        while l < n.min(if thorough { 2000 } else { 400 }) {
                            out.push(Case {
                                target: ti as u8,
                                src: Src::Golden(gi as u16),
                                inner: vec![Inner::Dup { chunk: sel, name: 0 }, Inner::Payload { chunk: sel2, m: Mut::KeepLen(l as u32) }],
                                muts: vec![],
                            });
                            l += if l < 120 { 1 } else { 7 };
                        }
                    }
                }
            }
        }
    }
    out
}

/// IcyDraw layer records written by hand after the writer in icy_draw.rs (a real continuation record needs a layer above
/// 3 MB): header + cell stream, cut at every length, as first record (length field 0) and as continuation record `LAYER_0~1`
fn icy_layer_cases(ti: usize, out: &mut Vec<Case>) {
    use icy_engine::attribute::{INVISIBLE, INVISIBLE_SHORT, SHORT_DATA};
    let header = |role: u8, w: u32, h: u32| {
        let mut r = Vec::new();
        r.extend(1u32.to_le_bytes());
        r.push(b'L');
        r.push(role);
        r.extend([0u8; 4]);
        r.push(0); // mode
        r.extend([0u8; 4]); // colour
        r.extend(1u32.to_le_bytes()); // flags: visible
        r.push(0); // transparency
        r.extend(0i32.to_le_bytes());
        r.extend(0i32.to_le_bytes());
        r.extend(w.to_le_bytes());
        r.extend(h.to_le_bytes());
        r.extend(0u16.to_le_bytes());
        r.extend(0u64.to_le_bytes()); // length
        r
    };
    let short = |ch: u8| {
        let mut v = (7u16 | SHORT_DATA).to_le_bytes().to_vec();
        v.extend([ch, 7, 0, 0]);
        v
    };
    let long = |ch: u32| {
        let mut v = 1u16.to_le_bytes().to_vec();
        v.extend(ch.to_le_bytes());
        v.extend(300u32.to_le_bytes());
        v.extend(2u32.to_le_bytes());
        v.extend(1u16.to_le_bytes());
        v
    };
    let mut cells = Vec::new();
    cells.extend(short(b'a'));
    cells.extend(long(0x2588));
    cells.extend(INVISIBLE.to_le_bytes());
    cells.extend(short(b'b'));
    cells.extend(long(b'c' as u32));
    cells.extend(INVISIBLE_SHORT.to_le_bytes());
    cells.extend(long(b'd' as u32));
    cells.extend(short(b'e'));
    let iced = icy_chunks(0).iter().find(|c| c.key == "ICED").cloned();
    let Some(iced) = iced else { return };
    let end = Chunk { key: "END".into(), data: Bytes(vec![]) };
    for l in 0..=cells.len() {
        // first record: cells follow the header
        let mut first = header(0, 5, 3);
        first.extend(&cells[..l]);
        out.push(Case { target: ti as u8, src: Src::Chunks(vec![iced.clone(), Chunk { key: "LAYER_0".into(), data: Bytes(first) }, end.clone()]), inner: vec![], muts: vec![] });
        // continuation record of a layer whose first record carried no rows
        let cont = Chunk { key: "LAYER_0~1".into(), data: Bytes(cells[..l].to_vec()) };
        out.push(Case {
            target: ti as u8,
            src: Src::Chunks(vec![iced.clone(), Chunk { key: "LAYER_0".into(), data: Bytes(header(0, 5, 3)) }, cont.clone(), end.clone()]),
            inner: vec![],
            muts: vec![],
        });
        // continuation of an image layer / of a layer that does not exist
        let mut img = header(1, 2, 1);
        img.extend([12u8, 0, 0, 0, 6, 0, 0, 0, 1, 0, 0, 0, 1, 0, 0, 0]);
        if l < 4 {
            out.push(Case { target: ti as u8, src: Src::Chunks(vec![iced.clone(), Chunk { key: "LAYER_0".into(), data: Bytes(img) }, cont.clone(), end.clone()]), inner: vec![], muts: vec![] });
            out.push(Case { target: ti as u8, src: Src::Chunks(vec![iced.clone(), cont, end.clone()]), inner: vec![], muts: vec![] });
        }
    }
}

/// a LAYER record as the writer in icy_draw.rs lays it out: title "L", role, mode 0, visible, size, [picture header], payload
fn layer_record(role: u8, w: u32, h: u32, picture: Option<[u32; 4]>, payload: &[u8]) -> Vec<u8> {
    let mut r = Vec::new();
    r.extend(1u32.to_le_bytes());
    r.push(b'L');
    r.push(role);
    r.extend([0u8; 4]);
    r.push(0); // mode
    r.extend([0u8; 4]); // colour
    r.extend(1u32.to_le_bytes()); // flags: visible
    r.push(0); // transparency
    r.extend(0i32.to_le_bytes());
    r.extend(0i32.to_le_bytes());
    r.extend(w.to_le_bytes());
    r.extend(h.to_le_bytes());
    r.extend(0u16.to_le_bytes());
    r.extend(0u64.to_le_bytes()); // length
    if let Some(p) = picture {
        for v in p {
            r.extend(v.to_le_bytes());
        }
    }
    r.extend_from_slice(payload);
    r
}

/// short cell, long cell, invisible cell, end of line, long cell: 2 rows of a text layer
const SOME_CELLS: [u8; 42] = [
    0x07, 0x40, b'a', 7, 0, 0, 0x01, 0x00, 0x88, 0x25, 0, 0, 44, 1, 0, 0, 2, 0, 0, 0, 1, 0, 0x00, 0x80, 0x00, 0xC0, 0x01, 0x00, b'd', 0, 0, 0, 7, 0, 0, 0, 1, 0, 0, 0, 0, 0,
];
const DIM_EXTREMES: [u32; 4] = [0, 0xFFFF_FFFF, 1, 0x7FFF_FFFF];

fn continuation_variants() -> Vec<Option<Vec<u8>>> {
    vec![None, Some(vec![]), Some(vec![0x41]), Some(SOME_CELLS.to_vec()), Some((0u8..16).collect())]
}

/// Conjunctions of record-level edits in IcyDraw containers: a hand-written first record of either role with extreme layer
/// size / picture header (0, -1, 1, 0x7FFFFFFF), with and without a continuation record (empty, one byte, cells, picture
/// bytes); two layers of different roles with continuation records for every index; and on every golden file the same
/// through record operations (role byte toggled, picture-header field extremes, continuation for every layer index)
fn icy_combo_cases(ti: usize, out: &mut Vec<Case>) {
    let Some(iced) = icy_chunks(0).iter().find(|c| c.key == "ICED").cloned() else { return };
    let end = Chunk { key: "END".into(), data: Bytes(vec![]) };
    let rec = |key: &str, data: Vec<u8>| Chunk { key: key.to_string(), data: Bytes(data) };
    let mut push = |records: Vec<Chunk>| {
        let mut v = vec![iced.clone()];
        v.extend(records);
        v.push(end.clone());
        out.push(Case { target: ti as u8, src: Src::Chunks(v), inner: vec![], muts: vec![] });
    };
    for cont in continuation_variants() {
        let with_cont = |first: Vec<u8>| {
            let mut v = vec![rec("LAYER_0", first)];
            if let Some(c) = &cont {
                v.push(rec("LAYER_0~1", c.clone()));
            }
            v
        };
        // picture layer: every combination of the four picture-header fields
        for sw in DIM_EXTREMES {
            for sh in DIM_EXTREMES {
                for vs in DIM_EXTREMES {
                    for hs in DIM_EXTREMES {
                        push(with_cont(layer_record(1, 2, 1, Some([sw, sh, vs, hs]), &[1, 2, 3, 4])));
                    }
                }
            }
        }
        // layer size extremes for both roles; the text layer with and without cells in its first record
        for w in DIM_EXTREMES {
            for h in DIM_EXTREMES {
                push(with_cont(layer_record(1, w, h, Some([12, 6, 1, 1]), &[1, 2, 3, 4])));
                push(with_cont(layer_record(0, w, h, None, &[])));
                push(with_cont(layer_record(0, w, h, None, &SOME_CELLS)));
            }
        }
        // two layers of different roles, a continuation record for every index (the third does not exist)
        if let Some(c) = &cont {
            for k in 0..3 {
                let text = layer_record(0, 5, 3, None, &[]);
                let picture = layer_record(1, 2, 1, Some([12, 6, 1, 1]), &[1, 2, 3, 4]);
                let key = format!("LAYER_{k}~1");
                push(vec![rec("LAYER_0", text.clone()), rec("LAYER_1", picture.clone()), rec(&key, c.clone())]);
                push(vec![rec("LAYER_0", picture), rec("LAYER_1", text), rec(&key, c.clone())]);
            }
        }
    }
    // golden files
    for gi in 0..group(G_ICY).len() {
        let chunks = icy_chunks(gi);
        let n = chunks.len();
        let layers: Vec<(usize, String)> = chunks.iter().enumerate().filter(|(_, c)| c.key.starts_with("LAYER_") && !c.key.contains('~')).map(|(i, c)| (i, c.key.clone())).collect();
        let golden = |inner: Vec<Inner>| Case { target: ti as u8, src: Src::Golden(gi as u16), inner, muts: vec![] };
        // a continuation record for every layer index, existing or not
        for k in 0..=layers.len() {
            for c in continuation_variants().into_iter().flatten() {
                out.push(golden(vec![Inner::Insert { back: 1, key: format!("LAYER_{k}~1"), data: Bytes(c) }]));
            }
        }
        for (ci, key) in &layers {
            let sel = ((ci * 65536 + 32768) / n) as u16;
            // role byte: as written / picture / text (field 1 of the record), picture-header fields 14..=17: 0, 1, 0x7FFFFFFF, -1
            for role in [None, Some(1u8), Some(0u8)] {
                for field in 14u8..=17 {
                    for val in [0u8, 1, 6, 8] {
                        for cont in [None, Some(vec![]), Some(SOME_CELLS.to_vec())] {
                            let mut inner = Vec::new();
                            if let Some(r) = role {
                                inner.push(Inner::Payload { chunk: sel, m: Mut::Field { idx: 1, val: r } });
                            }
                            inner.push(Inner::Payload { chunk: sel, m: Mut::Field { idx: field, val } });
                            if let Some(c) = cont {
                                inner.push(Inner::Insert { back: 1, key: format!("{key}~1"), data: Bytes(c) });
                            }
                            out.push(golden(inner));
                        }
                    }
                }
            }
        }
    }
}

/// The text-field table: every slot of the target's text-carrying formats x length {0, 1, 127..130, 255..258, 1000, 70000}
/// (fixed-size fields: 0, 1, size-1, size, size+1) x 7 alphabets x alignment 0..=3 (x with/without BOM for ANSI control strings).
/// The quick tier takes the 70000-byte texts with alignment 0 only and, for the loaders that merely share the ANSI parser,
/// the lengths 0, 257 and 1000.
fn text_field_cases(ti: usize, thorough: bool, out: &mut Vec<Case>) {
    let t = &TARGETS[ti];
    let mut base = 0usize;
    for f in text_formats(t) {
        for slot in 0..textfield::slots(f) {
            let lens: Vec<u32> = match textfield::field_size(f, slot) {
                Some(n) => vec![0, 1, n as u32 - 1, n as u32, n as u32 + 1],
                None if f == Format::Ansi && t.name != "ans" && !thorough => vec![0, 257, 1000],
                None => textfield::LENGTHS.to_vec(),
            };
            for len in lens {
                for alpha in 0..textfield::ALPHABETS {
                    for align in 0..4u8 {
                        if len == 70000 && align != 0 && !thorough {
                            continue;
                        }
                        for bom in [false, true] {
                            if bom && f != Format::Ansi {
                                continue;
                            }
                            out.push(Case { target: ti as u8, src: Src::Text(TextCase { slot: (base + slot) as u8, len, alpha, align, bom }), inner: vec![], muts: vec![] });
                        }
                    }
                }
            }
        }
        base += textfield::slots(f);
    }
}

/// selector that `pick` maps onto index i of n
fn sel_of(i: usize, n: usize) -> u16 {
    ((i * 65536 + 32768) / n.max(1)).min(65535) as u16
}

/// Grammar-aware edits of a text (palette formats): every number (decimal run, hex run) replaced by every magnitude of NUMBERS
/// (all numbers of short texts; the first 16 and last 4 of long ones), and every header line + magnitude inserted as first,
/// second, third and last line (`full`; otherwise a reduced set). `wrap` turns the text mutation into a case.
fn text_number_cases(text: &[u8], full: bool, wrap: &dyn Fn(Mut) -> Case, out: &mut Vec<Case>) {
    for hex in [false, true] {
        let runs = number_runs(text, hex);
        let n = runs.len();
        for i in 0..n {
            let (head, tail) = if full { (16, 4) } else { (8, 2) };
            if n > head + tail && i >= head && i + tail < n {
                continue;
            }
            for val in 0..NUMBERS.len() as u8 {
                out.push(wrap(Mut::Number { sel: sel_of(i, n), hex, val }));
            }
        }
    }
    let lines = line_starts(text).len();
    let mut ats: Vec<u16> = (0..lines.min(if full { 3 } else { 1 })).map(|i| sel_of(i, lines)).collect();
    ats.push(u16::MAX);
    ats.dedup();
    for at in ats {
        for kind in 0..HEADER_LINES.len() as u8 {
            for val in 0..NUMBERS.len() as u8 {
                // inside containers (a PNG is built per case): 2^16, 2^31, 2^32, 2^63, 2^64-1 and the 30-digit number
                if !full && ![5, 7, 8, 9, 10, 12].contains(&val) {
                    continue;
                }
                out.push(wrap(Mut::HeaderLine { at, kind, val }));
            }
        }
    }
}

fn main() {
    let mut eng = Engine::new("C02");
    eng.rule(
        "Case = (target, source, mutations). Targets: Buffer::from_bytes under ans ice diz icy idf bin xb tnd pcb avt asc adf msg an1..an9 seq ata, an unknown extension, upper-case spellings, \
         foreign-format content; SauceData::extract; BitFont::from_bytes; TheDrawFont::from_tdf_bytes; Palette::load_palette x {ice,hex,pal,gpl,txt}; Palette::import_palette. \
         Sources: golden files written by the engine's own writers from 9 fixed documents (with/without SAUCE + comments, compressed or not, 1-2 fonts, custom palette, image layer), \
         PSF2/PSF1/raw fonts, synthetic + shipped TheDraw fonts, 4 palettes per format; random bytes; format-shaped streams (terminal grammar of the loader's parser incl. UTF-8 with BOM, \
         Tundra commands, XBin header + runs, PSF headers, TDF header + tables, palette lines). Mutations: truncation, 1-4 byte corruption weighted to header and SAUCE tail, header-field \
         extremes per known field offset, SAUCE trailers with generated fields / comment counts / comment blocks, insert/cut, and all of these inside the base64 zTXt records of IcyDraw files. \
         Part `systematic` enumerates every truncation and every field extreme of every golden file and of every IcyDraw record, every trailer-only suffix of the files with SAUCE, \
         every IcyDraw record under every other keyword, hand-written IcyDraw layer / continuation records cut at every length, conjunctions of record-level edits (layer role x extreme layer size / \
         picture header {0,-1,1,0x7FFFFFFF} x continuation record {none, empty, 1 byte, cells, picture bytes}, continuation records for every layer index incl. layers of the other role, on hand-written \
         and golden record lists), every number of every palette text (and of the ICE palette inside .icy) replaced by magnitudes up to 2^64 and a 30-digit number, header lines with such numbers inserted, \
         every 1-byte file per loader and every 2-byte file for seq/ata; the text-field table: valid files generated around a text of length {0,1,127..130,255..258,1000,70000} x alphabet \
         {ASCII, 2-, 3-, 4-byte UTF-8, control characters, separators, mixed} x alignment 0..3 in every text-carrying position (palette title/author/description/colour name/free lines of the five \
         formats, .icy PALETTE / layer title / font name / SAUCE record, SAUCE title/author/group/comments/font name behind content, TDF font name, OSC 8/0/2/4, APS and DCS strings with and without BOM); \
         a share of every generated part draws from the same construction. The file NAME is a dimension of Buffer::from_bytes: lower / upper / mixed case, no extension, no stem, double \
         extensions, a directory part with extension, trailing dot / space / slash, unknown, non-ASCII and non-UTF-8 extensions, the empty name (table x every extension target; one generated buffer case in eight). \
         Pairs (every truncation 0..=header+8 x every size/offset/count field in {0,1,len-1,len,len+1, len relative to the field}) for PSF1/PSF2 (direct, CTerm:Font DCS in .ans, FONT_ record in .icy), \
         ICED / FONT_ / LAYER_ records, XBin, iCE Draw, TheDraw fonts (first and second font of a bundle), SAUCE comment count x bytes in front of the record (direct, .ans, .bin, .icy), sixel raster attributes; \
         sixels combined with other features (font DCS with an extreme size field + text + sixel; CSI sequence + sixel + character after {nothing, margins, 132-column text area + cursor far right}; \
         two-sequence set-ups from {resize wider, narrower, margins, cursor far right/bottom, origin mode} + cursor movement + sixel; a sixel appended to 2 % of the generated ANSI-family files); \
         CSI table for ANSI-family files: prefix {none, 90 LF, text + margins} x final 0x40..0x7E x 8 intermediates x parameter lists (length <= 2) over {0,1,25,65536,2147483599,2147483647}, REP capped at 9999. \
         Non-trivial: the loader got past its magic / minimum-length check: it returned Ok with content (a buffer from non-empty input; for IcyDraw a document with layers; Some(sauce); >= 1 colour), \
         or it returned an error that is not one of the magic/length errors and differs from the error for the header bytes alone. Distinct by hash of the case.",
    );
    if cfg!(debug_assertions) {
        eng.assume("profile `checked`: release optimisation with overflow checks and debug assertions on, i.e. a panic that only a debug build of a front end would hit counts as well");
    } else {
        eng.assume("release profile semantics (overflow-checks off, debug-assertions off), as a user of the shipped crate sees it");
    }
    eng.assume("PaletteFormat::Ase is not a loader (todo!() for every input) and is not called");
    eng.assume("hangs and memory growth are C03's subject: timeouts and heap-cap hits (512 MiB per file, e.g. an IcyDraw layer record with width 0x7FFFFFFF or a cursor movement by 2^31 rows) are counted as inconclusive, not as violations (heapcap_is_violation(false) on every part); numbers in generated terminal streams are capped at 999 so that cursor movement cannot allocate gigabytes of rows; sixel decode threads are given the time parse_with_parser gives them");
    let thorough = eng.is_thorough();
    THOROUGH.store(thorough, std::sync::atomic::Ordering::Relaxed);
    let worker = std::env::var("ICYV_WORKER").is_ok();

    static SYS: OnceLock<Vec<Case>> = OnceLock::new();
    let total = if worker { 0 } else { SYS.get_or_init(|| systematic(thorough)).len() as u64 };
    if !worker {
        let sizes: Vec<_> = (0..N_GROUPS).map(|g| json!({"group": g, "files": group(g).iter().map(|x| format!("{} ({} bytes)", x.tag, x.bytes.len())).collect::<Vec<_>>()})).collect();
        eng.extra("golden_files", json!(sizes));
    }
    // ICYV_C02_HANGS=<ms> (debugging aid): report hangs as failures with a short timeout to get their replay files
    let hang_ms: Option<u64> = std::env::var("ICYV_C02_HANGS").ok().and_then(|s| s.parse().ok());
    let cfg = move |name: &'static str, q: u64, t: u64| {
        let c = PartCfg::new(name, q, t).isolated().timeout_ms(20_000).heap_cap(512 << 20).heapcap_is_violation(false).shrink_budget(600);
        match hang_ms {
            Some(ms) => c.timeout_ms(ms).hang_is_violation(true),
            None => c,
        }
    };
    eng.enumerated_with_class(cfg("systematic", 0, 0), total, |i| SYS.get().expect("systematic list")[i as usize].clone(), check, classify);
    eng.generated_min(cfg("buffer", 200_000, 3_600_000), || family_cases(Family::Buffer), check, classify, minimize);
    eng.generated_min(cfg("sauce", 40_000, 600_000), || family_cases(Family::Sauce), check, classify, minimize);
    eng.generated_min(cfg("bitfont", 30_000, 500_000), || family_cases(Family::Font), check, classify, minimize);
    eng.generated_min(cfg("tdf", 40_000, 700_000), || family_cases(Family::Tdf), check, classify, minimize);
    eng.generated_min(cfg("palette", 30_000, 500_000), || family_cases(Family::Palette), check, classify, minimize);
    eng.run();
}
