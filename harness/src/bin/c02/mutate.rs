//! Mutators (a)-(f) of the design as serialisable values + their application to a byte string.
use crate::golden::Chunk;
use icyv::proptest::collection::vec;
use icyv::proptest::prelude::*;
use icyv::util::{pick, Bytes};
use serde::{Deserialize, Serialize};

/// which header layout `Mut::Field` addresses
#[derive(Clone, Copy, Debug, PartialEq, Eq)]
pub enum Ctx {
    None,
    Xb,
    Tnd,
    Idf,
    Adf,
    Psf,
    Tdf,
    Iced,
    IcyLayer,
    IcyFont,
}

#[derive(Clone, Debug, Hash, Serialize, Deserialize, PartialEq)]
pub struct SauceRec {
    /// how much of the current content stays in front of the trailer: pick(keep, len + 1) bytes
    pub keep: u16,
    /// EOF byte 0x1A in front of the trailer
    pub eof: bool,
    /// comment count written into the record
    pub comments: u8,
    /// 0 no comment block, 1 block with exactly `comments` lines, 2 same with a wrong id, 3 one line short, 4 one line too many
    pub block: u8,
    /// 0 "00", 1 "01", 2 two bytes 0xFF
    pub version: u8,
    pub data_type: u8,
    pub file_type: u8,
    pub t1: u16,
    pub t2: u16,
    pub flags: u8,
    /// selects TInfoS: 0 empty, 1.. a SAUCE font name, 255 22 bytes without NUL
    pub font: u8,
    /// 0 valid date, 1 letters, 2 "00000000", 3 bytes >= 0x80
    pub date: u8,
    /// fill byte of title/author/group
    pub text: u8,
}

#[derive(Clone, Debug, Hash, Serialize, Deserialize, PartialEq)]
pub enum Mut {
    /// keep exactly n bytes (enumerated truncations)
    KeepLen(u32),
    /// keep pick(sel, len) bytes: a proper prefix
    Trunc(u16),
    /// remove n bytes from the end
    ChopTail(u8),
    /// remove exactly n leading bytes (enumerated trailer-only files)
    DropLen(u32),
    /// remove pick(sel, len + 1) leading bytes (what remains is a suffix, e.g. nothing but a SAUCE trailer)
    DropFront(u16),
    /// overwrite one byte; region 0 anywhere, 1 first 48 bytes, 2 last 129 bytes (SAUCE record + EOF), 3 last 400 bytes (comment block)
    Set { region: u8, sel: u16, val: u8 },
    /// write a header-field extreme into the idx-th known field of the format (SAUCE record fields included when a record is present)
    Field { idx: u8, val: u8 },
    /// write an extreme of the given width (1, 2, 4, 8 bytes little endian; 14 = big endian 4) at an arbitrary position
    Word { sel: u16, width: u8, val: u8 },
    Insert { sel: u16, data: Bytes },
    Cut { sel: u16, n: u8 },
    /// (e): prefix + [EOF] + [comment block] + 128-byte record starting with "SAUCE"
    Sauce(SauceRec),
    /// text-mode files: a small sixel picture + one character inserted at pick(sel, content length + 1), where the content ends in
    /// front of a SAUCE trailer (sel = 65535: at the end of the content, i.e. after everything else that was mutated)
    Sixel { sel: u16 },
    /// not a change of the bytes: the file NAME handed to Buffer::from_bytes is FILE_NAMES[i] (see main.rs) instead of "c02.<ext>"
    FileName(u8),
    /// write `val` (little endian, `width` bytes; width 14 = big endian 4) at the absolute offset `at` (bytes beyond the end are dropped)
    Put { at: u32, width: u8, val: u64 },
    /// text formats: replace the pick(sel, n)-th number of the text (maximal run of decimal digits, or of hex digits when `hex`)
    /// by NUMBERS[val]
    Number { sel: u16, hex: bool, val: u8 },
    /// text formats: insert the line HEADER_LINES[kind] + NUMBERS[val] in front of the pick(at, lines + 1)-th line
    HeaderLine { at: u16, kind: u8, val: u8 },
}

/// operations on the record list of an IcyDraw container
#[derive(Clone, Debug, Hash, Serialize, Deserialize, PartialEq)]
pub enum Inner {
    Payload { chunk: u16, m: Mut },
    Rename { chunk: u16, name: u8 },
    Drop { chunk: u16 },
    Dup { chunk: u16, name: u8 },
    Swap { a: u16, b: u16 },
    /// a new record `back` records from the end (1 = in front of END), e.g. a continuation record `LAYER_<layer>~1`
    Insert { back: u8, key: String, data: Bytes },
}

pub const CHUNK_NAMES: [&str; 14] = [
    "LAYER_0~1",
    "LAYER_1~1",
    "LAYER_7~1",
    "LAYER_99999999999999999999999~1",
    "LAYER_7",
    "LAYER_x",
    "FONT_1",
    "FONT_x",
    "FONT_99999999999999999999999",
    "ICED",
    "SAUCE",
    "PALETTE",
    "END",
    "OTHER",
];

/// magnitudes for numbers in text formats: around u8/u16/u32/i32/u64/i64 limits, beyond u64, and hex spellings
pub const NUMBERS: [&str; 16] = [
    "0",
    "1",
    "255",
    "256",
    "65535",
    "65536",
    "2147483647",
    "2147483648",
    "4294967296",
    "9223372036854775808",
    "18446744073709551615",
    "18446744073709551616",
    "123456789012345678901234567890",
    "ffffffff",
    "ffffffffffffffff",
    "10000000000000000",
];

/// header / comment lines of the five palette text formats (a number is appended)
pub const HEADER_LINES: [&str; 20] = [
    "#Colors: ",
    ";Colors: ",
    "#Colors:",
    "#Name: ",
    "#Palette Name: ",
    ";Palette Name: ",
    "#Author: ",
    "#Description: ",
    ";Description: ",
    "#Columns: ",
    "Columns: ",
    "Name: ",
    "GIMP Palette ",
    "JASC-PAL ",
    "0100 ",
    ";paint.net Palette File ",
    ";Paint.NET ",
    "ICE Palette ",
    "",
    "FF",
];

/// (start, end) of the numbers of a text
pub fn number_runs(b: &[u8], hex: bool) -> Vec<(usize, usize)> {
    let is = |c: u8| if hex { c.is_ascii_hexdigit() } else { c.is_ascii_digit() };
    let mut out = Vec::new();
    let mut i = 0;
    while i < b.len() {
        if is(b[i]) {
            let s = i;
            while i < b.len() && is(b[i]) {
                i += 1;
            }
            out.push((s, i));
        } else {
            i += 1;
        }
    }
    out
}

/// start offsets of the lines of a text, plus its length
pub fn line_starts(b: &[u8]) -> Vec<usize> {
    let mut v = vec![0];
    for (i, c) in b.iter().enumerate() {
        if *c == b'\n' && i + 1 < b.len() {
            v.push(i + 1);
        }
    }
    v.push(b.len());
    v.dedup();
    v
}

pub const EXTREMES_1: [u64; 5] = [0, 1, 0x7F, 0x80, 0xFF];
pub const EXTREMES_2: [u64; 8] = [0, 1, 0x7F, 0x80, 0xFF, 0xFFFF, 0x7FFF, 0x8000];
pub const EXTREMES_4: [u64; 10] = [0, 1, 0x7F, 0x80, 0xFF, 0xFFFF, 0x7FFF_FFFF, 0x8000_0000, 0xFFFF_FFFF, 0x1_0000];
pub const EXTREMES_8: [u64; 10] = [0, 1, 0x7F, 0x80, 0xFF, 0xFFFF, 0x7FFF_FFFF_FFFF_FFFF, 0xFFFF_FFFF_FFFF_FFFF, 0xFFFF_FFFF, 0x1_0000];

pub fn extremes(width: u8) -> &'static [u64] {
    match width {
        1 => &EXTREMES_1,
        2 => &EXTREMES_2,
        8 => &EXTREMES_8,
        _ => &EXTREMES_4,
    }
}

pub fn sauce_at(b: &[u8]) -> Option<usize> {
    if b.len() >= 128 && &b[b.len() - 128..b.len() - 123] == b"SAUCE" {
        Some(b.len() - 128)
    } else {
        None
    }
}

fn le32(b: &[u8], o: usize) -> Option<usize> {
    b.get(o..o + 4).map(|s| u32::from_le_bytes(s.try_into().unwrap()) as usize)
}

/// (offset, width) of the known header fields of the format; SAUCE record fields are appended when the bytes end in a record
pub fn fields(ctx: Ctx, b: &[u8]) -> Vec<(usize, u8)> {
    let mut f: Vec<(usize, u8)> = match ctx {
        Ctx::None => vec![],
        // XBIN: id(4) eof width(2) height(2) fontsize flags
        Ctx::Xb => vec![(4, 1), (5, 2), (7, 2), (9, 1), (10, 1), (11, 1)],
        // TUNDRA: version, id(8), then commands
        Ctx::Tnd => vec![(0, 1), (1, 1), (9, 1), (10, 1), (10, 4), (14, 4)],
        // IDF: id(4) x1 y1 x2 y2, first cell
        Ctx::Idf => vec![(3, 1), (4, 2), (6, 2), (8, 2), (10, 2), (12, 2), (14, 2)],
        // ADF: version, palette(192), font(4096)
        Ctx::Adf => vec![(0, 1), (1, 1), (192, 1), (193, 1), (4288, 1), (4289, 2)],
        // PSF1: magic(2) mode charsize; PSF2: magic version headersize flags length charsize height width
        Ctx::Psf => vec![(0, 2), (2, 1), (3, 1), (4, 4), (8, 4), (12, 4), (16, 4), (20, 4), (24, 4), (28, 4)],
        // TDF: idlen id(18) ctrl-z | indicator(4) namelen name(12) 4x0 type spacing blocksize(2) 94 offsets | glyphs (w h data 0)
        Ctx::Tdf => vec![(0, 1), (19, 1), (20, 4), (24, 1), (25, 1), (41, 1), (42, 1), (43, 2), (45, 2), (47, 2), (45 + 2 * 32, 2), (45 + 2 * 93, 2), (233, 1), (234, 1), (235, 1)],
        // ICED record: version(2) type(4) buffer_type(2) ice palette font width(4) height(4)
        Ctx::Iced => vec![(0, 2), (2, 4), (6, 2), (8, 1), (9, 1), (10, 1), (11, 4), (15, 4)],
        Ctx::IcyLayer => {
            let base = 4 + le32(b, 0).unwrap_or(0).min(b.len());
            let mut v = vec![(0, 4), (base, 1), (base + 1, 4), (base + 5, 1), (base + 6, 4), (base + 10, 4), (base + 14, 1)];
            v.extend([(base + 15, 4), (base + 19, 4), (base + 23, 4), (base + 27, 4), (base + 31, 2), (base + 33, 8)]);
            v.extend([(base + 41, 2), (base + 41, 4), (base + 45, 4), (base + 49, 4), (base + 53, 4)]);
            v
        }
        Ctx::IcyFont => {
            let base = 4 + le32(b, 0).unwrap_or(0).min(b.len());
            let mut v = vec![(0, 4)];
            v.extend((0..8).map(|i| (base + 4 * i, 4u8)));
            v
        }
    };
    if let Some(s) = sauce_at(b) {
        // id(5) version(2) title(35) author(20) group(20) date(8) filesize(4) datatype filetype tinfo1..4 comments flags tinfos(22)
        f.extend([(s + 4, 1), (s + 5, 2), (s + 7, 1), (s + 82, 1), (s + 89, 1), (s + 90, 4), (s + 94, 1), (s + 95, 1), (s + 96, 2), (s + 98, 2), (s + 100, 2)]);
        f.extend([(s + 104, 1), (s + 105, 1), (s + 106, 1), (s + 127, 1)]);
    }
    f
}

fn write_le(b: &mut [u8], o: usize, width: u8, v: u64) {
    let bytes = v.to_le_bytes();
    if width == 14 {
        let be = (v as u32).to_be_bytes();
        for i in 0..4 {
            if let Some(x) = b.get_mut(o + i) {
                *x = be[i];
            }
        }
        return;
    }
    for i in 0..width as usize {
        if let Some(x) = b.get_mut(o + i) {
            *x = bytes[i];
        }
    }
}

pub fn build_sauce(r: &SauceRec, prefix: &[u8]) -> Vec<u8> {
    let mut out = prefix[..pick(r.keep, prefix.len() + 1).min(prefix.len())].to_vec();
    if r.eof {
        out.push(0x1A);
    }
    let lines = match r.block {
        0 => None,
        3 => Some((r.comments as usize).saturating_sub(1)),
        4 => Some(r.comments as usize + 1),
        _ => Some(r.comments as usize),
    };
    if let Some(n) = lines {
        out.extend_from_slice(if r.block == 2 { b"COMNx" } else { b"COMNT" });
        for i in 0..n {
            let mut l = format!("comment {i}").into_bytes();
            l.resize(64, if i % 2 == 0 { 0 } else { b' ' });
            out.extend(l);
        }
    }
    out.extend_from_slice(b"SAUCE");
    out.extend_from_slice(match r.version {
        0 => b"00",
        1 => b"01",
        _ => b"\xff\xff",
    });
    out.extend(std::iter::repeat(r.text).take(35 + 20 + 20));
    out.extend_from_slice(match r.date {
        0 => b"20240229",
        1 => b"abcdefgh",
        2 => b"00000000",
        _ => b"\xff\xfe\x80\x81\xc3\x28\xa0\xa1",
    });
    out.extend(u32::to_le_bytes(prefix.len() as u32));
    out.push(r.data_type);
    out.push(r.file_type);
    out.extend(u16::to_le_bytes(r.t1));
    out.extend(u16::to_le_bytes(r.t2));
    out.extend([0, 0, 0, 0]);
    out.push(r.comments);
    out.push(r.flags);
    let mut name: Vec<u8> = match r.font {
        0 => vec![],
        255 => vec![b'X'; 22],
        n => {
            let names = icy_engine::SAUCE_FONT_NAMES;
            names[(n as usize - 1) % names.len()].bytes().take(22).collect()
        }
    };
    name.resize(22, 0);
    out.extend(name);
    out
}

pub fn apply(m: &Mut, b: &mut Vec<u8>, ctx: Ctx) {
    match m {
        Mut::KeepLen(n) => b.truncate(*n as usize),
        Mut::Trunc(sel) => {
            let n = pick(*sel, b.len());
            b.truncate(n);
        }
        Mut::ChopTail(n) => {
            let l = b.len().saturating_sub(*n as usize);
            b.truncate(l);
        }
        Mut::DropLen(n) => {
            let n = (*n as usize).min(b.len());
            b.drain(..n);
        }
        Mut::DropFront(sel) => {
            let n = pick(*sel, b.len() + 1).min(b.len());
            b.drain(..n);
        }
        Mut::Set { region, sel, val } => {
            if b.is_empty() {
                return;
            }
            let (start, len) = match region {
                1 => (0, b.len().min(48)),
                2 => (b.len().saturating_sub(129), b.len().min(129)),
                3 => (b.len().saturating_sub(400), b.len().min(400)),
                _ => (0, b.len()),
            };
            let p = start + pick(*sel, len);
            b[p] = *val;
        }
        Mut::Field { idx, val } => {
            let f = fields(ctx, b);
            if f.is_empty() {
                return;
            }
            let (o, w) = f[*idx as usize % f.len()];
            let ex = extremes(w);
            write_le(b, o, w, ex[*val as usize % ex.len()]);
        }
        Mut::Word { sel, width, val } => {
            if b.is_empty() {
                return;
            }
            let o = pick(*sel, b.len());
            let ex = extremes(if *width == 14 { 4 } else { *width });
            write_le(b, o, *width, ex[*val as usize % ex.len()]);
        }
        Mut::Insert { sel, data } => {
            let o = pick(*sel, b.len() + 1).min(b.len());
            let tail = b.split_off(o);
            b.extend_from_slice(&data.0);
            b.extend(tail);
        }
        Mut::Cut { sel, n } => {
            if b.is_empty() {
                return;
            }
            let o = pick(*sel, b.len());
            let e = (o + *n as usize).min(b.len());
            b.drain(o..e);
        }
        Mut::Sauce(r) => {
            let out = build_sauce(r, b);
            *b = out;
        }
        Mut::FileName(_) => {}
        Mut::Sixel { sel } => {
            let mut end = sauce_at(b).unwrap_or(b.len());
            if let Some(s) = sauce_at(b) {
                let comments = b[s + 104] as usize;
                if comments > 0 && s >= 5 + 64 * comments && &b[s - 5 - 64 * comments..s - 64 * comments] == b"COMNT" {
                    end = s - 5 - 64 * comments;
                }
                if end > 0 && b[end - 1] == 0x1A {
                    end -= 1;
                }
            }
            let o = if *sel == u16::MAX { end } else { pick(*sel, end + 1).min(end) };
            let mut ins = crate::pairs::SIXEL.to_vec();
            ins.push(b'z');
            b.splice(o..o, ins);
        }
        Mut::Put { at, width, val } => write_le(b, *at as usize, *width, *val),
        Mut::Number { sel, hex, val } => {
            let runs = number_runs(b, *hex);
            if runs.is_empty() {
                return;
            }
            let (s, e) = runs[pick(*sel, runs.len())];
            b.splice(s..e, NUMBERS[*val as usize % NUMBERS.len()].bytes());
        }
        Mut::HeaderLine { at, kind, val } => {
            let starts = line_starts(b);
            let o = starts[pick(*at, starts.len())];
            let mut line = HEADER_LINES[*kind as usize % HEADER_LINES.len()].as_bytes().to_vec();
            line.extend_from_slice(NUMBERS[*val as usize % NUMBERS.len()].as_bytes());
            line.push(b'\n');
            if o == b.len() && !b.is_empty() && b[b.len() - 1] != b'\n' {
                line.insert(0, b'\n');
            }
            b.splice(o..o, line);
        }
    }
}

pub fn chunk_ctx(key: &str) -> Ctx {
    if key == "ICED" {
        Ctx::Iced
    } else if key.starts_with("LAYER_") && !key.contains('~') {
        Ctx::IcyLayer
    } else if key.starts_with("FONT_") {
        Ctx::IcyFont
    } else {
        Ctx::None
    }
}

pub fn apply_inner(op: &Inner, chunks: &mut Vec<Chunk>) {
    if chunks.is_empty() {
        return;
    }
    let n = chunks.len();
    match op {
        Inner::Payload { chunk, m } => {
            let c = &mut chunks[pick(*chunk, n)];
            let ctx = chunk_ctx(&c.key);
            apply(m, &mut c.data.0, ctx);
        }
        Inner::Rename { chunk, name } => {
            chunks[pick(*chunk, n)].key = CHUNK_NAMES[*name as usize % CHUNK_NAMES.len()].to_string();
        }
        Inner::Drop { chunk } => {
            chunks.remove(pick(*chunk, n));
        }
        Inner::Dup { chunk, name } => {
            let i = pick(*chunk, n);
            let mut c = chunks[i].clone();
            c.key = CHUNK_NAMES[*name as usize % CHUNK_NAMES.len()].to_string();
            chunks.insert(i + 1, c);
        }
        Inner::Swap { a, b } => {
            chunks.swap(pick(*a, n), pick(*b, n));
        }
        Inner::Insert { back, key, data } => {
            let i = n.saturating_sub(*back as usize);
            chunks.insert(i, Chunk { key: key.clone(), data: data.clone() });
        }
    }
}

// ------------------------------------------------------------------------------------------------ strategies

pub fn byte_val() -> BoxedStrategy<u8> {
    prop_oneof![
        4 => prop::sample::select(vec![0u8, 1, 2, 4, 6, 0x0D, 0x1A, 0x1B, 0x7F, 0x80, 0xFF, b'S', b'0', 0xC0, 0x40, 13, 3, 5]),
        3 => any::<u8>(),
    ]
    .boxed()
}

pub fn set() -> BoxedStrategy<Mut> {
    (prop_oneof![3 => Just(0u8), 4 => Just(1u8), 3 => Just(2u8), 1 => Just(3u8)], any::<u16>(), byte_val()).prop_map(|(region, sel, val)| Mut::Set { region, sel, val }).boxed()
}

pub fn field() -> BoxedStrategy<Mut> {
    (0u8..=32, 0u8..=9).prop_map(|(idx, val)| Mut::Field { idx, val }).boxed()
}

pub fn word() -> BoxedStrategy<Mut> {
    (any::<u16>(), prop::sample::select(vec![1u8, 2, 4, 8, 14]), 0u8..=9).prop_map(|(sel, width, val)| Mut::Word { sel, width, val }).boxed()
}

pub fn sauce_rec() -> BoxedStrategy<SauceRec> {
    let keep = prop_oneof![3 => Just(u16::MAX), 2 => Just(0u16), 1 => 0u16..=400, 2 => any::<u16>()];
    let comments = prop_oneof![3 => Just(0u8), 3 => 1u8..=3, 1 => Just(255u8), 1 => any::<u8>()];
    let block = prop_oneof![2 => Just(0u8), 5 => Just(1u8), 1 => Just(2u8), 1 => Just(3u8), 1 => Just(4u8)];
    let version = prop_oneof![8 => Just(0u8), 1 => Just(1u8), 1 => Just(2u8)];
    let data_type = prop_oneof![2 => Just(1u8), 2 => Just(5u8), 2 => Just(6u8), 1 => 0u8..=8, 1 => any::<u8>()];
    let file_type = prop_oneof![4 => 0u8..=8, 1 => any::<u8>()];
    let dim = || prop_oneof![12 => prop::sample::select(vec![0u16, 1, 2, 25, 80, 160]), 2 => prop::sample::select(vec![1000u16, 1001]), 1 => prop::sample::select(vec![0x7FFFu16, 0x8000, 0xFFFF]), 1 => any::<u16>()];
    let font = prop_oneof![2 => Just(0u8), 3 => 1u8..=40, 1 => Just(255u8)];
    let date = prop_oneof![6 => Just(0u8), 1 => Just(1u8), 1 => Just(2u8), 1 => Just(3u8)];
    let text = prop_oneof![2 => Just(b' '), 1 => Just(0u8), 1 => Just(b'A'), 1 => Just(0xFFu8)];
    ((keep, any::<bool>(), comments, block), (version, data_type, file_type, dim(), dim()), (any::<u8>(), font, date, text))
        .prop_map(|((keep, eof, comments, block), (version, data_type, file_type, t1, t2), (flags, font, date, text))| SauceRec {
            keep,
            eof,
            comments,
            block,
            version,
            data_type,
            file_type,
            t1,
            t2,
            flags,
            font,
            date,
            text,
        })
        .boxed()
}

pub fn trunc() -> BoxedStrategy<Mut> {
    prop_oneof![3 => any::<u16>().prop_map(Mut::Trunc), 2 => (1u8..=140).prop_map(Mut::ChopTail), 1 => (0u16..=2000).prop_map(Mut::Trunc)].boxed()
}

fn splice() -> BoxedStrategy<Mut> {
    prop_oneof![
        (any::<u16>(), vec(byte_val(), 1..=8)).prop_map(|(sel, d)| Mut::Insert { sel, data: Bytes(d) }),
        (any::<u16>(), 1u8..=64).prop_map(|(sel, n)| Mut::Cut { sel, n }),
        any::<u16>().prop_map(Mut::DropFront),
    ]
    .boxed()
}

/// mutation lists for a golden file: (b) truncation, (c) 1-4 byte corruption, (d) field extremes, (e) SAUCE trailers, and mixtures
pub fn muts() -> BoxedStrategy<Vec<Mut>> {
    prop_oneof![
        6 => vec(set(), 1..=4),
        4 => vec(field(), 1..=2),
        2 => (field(), set()).prop_map(|(a, b)| vec![a, b]),
        2 => (trunc(), prop::option::of(set())).prop_map(|(t, s)| { let mut v = vec![t]; v.extend(s); v }),
        3 => (prop::option::of(trunc()), sauce_rec(), prop::option::of(set())).prop_map(|(t, s, c)| { let mut v: Vec<Mut> = t.into_iter().collect(); v.push(Mut::Sauce(s)); v.extend(c); v }),
        2 => vec(prop_oneof![word(), splice()], 1..=3),
        1 => (field(), trunc()).prop_map(|(a, b)| vec![a, b]),
        1 => Just(vec![]),
    ]
    .boxed()
}

/// grammar-aware mutation of a text format: a number replaced by an extreme magnitude, or a header line with such a number added
pub fn text_number() -> BoxedStrategy<Mut> {
    prop_oneof![
        3 => (any::<u16>(), any::<bool>(), 0u8..NUMBERS.len() as u8).prop_map(|(sel, hex, val)| Mut::Number { sel, hex, val }),
        // the first numbers of a file are its header fields
        2 => (0u16..=2000, any::<bool>(), 0u8..NUMBERS.len() as u8).prop_map(|(sel, hex, val)| Mut::Number { sel, hex, val }),
        3 => (prop_oneof![Just(0u16), Just(u16::MAX), any::<u16>()], 0u8..HEADER_LINES.len() as u8, 0u8..NUMBERS.len() as u8).prop_map(|(at, kind, val)| Mut::HeaderLine { at, kind, val }),
    ]
    .boxed()
}

/// payloads of a continuation record: nothing, one byte, a few cells (short, long, invisible, end of line), picture bytes
pub fn continuation_payload() -> BoxedStrategy<Vec<u8>> {
    prop_oneof![
        2 => Just(vec![]),
        1 => any::<u8>().prop_map(|b| vec![b]),
        3 => vec(prop_oneof![
            Just(vec![0x07, 0x40, b'a', 7, 0, 0]),
            Just(vec![0x01, 0x00, 0x88, 0x25, 0, 0, 44, 1, 0, 0, 2, 0, 0, 0, 1, 0]),
            Just(vec![0x00, 0x80]),
            Just(vec![0x00, 0xC0]),
        ], 1..=6).prop_map(|v| v.concat()),
        2 => vec(any::<u8>(), 1..=24),
    ]
    .boxed()
}

/// mutation of a record inside an IcyDraw container
pub fn inner() -> BoxedStrategy<Inner> {
    let m = prop_oneof![3 => field(), 3 => any::<u16>().prop_map(Mut::Trunc), 1 => (1u8..=40).prop_map(Mut::ChopTail), 3 => set(), 3 => word(), 1 => splice(), 2 => text_number()];
    prop_oneof![
        // a continuation record for layer 0..=4 (existing or not, of either role), mostly in front of the END record
        5 => (prop_oneof![4 => Just(1u8), 1 => 0u8..=5], 0u8..=4, 1u8..=2, continuation_payload())
            .prop_map(|(back, layer, k, data)| Inner::Insert { back, key: format!("LAYER_{layer}~{k}"), data: Bytes(data) }),
        12 => (any::<u16>(), m).prop_map(|(chunk, m)| Inner::Payload { chunk, m }),
        2 => (any::<u16>(), 0u8..14).prop_map(|(chunk, name)| Inner::Rename { chunk, name }),
        1 => any::<u16>().prop_map(|chunk| Inner::Drop { chunk }),
        2 => (any::<u16>(), 0u8..14).prop_map(|(chunk, name)| Inner::Dup { chunk, name }),
        1 => (any::<u16>(), any::<u16>()).prop_map(|(a, b)| Inner::Swap { a, b }),
    ]
    .boxed()
}
