//! Golden files: written by the engine's own writers (Buffer::to_bytes, BitFont::to_psf2_bytes, TheDrawFont::as_tdf_bytes,
//! Palette::export_palette) from a fixed list of small documents, computed once per process and per group.
use base64::{engine::general_purpose, Engine};
use icy_engine::{
    AttributedChar, BitFont, Buffer, BufferType, Color, FontGlyph, FontType, IceMode, Layer, Palette, PaletteFormat, Position, Role, SauceData, SauceString, SaveOptions,
    ScreenPreperation, Sixel, Size, TextAttribute, TheDrawFont,
};
use icyv::util::Bytes;
use serde::{Deserialize, Serialize};
use std::sync::OnceLock;

pub struct Golden {
    pub tag: String,
    pub bytes: Vec<u8>,
}

// golden groups
pub const G_ANS: usize = 0;
pub const G_ICY: usize = 1;
pub const G_IDF: usize = 2;
pub const G_BIN: usize = 3;
pub const G_XB: usize = 4;
pub const G_TND: usize = 5;
pub const G_PCB: usize = 6;
pub const G_AVT: usize = 7;
pub const G_ASC: usize = 8;
pub const G_ADF: usize = 9;
pub const G_MSG: usize = 10;
pub const G_AN1: usize = 11;
pub const G_SEQ: usize = 12;
pub const G_ATA: usize = 13;
pub const G_SAUCE: usize = 14;
pub const G_FONT: usize = 15;
pub const G_TDF: usize = 16;
pub const G_PAL_ICE: usize = 17;
pub const G_PAL_HEX: usize = 18;
pub const G_PAL_PAL: usize = 19;
pub const G_PAL_GPL: usize = 20;
pub const G_PAL_TXT: usize = 21;
pub const N_GROUPS: usize = 22;

/// writer extension of the buffer groups
const WRITER_EXT: [&str; 14] = ["ans", "icy", "idf", "bin", "xb", "tnd", "pcb", "avt", "asc", "adf", "msg", "an1", "seq", "ata"];

static GROUPS: [OnceLock<Vec<Golden>>; N_GROUPS] = [const { OnceLock::new() }; N_GROUPS];

pub fn group(g: usize) -> &'static [Golden] {
    GROUPS[g].get_or_init(|| build_group(g))
}

struct Lcg(u32);
impl Lcg {
    fn next(&mut self) -> u32 {
        self.0 = self.0.wrapping_mul(1664525).wrapping_add(1013904223);
        self.0 >> 8
    }
}

struct Doc {
    tag: &'static str,
    w: i32,
    h: i32,
    ice: bool,
    pal: bool,
    /// 0 = default font, 1 = one custom font, 2 = two fonts (pages 0 and 1)
    fonts: u8,
    font_h: u8,
    seed: u32,
    /// per cent of cells that are set
    fill: u32,
    /// characters are drawn from 0..32 (control characters; Tundra 1..6, EOF 0x1A, ESC)
    ctrl: bool,
    /// add an image layer with a small sixel
    image: bool,
    /// add a second text layer (only IcyDraw keeps it)
    layer2: bool,
}

const fn doc(tag: &'static str, w: i32, h: i32, seed: u32, fill: u32) -> Doc {
    Doc { tag, w, h, ice: false, pal: false, fonts: 0, font_h: 16, seed, fill, ctrl: false, image: false, layer2: false }
}

const DOCS: [Doc; 9] = [
    doc("80x3", 80, 3, 1, 30),
    Doc { ice: true, pal: true, ..doc("40x5+ice+palette", 40, 5, 2, 40) },
    Doc { fonts: 1, font_h: 14, ..doc("80x2+font8x14", 80, 2, 3, 30) },
    Doc { fonts: 2, ..doc("80x2+two_fonts", 80, 2, 4, 30) },
    doc("1x1", 1, 1, 5, 100),
    doc("80x25_empty", 80, 25, 6, 0),
    Doc { image: true, layer2: true, ..doc("20x4+image+layer", 20, 4, 7, 50) },
    Doc { ctrl: true, ..doc("80x2+control_chars", 80, 2, 8, 40) },
    Doc { ice: true, fonts: 1, font_h: 8, pal: true, ..doc("160x2+ice+font8x8+palette", 160, 2, 9, 20) },
];

fn custom_font(name: &str, h: u8, seed: u32) -> BitFont {
    let mut r = Lcg(seed);
    let data: Vec<u8> = (0..256 * h as usize).map(|_| r.next() as u8).collect();
    BitFont::create_8(name, 8, h, &data)
}

fn sauce(kind: u8, w: i32, h: i32) -> SauceData {
    let mut s = SauceData::default();
    s.title = SauceString::from("c02 golden title");
    s.author = SauceString::from("icyv");
    s.group = SauceString::from("verif");
    let n = match kind {
        2 => 2,
        3 => 255,
        _ => 0,
    };
    s.comments = (0..n).map(|i| SauceString::from(format!("comment line {i}"))).collect();
    s.buffer_size = Size::new(w, h);
    s
}

fn build_doc(d: &Doc, sauce_kind: u8, g: usize) -> Buffer {
    let mut buf = Buffer::new((d.w, d.h));
    buf.is_terminal_buffer = false;
    buf.ice_mode = if d.ice { IceMode::Ice } else { IceMode::Blink };
    // the ArtWorx and IceDraw writers only take ice-mode documents with a 16 colour palette
    let ice16 = g == G_ADF || g == G_IDF;
    if ice16 {
        buf.ice_mode = IceMode::Ice;
        buf.palette = Palette::dos_default();
    }
    if g == G_SEQ {
        buf.buffer_type = BufferType::Petscii;
    }
    if g == G_ATA {
        buf.buffer_type = BufferType::Atascii;
    }
    if d.pal {
        let mut r = Lcg(d.seed ^ 0x55);
        let cols: Vec<Color> = (0..16).map(|_| Color::new((r.next() as u8) & 0xFC, (r.next() as u8) & 0xFC, (r.next() as u8) & 0xFC)).collect();
        buf.palette = Palette::from_slice(&cols);
    }
    if d.fonts > 0 {
        buf.clear_font_table();
        for p in 0..d.fonts as usize {
            buf.set_font(p, custom_font(&format!("c02 font {p}"), d.font_h, d.seed + p as u32));
        }
    }
    let mut r = Lcg(d.seed);
    for y in 0..d.h {
        for x in 0..d.w {
            if r.next() % 100 >= d.fill {
                continue;
            }
            let ch = if d.ctrl { (r.next() % 32) as u8 } else { (r.next() % 256) as u8 };
            let fg = r.next() % if d.fonts == 2 { 8 } else { 16 };
            let bg = r.next() % if d.ice || ice16 { 16 } else { 8 };
            let mut a = TextAttribute::new(fg, bg);
            if !d.ice && !ice16 && r.next() % 8 == 0 {
                a.set_is_blinking(true);
            }
            if d.fonts == 2 {
                a.set_font_page((r.next() % 2) as usize);
            }
            buf.layers[0].set_char((x, y), AttributedChar::new(ch as char, a));
        }
    }
    if d.layer2 {
        let mut l = Layer::new("second", (5, 2));
        l.set_offset((3, 1));
        l.set_char((0, 0), AttributedChar::new('x', TextAttribute::new(3, 1)));
        l.set_char((4, 1), AttributedChar::new('\u{00DB}', TextAttribute::new(7, 2)));
        buf.layers.push(l);
    }
    if d.image {
        let mut l = Layer::new("image", (2, 1));
        l.role = Role::Image;
        l.set_offset((1, 1));
        let mut r = Lcg(d.seed ^ 0xAA);
        let px: Vec<u8> = (0..12 * 6 * 4).map(|_| r.next() as u8).collect();
        let mut six = Sixel::from_data((12, 6), 1, 1, px);
        six.position = Position::new(1, 1);
        l.sixels.push(six);
        buf.layers.push(l);
    }
    if sauce_kind > 0 {
        buf.set_sauce(Some(sauce(sauce_kind, d.w, d.h)), false);
    }
    buf
}

fn opts(variant: u8, save_sauce: bool) -> SaveOptions {
    let mut o = SaveOptions::new();
    o.save_sauce = save_sauce;
    match variant {
        1 => {
            o.compress = false;
            o.preserve_line_length = true;
            o.use_cursor_forward = false;
        }
        2 => {
            o.use_repeat_sequences = true;
            o.longer_terminal_output = true;
            o.screen_preparation = ScreenPreperation::ClearScreen;
        }
        3 => {
            o.modern_terminal_output = true;
            o.lossles_output = true;
        }
        _ => {}
    }
    o
}

fn buffer_group(g: usize) -> Vec<Golden> {
    let ext = WRITER_EXT[g];
    let mut out = Vec::new();
    let mut push = |d: &Doc, sauce_kind: u8, variant: u8| {
        let buf = build_doc(d, sauce_kind, g);
        // a writer that refuses a document (two fonts in Tundra, no writer for seq ...) contributes nothing
        let r = icyv::panics::guarded(|| buf.to_bytes(ext, &opts(variant, sauce_kind > 0)));
        match r {
            Ok(Ok(bytes)) => out.push(Golden { tag: format!("{ext}:{}:sauce{sauce_kind}:opt{variant}", d.tag), bytes }),
            Ok(Err(e)) => {
                if std::env::var("ICYV_C02_DEBUG").is_ok() {
                    eprintln!("[c02] no golden {ext}:{}: {e}", d.tag);
                }
            }
            Err((sig, _)) => {
                if std::env::var("ICYV_C02_DEBUG").is_ok() {
                    eprintln!("[c02] no golden {ext}:{}: writer panicked: {sig}", d.tag);
                }
            }
        }
    };
    for (i, d) in DOCS.iter().enumerate() {
        push(d, 0, 0);
        push(d, 2, 1);
        if i == 0 {
            push(d, 1, 0);
            push(d, 0, 1);
            if g == G_ANS {
                push(d, 0, 2);
                push(d, 1, 3);
            }
        }
    }
    out
}

fn sauce_group() -> Vec<Golden> {
    let mut out = Vec::new();
    for (ext, kind) in [("ans", 1u8), ("ans", 2), ("ans", 3), ("bin", 1), ("xb", 2), ("asc", 1), ("tnd", 2), ("pcb", 1)] {
        let buf = build_doc(&DOCS[0], kind, G_SAUCE);
        if let Ok(Ok(bytes)) = icyv::panics::guarded(|| buf.to_bytes(ext, &opts(0, true))) {
            // the SAUCE API is fed whole files and bare trailers
            let n = match kind {
                2 => 128 + 5 + 2 * 64 + 1,
                3 => 128 + 5 + 255 * 64 + 1,
                _ => 129,
            };
            if bytes.len() >= n {
                out.push(Golden { tag: format!("sauce:{ext}:trailer{kind}"), bytes: bytes[bytes.len() - n..].to_vec() });
                out.push(Golden { tag: format!("sauce:{ext}:record_only{kind}"), bytes: bytes[bytes.len() - (n - 1)..].to_vec() });
            }
            if kind != 3 {
                out.push(Golden { tag: format!("sauce:{ext}:file{kind}"), bytes });
            }
        }
    }
    out
}

fn font_group() -> Vec<Golden> {
    let mut out = Vec::new();
    let mut psf2 = |tag: &str, f: &BitFont| {
        if let Ok(Ok(bytes)) = icyv::panics::guarded(|| f.to_psf2_bytes()) {
            out.push(Golden { tag: format!("psf2:{tag}"), bytes });
        }
    };
    psf2("default8x16", &BitFont::default());
    psf2("custom8x8", &custom_font("c", 8, 11));
    psf2("custom8x1", &custom_font("c", 1, 12));
    psf2("custom8x32", &custom_font("c", 32, 13));
    // shipped fonts
    out.push(Golden { tag: "shipped:cp437.psf".into(), bytes: icy_engine::CP437.to_vec() });
    out.push(Golden { tag: "shipped:atari.psf".into(), bytes: icy_engine::ATARI.to_vec() });
    out.push(Golden { tag: "shipped:cp1251.f16(raw)".into(), bytes: icy_engine::CP1251.to_vec() });
    out.push(Golden { tag: "shipped:ibm_vga50.psf".into(), bytes: icy_engine::IBM_VGA50_SAUCE.to_vec() });
    // PSF1 (no writer in the engine): magic 36 04, mode, charsize, glyphs
    let mut r = Lcg(21);
    for (mode, h) in [(0u8, 16u8), (1, 8), (0, 1)] {
        let n = if mode & 1 == 1 { 512 } else { 256 };
        let mut b = vec![0x36, 0x04, mode, h];
        b.extend((0..n * h as usize).map(|_| r.next() as u8));
        out.push(Golden { tag: format!("psf1:mode{mode}:8x{h}"), bytes: b });
    }
    // raw 8x8
    out.push(Golden { tag: "raw:8x8".into(), bytes: (0..256 * 8).map(|_| r.next() as u8 | 1).collect() });
    out
}

fn tdf_group() -> Vec<Golden> {
    let mut out = Vec::new();
    let mut r = Lcg(31);
    let mut fonts = Vec::new();
    for (name, ty) in [("OUTL", FontType::Outline), ("BLOCK", FontType::Block), ("COLOR", FontType::Color)] {
        let mut f = TheDrawFont::new(name, ty, 2);
        for ch in ['A', 'B', '!', '~', 'z'] {
            let (w, h) = (1 + r.next() % 6, 1 + r.next() % 4);
            let mut data = Vec::new();
            for y in 0..h {
                for _ in 0..w {
                    let c = match ty {
                        FontType::Outline => b"ABCDEFGHIJKLMNOPQ@ &"[(r.next() % 20) as usize],
                        _ => 0x20 + (r.next() % 200) as u8,
                    };
                    data.push(c);
                    if matches!(ty, FontType::Color) {
                        data.push(1 + (r.next() % 255) as u8);
                    }
                }
                if y + 1 < h {
                    data.push(13);
                }
            }
            f.set_glyph(ch, FontGlyph { size: Size::new(w as i32, h as i32), data });
        }
        if let Ok(Ok(bytes)) = icyv::panics::guarded(|| f.as_tdf_bytes()) {
            out.push(Golden { tag: format!("tdf:synthetic:{name}"), bytes });
        }
        fonts.push(f);
    }
    if let Ok(Ok(bytes)) = icyv::panics::guarded(|| TheDrawFont::create_font_bundle(&fonts)) {
        out.push(Golden { tag: "tdf:synthetic:bundle3".into(), bytes });
    }
    // the shipped font bundle, whole and re-serialised font by font
    if let Ok(bytes) = std::fs::read(format!("{}/src/tdf_font/CODERX.TDF", icyv::panics::repo_dir())) {
        if let Ok(Ok(list)) = icyv::panics::guarded(|| TheDrawFont::from_tdf_bytes(&bytes)) {
            for (i, f) in list.iter().enumerate().take(3) {
                if let Ok(Ok(b)) = icyv::panics::guarded(|| f.as_tdf_bytes()) {
                    out.push(Golden { tag: format!("tdf:CODERX:font{i}"), bytes: b });
                }
            }
            if list.len() >= 2 {
                if let Ok(Ok(b)) = icyv::panics::guarded(|| TheDrawFont::create_font_bundle(&list[..2])) {
                    out.push(Golden { tag: "tdf:CODERX:bundle2".into(), bytes: b });
                }
            }
        }
        out.push(Golden { tag: "tdf:CODERX.TDF".into(), bytes });
    }
    out
}

pub fn palette_format(g: usize) -> PaletteFormat {
    match g {
        G_PAL_ICE => PaletteFormat::Ice,
        G_PAL_HEX => PaletteFormat::Hex,
        G_PAL_PAL => PaletteFormat::Pal,
        G_PAL_GPL => PaletteFormat::Gpl,
        _ => PaletteFormat::Txt,
    }
}

fn palette_group(g: usize) -> Vec<Golden> {
    let mut out = Vec::new();
    let mut pals: Vec<(&str, Palette)> = vec![("dos", Palette::dos_default()), ("empty", Palette::from_slice(&[]))];
    let mut c3 = vec![Color::new(1, 2, 3), Color::new(255, 255, 255), Color::new(0, 128, 7)];
    c3[1].name = Some("white".to_string());
    let mut p3 = Palette::from_slice(&c3);
    p3.title = "three".into();
    p3.author = "icyv".into();
    p3.description = "a description".into();
    pals.push(("three+meta", p3));
    let mut r = Lcg(41);
    let c256: Vec<Color> = (0..256).map(|_| Color::new(r.next() as u8, r.next() as u8, r.next() as u8)).collect();
    pals.push(("256", Palette::from_slice(&c256)));
    for (tag, p) in pals {
        if let Ok(bytes) = icyv::panics::guarded(|| p.export_palette(&palette_format(g))) {
            out.push(Golden { tag: format!("palette{g}:{tag}"), bytes });
        }
    }
    out
}

fn build_group(g: usize) -> Vec<Golden> {
    match g {
        0..=13 => buffer_group(g),
        G_SAUCE => sauce_group(),
        G_FONT => font_group(),
        G_TDF => tdf_group(),
        _ => palette_group(g),
    }
}

// ------------------------------------------------------------------------------------------------ IcyDraw containers

/// one zTXt chunk of an IcyDraw file: keyword + the record that the file stores base64-encoded
#[derive(Clone, Debug, Hash, Serialize, Deserialize, PartialEq)]
pub struct Chunk {
    pub key: String,
    pub data: Bytes,
}

/// the zTXt records of an IcyDraw file (standard PNG reader; stops at the image data)
pub fn unwrap_icy(file: &[u8]) -> Vec<Chunk> {
    let mut out = Vec::new();
    let dec = png::Decoder::new(file);
    if let Ok(reader) = dec.read_info() {
        for c in &reader.info().compressed_latin1_text {
            if let Ok(text) = c.get_text() {
                if let Ok(data) = general_purpose::STANDARD.decode(text) {
                    out.push(Chunk { key: c.keyword.clone(), data: Bytes(data) });
                }
            }
        }
    }
    out
}

/// a minimal IcyDraw container (1x1 image) around the given records
pub fn wrap_icy(chunks: &[Chunk]) -> Vec<u8> {
    let mut out = Vec::new();
    {
        let mut enc = png::Encoder::new(&mut out, 1, 1);
        enc.set_color(png::ColorType::Rgba);
        enc.set_depth(png::BitDepth::Eight);
        enc.set_compression(png::Compression::Fast);
        for c in chunks {
            if c.key.is_empty() || c.key.len() > 79 || !c.key.chars().all(|ch| (ch as u32) < 256) {
                continue;
            }
            let _ = enc.add_ztxt_chunk(c.key.clone(), general_purpose::STANDARD.encode(&c.data.0));
        }
        if let Ok(mut w) = enc.write_header() {
            let _ = w.write_image_data(&[0, 0, 0, 0]);
            let _ = w.finish();
        }
    }
    out
}

static ICY_CHUNKS: OnceLock<Vec<Vec<Chunk>>> = OnceLock::new();

pub fn icy_chunks(idx: usize) -> &'static [Chunk] {
    let all = ICY_CHUNKS.get_or_init(|| group(G_ICY).iter().map(|g| unwrap_icy(&g.bytes)).collect());
    if all.is_empty() {
        &[]
    } else {
        &all[idx.min(all.len() - 1)]
    }
}
