//! C20 — RIPscrip and IGS command streams never crash or stall the engine.
//!
//! Every case is a stream of *segments* (one command with its parameters and terminator, or a piece of plain text).
//! The parsers are built the way icy_term builds them; the stream is fed character by character to `print_char`, the
//! pending actions are drained through `get_next_action` after every character, the pixel canvas is read back.
//! Each case runs in a forked child of the engine's worker process, so that an abort, a CPU overrun or a sleep is
//! charged to the command that was executing (failure keys are per emulation + command letter, never per value).
mod common;
mod igs;
mod rip;

use common::{spread_multiplier, Known};
use icyv::{Engine, PartCfg};
use std::sync::Arc;

/// The keys of the findings listed as open for C20 in $ICYV_VERIF/known_findings.json (read-only). The driver looks
/// behind failures with these keys: the failing command is taken out and the rest of the stream is evaluated, so that a
/// recorded defect does not hide the commands behind it. (`Engine::finding_open` answers per id; the driver needs the keys.)
fn open_finding_keys() -> Known {
    let dir = std::env::var("ICYV_VERIF").unwrap_or_else(|_| "/verif".to_string());
    let mut exact = Vec::new();
    let mut prefixes = Vec::new();
    if let Ok(txt) = std::fs::read_to_string(std::path::Path::new(&dir).join("known_findings.json")) {
        if let Ok(v) = icyv::serde_json::from_str::<icyv::serde_json::Value>(&txt) {
            for f in v["findings"].as_array().cloned().unwrap_or_default() {
                if f["property"] != "C20" || f["status"] != "open" {
                    continue;
                }
                if let Some(k) = f["key"].as_str() {
                    exact.push(k.to_string());
                }
                if let Some(k) = f["key_prefix"].as_str() {
                    prefixes.push(k.to_string());
                }
                for k in f["keys"].as_array().cloned().unwrap_or_default() {
                    if let Some(k) = k.as_str() {
                        exact.push(k.to_string());
                    }
                }
            }
        }
    }
    Known { exact, prefixes }
}

fn main() {
    let _ = std::fs::create_dir_all(rip::CACHE_DIR);
    let mut eng = Engine::new("C20");
    eng.rule(
        "A case is a stream of segments (one command with parameters and terminator, or plain text) for one emulation, fed char by char to print_char on an 80x25 terminal buffer, \
         get_next_action drained after every char (a loop is followed for 100 steps), get_picture_data read back (RIP: at the end; IGS: after every segment). Parsers are built as icy_term builds them \
         (rip::Parser over ansi::Parser with an empty cache directory; igs::Parser over DrawExecutor). \
         rip_table (exhaustive): 54 commands of the level-0/1/9 tables x {fresh, state-setting preamble} x every parameter string over {0,1,Z} of length 0..=6 (thorough: 0..=8), 9 periodic patterns for every longer length up to 40, and for the lengths 8 and 10 (thorough: 10 and 12) all strings of two-digit fields over {00,0Z,ZZ}. \
         igs_table (exhaustive): 46 letters + unknown + '&' x {fresh, preamble} x 0..=12 parameters x value patterns over {0,1,3,8,200,40000} (uniform, selector+uniform, ramps, point counts, one or two large positions). \
         igs_loops (exhaustive): '&' over every letter x (4 small ranges incl. step 0 x 8 parameter styles (x, y, +n, -n, !n, mixed; -n and !n make every parameter of every command negative) + range 0..40001 step 40000 x {x, y}) x 3 declared counts x {fresh, preamble}. \
         rip_pairs / igs_pairs (exhaustive): every state-setting command with each of its selector values (fonts x direction x size, write modes, line and fill styles, button styles x label orientation, \
         viewports in / across / outside the canvas, palettes, saved images; IGS: fill attributes, pens incl. numbers > 15, marker and line types, drawing modes, text effects, resolution, initialise, grabbed blocks) \
         followed by every drawing command with ordinary in-canvas parameters. \
         rip_text / igs_text (exhaustive): every command with a text part (RIP: T @ $ 1M 1t 1W 1I 1U 1D 1ESC 1R 1F 9ESC; IGS: W N X < and plain text) x {fresh, preamble} x text lengths \
         {0,1,2,127,128,129,130,255,256,257,260,1000} x filler alphabets {ASCII, Latin-1 letters, characters above U+00FF, control characters, the emulation's own terminator / escape / separator characters} \
         x {as is, one ASCII character in front}. Texts are sequences of chars (not bytes); the random parts draw the same kind of long texts in 1 of 10 text positions. \
         rip_buttons (exhaustive): RIP_BUTTON_STYLE with label orientation 02 and {no flag, every single bit of both flag fields, all bits, every pair with the underline-hot-key bit, each also with the highlight-hot-key bit} x sizes / bevel {default,0,1,max} x 6 (hot key, text) pairs, \
         plus 8 flag sets around the hot-key bits x hot key {0,'A','x','#',0x7F,0x80,0xE9,0xFF,ZZ} x label {ASCII, Latin-1 with those hot keys, above U+00FF, empty, text variable, single e-acute} x 9 text layouts (0..=4 `<>` separators, icon / host-command slots empty and filled). \
         rip_styles (exhaustive): font 0..=11 x direction x size {1,4,10} x write mode 0..=4 x {T, @ near the lower right corner} x 5 alphabets x {3, 130 characters}. \
         rip_lists / igs_lists (exhaustive): count fields with the lists they announce, written out in full with in-canvas coordinates: RIP P / p / l with npoints {0,1,2,511,512,513,1024,ZZ} x {as announced, one point short, one more, twice as many, none} \
         x continuation lines {none, every 76 / 40 / 4 characters} x {fresh, preamble}; IGS f / z with point counts {0,1,2,127,128,129,256,512,99999} and & loops with declared counts {0..5,8,2047,2048,2049,99999}, same completeness classes (lists capped at 2300 numbers), \
         line breaks {none, CR LF, underscore CR LF} before every 8th number. The random parts insert such lists now and then. \
         rip_fill_states / igs_fill_states (exhaustive): canvas preparations {fresh; filled box / outline or line / ellipse in pens incl. 0 and the background pen, placed inside, touching each edge and corner, crossing the lower / right edge, \
         covering the screen and more; the same after a viewport (RIP) / resolution (IGS) change} x fill colour {0,(1),2,15} x fill pattern {solid, pattern} x {flood fill from 13 seed points (inside, just outside, every edge row / column, the corners, \
         one beyond the lower and the right edge; RIP: border = the shape's pen or an absent colour), get / put / copy of the shape in replace and XOR mode followed by a fill}. The random parts insert such prepare-choose-fill groups, button style (random flag bits) + button groups and font / write mode / text groups (about 1 group in 5 is one of these). \
         rip_random / igs_random: 1..=10 segments, fields from {0,1,small,canvas edges,max,random}, truncated / over-long / punctuated / lower-case parameter lists, continuation lines, text variables, \
         unknown commands, plain text and ANSI between commands, chained and line-separated commands, loops with chain-gang targets, signed and empty IGS parameters up to 99999. \
         Oracles: no panic (key = panic signature); no abort (abort|signal|family); one command <= 0.5 s CPU per 64 bytes (work.cpu|family; a segment is killed after 0.8 s CPU); no sleeping \
         (stall.sleep|family: >150 ms neither running nor runnable, 3 runs); no Pause action above 30 s (stall.pause|family); loops end (loop.endless / loop.overrun); canvas data length = 4*w*h (canvas.size|family). family = emulation|command letter. \
         A panicking command is removed and the rest of the stream evaluated again, so defects behind a known one are still reported. \
         Non-trivial: at least one command was dispatched (RIP: the canvas changed hands, i.e. a command ran; IGS: a command terminator produced an action or an error, or a loop step ran); distinct by case hash.",
    );
    eng.assume("release profile semantics (overflow-checks off, debug-assertions off), as a user of the shipped crate sees it");
    eng.assume("CPU time of the child process is the work measure; 0.5 s per command is ~500x what a canvas-bounded command needs; work below that is invisible");
    eng.assume("the cache directory is empty: RIP icon/file commands find no file");
    eng.assume("a loop step executed through get_next_action is one command; a loop whose length follows from its from/to/step values is not a violation, one that never ends is");

    let known = Arc::new(open_finding_keys());
    eng.extra("look_behind_keys", icyv::serde_json::json!({"exact": known.exact, "prefixes": known.prefixes}));

    let iso = |name: &'static str, q: u64, t: u64| PartCfg::new(name, q, t).isolated().timeout_ms(120_000).hang_is_violation(true);

    // ---- RIP exhaustive
    let rtable = Arc::new(rip::Table::new(eng.is_thorough()));
    eng.extra("rip_table_full_enumeration_up_to_length", icyv::serde_json::json!(rtable.full_len));
    let total = rtable.total();
    let mult = spread_multiplier(total);
    let k1 = known.clone();
    eng.enumerated(iso("rip_table", 0, 0).exhaustive(true), total, move |i| rtable.case((i as u128 * mult as u128 % total as u128) as u64), move |c| rip::check(c, &k1));

    // ---- IGS exhaustive
    let table = Arc::new(igs::Table::new());
    let total = table.total();
    let mult = spread_multiplier(total);
    let k2 = known.clone();
    let t2 = table.clone();
    eng.enumerated(iso("igs_table", 0, 0).exhaustive(true), total, move |i| t2.case((i as u128 * mult as u128 % total as u128) as u64), move |c| igs::check(c, &k2));
    let total = igs::loops_total();
    let mult = spread_multiplier(total);
    let k3 = known.clone();
    eng.enumerated(iso("igs_loops", 0, 0).exhaustive(true), total, move |i| igs::loops_case(i * mult % total), move |c| igs::check(c, &k3));

    // ---- state x drawing command pairs
    let rp = Arc::new(rip::Pairs::new());
    let total = rp.total();
    let mult = spread_multiplier(total);
    let k6 = known.clone();
    eng.enumerated(iso("rip_pairs", 0, 0).exhaustive(true), total, move |i| rp.case(i * mult % total), move |c| rip::check(c, &k6));
    let ip = Arc::new(igs::Pairs::new());
    let total = ip.total();
    let mult = spread_multiplier(total);
    let k7 = known.clone();
    eng.enumerated(iso("igs_pairs", 0, 0).exhaustive(true), total, move |i| ip.case(i * mult % total), move |c| igs::check(c, &k7));

    // ---- text dimension
    let rt = Arc::new(rip::Texts::new());
    let total = rt.total();
    let mult = spread_multiplier(total);
    let k8 = known.clone();
    eng.enumerated(iso("rip_text", 0, 0).exhaustive(true), total, move |i| rt.case(i * mult % total), move |c| rip::check(c, &k8));
    let total = igs::texts_total();
    let mult = spread_multiplier(total);
    let k9 = known.clone();
    eng.enumerated(iso("igs_text", 0, 0).exhaustive(true), total, move |i| igs::texts_case(i * mult % total), move |c| igs::check(c, &k9));

    // ---- style-then-draw pairs: the flag bits of the style are a table dimension
    let rb = Arc::new(rip::Buttons::new());
    let total = rb.total();
    let mult = spread_multiplier(total);
    let k12 = known.clone();
    eng.enumerated(iso("rip_buttons", 0, 0).exhaustive(true), total, move |i| rb.case(i * mult % total), move |c| rip::check(c, &k12));
    let total = rip::styles_total();
    let mult = spread_multiplier(total);
    let k13 = known.clone();
    eng.enumerated(iso("rip_styles", 0, 0).exhaustive(true), total, move |i| rip::styles_case(i * mult % total), move |c| rip::check(c, &k13));

    // ---- count fields with the lists they announce
    let total = rip::lists_total();
    let mult = spread_multiplier(total);
    let k14 = known.clone();
    eng.enumerated(iso("rip_lists", 0, 0).exhaustive(true), total, move |i| rip::lists_case(i * mult % total), move |c| rip::check(c, &k14));
    let total = igs::lists_total();
    let mult = spread_multiplier(total);
    let k15 = known.clone();
    eng.enumerated(iso("igs_lists", 0, 0).exhaustive(true), total, move |i| igs::lists_case(i * mult % total), move |c| igs::check(c, &k15));

    // ---- content-dependent commands on prepared canvases
    let total = rip::fill_states_total();
    let mult = spread_multiplier(total);
    let k10 = known.clone();
    eng.enumerated(iso("rip_fill_states", 0, 0).exhaustive(true), total, move |i| rip::fill_states_case(i * mult % total), move |c| rip::check(c, &k10));
    let total = igs::fill_states_total();
    let mult = spread_multiplier(total);
    let k11 = known.clone();
    eng.enumerated(iso("igs_fill_states", 0, 0).exhaustive(true), total, move |i| igs::fill_states_case(i * mult % total), move |c| igs::check(c, &k11));

    // ---- random streams (state carries over from command to command)
    let k4 = known.clone();
    eng.generated_min(iso("rip_random", 80_000, 3_000_000).shrink_budget(100), || rip::case_strategy(10), move |c| rip::check(c, &k4), |_| "rip|stream".to_string(), rip::minimize);
    let k5 = known.clone();
    eng.generated_min(iso("igs_random", 60_000, 1_200_000).shrink_budget(40), || igs::case_strategy(10), move |c| igs::check(c, &k5), |_| "igs|stream".to_string(), igs::minimize);
    eng.run();
}
