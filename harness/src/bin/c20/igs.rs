//! IGS (Instant Graphics and Sound, Atari ST) side of C20: command table (doc/IG219.TXT), stream model, renderer,
//! executor, enumerations and random strategy.
use crate::common::{drive, grid_text, push_ascii, Fail, Known, Reporter, Run, SegInfo, Stopwatch, Text, ALPHABETS, IDX_PICTURE, IDX_SETUP, MAX_PAUSE_MS, TEXT_LENGTHS};
use icy_engine::{igs, BufferParser, CallbackAction};
use icyv::proptest::collection::vec;
use icyv::proptest::prelude::*;
use icyv::util::pick;
use icyv::{alloc, panics, stream, Verdict};
use serde::{Deserialize, Serialize};
use std::sync::{Arc, Mutex};

/// (command letter, number of parameters the document gives it; 0 = variable)
pub const IGS_CMDS: &[(u8, u8)] = &[
    (b'A', 3),
    (b'b', 1),
    (b'B', 5),
    (b'C', 2),
    (b'D', 2),
    (b'E', 3),
    (b'F', 2),
    (b'f', 0),
    (b'g', 1),
    (b'G', 0),
    (b'q', 1),
    (b'H', 1),
    (b'I', 1),
    (b'J', 6),
    (b'k', 1),
    (b'K', 5),
    (b'L', 4),
    (b'z', 0),
    (b'M', 1),
    (b'n', 6),
    (b'N', 2),
    (b'O', 3),
    (b'P', 2),
    (b'Q', 4),
    (b'R', 2),
    (b's', 1),
    (b'S', 4),
    (b't', 1),
    (b'T', 3),
    (b'U', 5),
    (b'V', 5),
    (b'W', 2),
    (b'Y', 6),
    (b'Z', 4),
    (b'<', 3),
    (b'?', 1),
    (b'c', 2),
    (b'd', 1),
    (b'i', 2),
    (b'l', 1),
    (b'm', 2),
    (b'p', 2),
    (b'r', 1),
    (b'v', 1),
    (b'w', 1),
    (b'X', 2),
];

#[derive(Clone, Debug, Hash, Serialize, Deserialize)]
pub struct LoopTail {
    /// command identifier to loop (a letter, or the chain-gang form `>CL@`)
    pub target: String,
    /// character after the target: `,` or `|` (XOR stepping) or `@` (text)
    pub sep: u8,
    /// declared number of parameters
    pub count: String,
    /// parameter groups (separated by `:`), parameters separated by `,`; tokens like x, y, +5, -5, !5, 17
    pub groups: Vec<Vec<String>>,
}

/// One unit of an IGS stream: a command (`cmd` = letter, `&` = loop, need not be in the table) or plain text (`cmd` = 0).
#[derive(Clone, Debug, Hash, Serialize, Deserialize)]
pub struct IgsSeg {
    pub cmd: u8,
    /// `>` after the command letter
    pub gt: bool,
    /// parameters as sent, separated by `,` (for `&`: from, to, step, delay)
    pub params: Vec<String>,
    /// W: the text (sent as `,text@`); cmd 0: the plain text
    pub text: Text,
    /// 0 `:` and the next command is chained; 1 `:` LF; 2 `:` CR LF; 3 LF without `:` (unterminated)
    pub term: u8,
    pub lp: Option<LoopTail>,
}

#[derive(Clone, Debug, Hash, Serialize, Deserialize)]
pub struct IgsCase {
    /// 0 = fresh emulation; 1 = after the state-setting preamble (pattern fill with border, pens, line and marker
    /// style, XOR mode, text effects, hollow set, a line drawn, a 40x40 block grabbed to memory)
    pub prefix: u8,
    pub segs: Vec<IgsSeg>,
}

pub fn family(s: &IgsSeg) -> String {
    match s.cmd {
        0 => "igs|text".to_string(),
        b'&' => match &s.lp {
            // a loop over a table command: the command is part of the family
            Some(lp) if lp.target.len() == 1 && IGS_CMDS.iter().any(|d| d.0 == lp.target.as_bytes()[0]) => format!("igs|&{}", lp.target),
            _ => "igs|&".to_string(),
        },
        c if IGS_CMDS.iter().any(|d| d.0 == c) => format!("igs|{}", c as char),
        _ => "igs|?".to_string(),
    }
}

pub fn render_seg(s: &IgsSeg, sync: &mut bool, out: &mut Vec<char>) {
    if s.cmd == 0 {
        if *sync {
            out.push('\n');
        }
        out.extend_from_slice(&s.text);
        *sync = false;
        return;
    }
    if !*sync {
        push_ascii(out, b"G#");
    }
    out.push(s.cmd as char);
    if s.gt {
        out.push('>');
    }
    out.extend(s.params.join(",").chars());
    let mut colon = true;
    if let Some(lp) = &s.lp {
        out.push(',');
        out.extend(lp.target.chars());
        out.push(lp.sep as char);
        out.extend(lp.count.chars());
        out.push(',');
        let groups: Vec<String> = lp.groups.iter().map(|g| g.join(",")).collect();
        out.extend(groups.join(":").chars());
    } else if s.cmd == b'W' {
        // W: x,y,text@ (`@` ends the command)
        out.push(',');
        out.extend_from_slice(&s.text);
        out.push('@');
        colon = false;
    } else if !s.text.is_empty() {
        // other commands the document gives a data / text part (N, X, <): after the numbers
        out.push(',');
        out.extend_from_slice(&s.text);
    }
    match s.term {
        0 => {
            if colon {
                out.push(':');
            }
            *sync = true;
        }
        1 => {
            if colon {
                out.push(':');
            }
            out.push('\n');
            *sync = false;
        }
        2 => {
            if colon {
                out.push(':');
            }
            push_ascii(out, b"\r\n");
            *sync = false;
        }
        _ => {
            out.push('\n');
            *sync = false;
        }
    }
}

pub fn preamble() -> &'static [u8] {
    b"G#I>0:A>2,5,1:C>0,5:C>1,2:C>2,3:C>3,4:T>1,3,2:T>2,3,1:M>3:E>1,10,2:H>1:L>10,10,50,50:G>1,3,0,0,40,40:\n"
}

/// a terminal drains the pending actions after every character; the check follows a loop for this many steps
const DRAIN_CAP: u32 = 100;

/// number of steps the document gives a loop, if from/to/step are plain numbers: None = never ends (step 0)
fn loop_steps(s: &IgsSeg) -> Option<Option<u64>> {
    if s.cmd != b'&' || s.params.len() < 3 {
        return None;
    }
    let num = |t: &String| if !t.is_empty() && t.len() <= 6 && t.bytes().all(|b| b.is_ascii_digit()) { t.parse::<i64>().ok() } else { None };
    let (from, to, step) = (num(&s.params[0])?, num(&s.params[1])?, num(&s.params[2])?);
    if from == to {
        return Some(Some(0));
    }
    if step == 0 {
        return Some(None);
    }
    Some(Some(((to - from).unsigned_abs()).div_ceil(step as u64)))
}

fn run(prefix: u8, segs: &[IgsSeg], alive: &[usize], rep: &Reporter) -> Run {
    let mut out = Run::default();
    let cur = std::cell::Cell::new(usize::MAX - 1);
    let r = panics::guarded(|| {
        rep.at(IDX_SETUP);
        let exec: Arc<Mutex<Box<dyn igs::CommandExecutor>>> = Arc::new(Mutex::new(Box::new(igs::DrawExecutor::default())));
        let mut parser = igs::Parser::new(exec);
        let (mut buf, mut caret) = stream::make_terminal(80, 25, 1);
        if prefix == 1 {
            for b in preamble() {
                let _ = parser.print_char(&mut buf, 0, &mut caret, *b as char);
            }
        }
        let mut sync = false;
        let mut bytes = Vec::new();
        let mut canvas_ok = true;
        let mut cap = DRAIN_CAP;
        for &i in alive {
            cur.set(i);
            rep.at(i as u16);
            bytes.clear();
            let seg = &segs[i];
            render_seg(seg, &mut sync, &mut bytes);
            let steps_of_seg = loop_steps(seg);
            let sw = Stopwatch::start();
            let mut drain_sum = 0u64;
            let mut drain_max = 0u64;
            let mut hit_cap = false;
            let mut worst_pause = 0u32;
            for (bi, b) in bytes.iter().enumerate() {
                let res = parser.print_char(&mut buf, 0, &mut caret, *b);
                if let Ok(CallbackAction::Pause(ms)) = &res {
                    worst_pause = worst_pause.max(*ms);
                }
                if seg.cmd != 0 && matches!(*b, ':' | '@' | ',') {
                    match &res {
                        Ok(CallbackAction::NoUpdate) => {}
                        Ok(_) => out.executed = true,
                        Err(_) => out.executed = true,
                    }
                }
                if res.is_err() {
                    out.errs += 1;
                }
                // A terminal drains the pending actions (loop steps) after every character: poll until None. get_next_action
                // answers None both when nothing is pending and when a loop step ended with an error (the loop then goes on at
                // the next poll), so at the end of a loop segment it is polled once per step the document gives the loop (+2),
                // whatever the answers: all steps of a loop happen inside its own segment.
                let tolerant = bi + 1 == bytes.len() && steps_of_seg.is_some();
                let polls = if !tolerant {
                    cap
                } else {
                    match steps_of_seg {
                        Some(Some(n)) => (n + 2).min(cap as u64) as u32,
                        _ => cap,
                    }
                };
                let mut n = 0;
                while n < polls {
                    let t0 = alloc::cpu_us();
                    let a = parser.get_next_action(&mut buf, &mut caret, 0);
                    let dt = alloc::cpu_us().saturating_sub(t0);
                    drain_sum += dt;
                    drain_max = drain_max.max(dt);
                    n += 1;
                    match a {
                        Some(a) => {
                            out.executed = true;
                            if let CallbackAction::Pause(ms) = a {
                                worst_pause = worst_pause.max(ms);
                            }
                        }
                        None if !tolerant => break,
                        None => {}
                    }
                }
                if n == polls && polls > 0 {
                    let could_finish = tolerant && matches!(steps_of_seg, Some(Some(k)) if k + 2 <= cap as u64);
                    // all polls used: one more decides whether the loop is still producing actions
                    let still = parser.get_next_action(&mut buf, &mut caret, 0).is_some();
                    if still || !could_finish {
                        // the loop outlives the polls (or may: an error step answers None as well): stop following it. It stays pending
                        // in the parser, as under a terminal that stops polling, and the segments behind it are judged on their own.
                        hit_cap = still;
                        out.capped = out.capped || !still;
                        cap = 0;
                    }
                }
            }
            if worst_pause > MAX_PAUSE_MS {
                // a pause the terminal has to sit out is a stall as well; the command that computes it is to blame, looped or not
                let fam = family(seg).replace("igs|&", "igs|");
                out.fails.push((i, Fail { key: format!("stall.pause|{fam}"), msg: format!("segment {i} asks the terminal to pause for {worst_pause} ms (the document allows 30 s at most)") }));
            }
            let (cpu, blocked) = sw.stop();
            // CPU of one command: the segment without its drained loop steps, or the most expensive single step
            out.times.push((i, cpu.saturating_sub(drain_sum).max(drain_max), blocked));
            if hit_cap && !out.capped {
                // (only the first loop that outlives the cap is judged: it keeps running under the segments that follow)
                out.capped = true;
                match loop_steps(seg) {
                    Some(None) => out.fails.push((
                        i,
                        Fail { key: "loop.endless|igs|&".to_string(), msg: format!("loop with step 0 (from {} to {}) is still producing actions after {DRAIN_CAP} steps: it never ends", seg.params[0], seg.params[1]) },
                    )),
                    Some(Some(n)) if n + 2 < DRAIN_CAP as u64 => out.fails.push((
                        i,
                        Fail { key: "loop.overrun|igs|&".to_string(), msg: format!("loop from {} to {} step {} should take {n} steps but is still producing actions after {DRAIN_CAP}", seg.params[0], seg.params[1], seg.params[2]) },
                    )),
                    _ => {}
                }
            }
            // the pixel canvas the emulation exposes (a terminal reads it after every update)
            cur.set(usize::MAX);
            rep.at(IDX_PICTURE);
            if let Some((size, data)) = parser.get_picture_data() {
                let want = 4 * size.width.max(0) as usize * size.height.max(0) as usize;
                let ok = data.len() == want && size.width > 0 && size.height > 0;
                if !ok && canvas_ok {
                    out.fails.push((
                        i,
                        Fail { key: format!("canvas.size|{}", family(seg)), msg: format!("after segment {i}: get_picture_data reports {}x{} but delivers {} bytes (want {want})", size.width, size.height, data.len()) },
                    ));
                }
                canvas_ok = ok;
            }
            cur.set(i);
        }
    });
    if let Err((sig, msg)) = r {
        // a panic while reading the canvas is charged to the segment that was just executed
        let at = if cur.get() == usize::MAX { out.times.last().map(|t| t.0).unwrap_or(usize::MAX) } else { cur.get() };
        let what = if cur.get() == usize::MAX { "reading the canvas after" } else { "executing" };
        let fam = if at < segs.len() { family(&segs[at]) } else { "the set-up".to_string() };
        out.panic = Some((at, Fail { key: crate::common::normalise_panic_key(&sig), msg: format!("{msg} (while {what} {fam})") }));
    }
    out
}

/// initialise the engine's lazy tables in the worker process, so that the forked children inherit them
pub fn warm_up() {
    let _ = panics::guarded(|| {
        let exec: Arc<Mutex<Box<dyn igs::CommandExecutor>>> = Arc::new(Mutex::new(Box::new(igs::DrawExecutor::default())));
        let mut parser = igs::Parser::new(exec);
        let (mut buf, mut caret) = stream::make_terminal(80, 25, 1);
        for b in b"G#I>0:W>10,10,Hi@L>0,0,5,5:c>1,2:\n" {
            let _ = parser.print_char(&mut buf, 0, &mut caret, *b as char);
        }
        let _ = parser.get_picture_data();
    });
}

pub fn check(c: &IgsCase, known: &Known) -> Verdict {
    crate::common::warm_up_once();
    let fam_of = |i: u16| match i {
        IDX_PICTURE => "igs|picture".to_string(),
        IDX_SETUP => "igs|setup".to_string(),
        i => c.segs.get(i as usize).map(family).unwrap_or_else(|| "igs|?".to_string()),
    };
    crate::common::isolate(c, &fam_of, known, &|c: &IgsCase, rep, removed| {
        let infos: Vec<SegInfo> = c
            .segs
            .iter()
            .map(|s| {
                let mut b = Vec::new();
                let mut sy = true;
                render_seg(s, &mut sy, &mut b);
                SegInfo { fam: family(s), len: b.len() }
            })
            .collect();
        let label = if c.prefix == 0 { "igs" } else { "igs+preamble" };
        drive(&infos, removed, known, label, &mut |alive| run(c.prefix, &c.segs, alive, rep))
    })
}

// ---------------------------------------------------------------------------------------------------------
// enumerated part 1: every command letter x 0..=12 parameters x value patterns

/// beyond any canvas; LARGE^2 still fits an i32
pub const LARGE: u32 = 40_000;
const VALUES: [u32; 6] = [0, 1, 3, 8, 200, LARGE];

pub fn patterns(n: usize) -> Vec<Vec<u32>> {
    if n == 0 {
        return vec![vec![]];
    }
    let mut out: Vec<Vec<u32>> = Vec::new();
    for v in VALUES {
        out.push(vec![v; n]);
    }
    if n >= 2 {
        // first parameter as a selector, the rest uniform
        for first in 0..=4u32 {
            for rest in [0u32, 1, 3, 8, 200] {
                let mut p = vec![rest; n];
                p[0] = first;
                out.push(p);
            }
        }
    }
    out.push((0..n).map(|i| 10 * (i as u32 + 1)).collect());
    out.push((0..n).map(|i| 10 * (n - i) as u32).collect());
    if n >= 3 && n % 2 == 1 {
        // consistent point count for f / z
        let mut p: Vec<u32> = (0..n).map(|i| 10 * (i as u32 + 1)).collect();
        p[0] = ((n - 1) / 2) as u32;
        out.push(p);
    }
    for rest in [1u32, 200] {
        for i in 0..n {
            let mut p = vec![rest; n];
            p[i] = LARGE;
            out.push(p);
        }
    }
    for i in 0..n {
        for j in i + 1..n {
            let mut p = vec![1; n];
            p[i] = LARGE;
            p[j] = LARGE;
            out.push(p);
        }
    }
    out
}

pub struct Table {
    letters: Vec<u8>,
    lists: Vec<Vec<u32>>,
}

impl Table {
    pub fn new() -> Table {
        let mut letters: Vec<u8> = IGS_CMDS.iter().map(|d| d.0).collect();
        letters.push(b'x'); // not in the table
        letters.push(b'&'); // the loop command with plain numbers
        let mut lists = Vec::new();
        for n in 0..=12 {
            lists.extend(patterns(n));
        }
        Table { letters, lists }
    }
    pub fn total(&self) -> u64 {
        self.letters.len() as u64 * 2 * self.lists.len() as u64
    }
    pub fn case(&self, i: u64) -> IgsCase {
        let nl = self.lists.len() as u64;
        let ps = &self.lists[(i % nl) as usize];
        let rest = i / nl;
        let prefix = (rest % 2) as u8;
        let cmd = self.letters[(rest / 2) as usize];
        let text = if cmd == b'W' { Text::latin1(b"Hi") } else { Text::default() };
        let mut params: Vec<String> = ps.iter().map(|v| v.to_string()).collect();
        if matches!(cmd, b'f' | b'z') && params.len() >= 3 && params.len() % 2 == 1 {
            // the point count these two commands check: the patterns then apply to the coordinates
            params[0] = ((params.len() - 1) / 2).to_string();
        }
        IgsCase { prefix, segs: vec![IgsSeg { cmd, gt: true, params, text, term: 0, lp: None }] }
    }
}

// enumerated part 2: loops over every command letter

const LOOP_RANGES: [(u32, u32, u32); 5] = [(0, 4, 1), (4, 0, 2), (2, 2, 1), (0, 3, 0), (0, LARGE + 1, LARGE)];
const LOOP_STYLES: [&[&str]; 8] = [&["x"], &["y"], &["1"], &["+1"], &["-1"], &["!1"], &["x", "y", "+10", "3"], &["-100"]];
/// (range, style) combinations: the four small ranges with every style, the large range (x = 0 and LARGE) with x and y only
const N_COMBOS: usize = 4 * 8 + 2;

pub fn loops_total() -> u64 {
    (IGS_CMDS.len() * N_COMBOS * 3 * 2) as u64
}

pub fn loops_case(mut i: u64) -> IgsCase {
    let prefix = (i % 2) as u8;
    i /= 2;
    let cm = (i % 3) as usize;
    i /= 3;
    let combo = (i % N_COMBOS as u64) as usize;
    i /= N_COMBOS as u64;
    let (ri, si) = if combo < 32 { (combo / 8, combo % 8) } else { (4, combo - 32) };
    let style = LOOP_STYLES[si];
    let (from, to, step) = LOOP_RANGES[ri];
    let (letter, arity) = IGS_CMDS[i as usize];
    let arity = match letter {
        b'f' | b'z' => 5,
        b'G' => 4,
        _ => arity as usize,
    };
    // declared count: the arity, 0, or two groups
    let (count, ngroups) = match cm {
        0 => (arity, 1),
        1 => (0, 1),
        _ => (arity * 2, 2),
    };
    let mut groups = Vec::new();
    for g in 0..ngroups {
        let mut ps: Vec<String> = (0..arity).map(|k| style[(k + g) % style.len()].to_string()).collect();
        if matches!(letter, b'f' | b'z') && !ps.is_empty() {
            ps[0] = "2".to_string();
        }
        if letter == b'G' && !ps.is_empty() {
            ps[0] = "2".to_string();
        }
        groups.push(ps);
    }
    IgsCase {
        prefix,
        segs: vec![IgsSeg {
            cmd: b'&',
            gt: true,
            params: vec![from.to_string(), to.to_string(), step.to_string(), "0".to_string()],
            text: Text::default(),
            term: 0,
            lp: Some(LoopTail { target: (letter as char).to_string(), sep: b',', count: count.to_string(), groups }),
        }],
    }
}

// ---------------------------------------------------------------------------------------------------------
// pairs part: every attribute-setting command with every selector value, followed by every drawing command with
// ordinary in-canvas parameters (state-dependent defects, found deterministically)

fn mk(cmd: u8, params: &[u32], text: &[u8]) -> IgsSeg {
    IgsSeg { cmd, gt: true, params: params.iter().map(|v| v.to_string()).collect(), text: Text::latin1(text), term: 1, lp: None }
}

pub struct Pairs {
    setters: Vec<IgsSeg>,
    drawers: Vec<IgsSeg>,
    /// a few explicit pairs on top of the product
    extra: Vec<(IgsSeg, IgsSeg)>,
}

impl Pairs {
    pub fn new() -> Pairs {
        let mut s = Vec::new();
        for ty in 0..=4 {
            for idx in [0, 1, 5, 12, 24, 25] {
                for border in [0, 1] {
                    s.push(mk(b'A', &[ty, idx, border], b""));
                }
            }
        }
        for pen in 0..=3 {
            for col in [0, 1, 15, 16, 255] {
                s.push(mk(b'C', &[pen, col], b""));
            }
        }
        for ty in 1..=6 {
            for size in [1, 8] {
                s.push(mk(b'T', &[1, ty, size], b""));
            }
        }
        for ty in 1..=7 {
            for size in [1, 3] {
                s.push(mk(b'T', &[2, ty, size], b""));
            }
        }
        for m in 1..=4 {
            s.push(mk(b'M', &[m], b""));
        }
        for e in [[0, 8, 0], [1, 10, 1], [16, 20, 2], [0, 9, 3], [2, 18, 4]] {
            s.push(mk(b'E', &e, b""));
        }
        for h in [0, 1] {
            s.push(mk(b'H', &[h], b""));
        }
        for res in [0, 1] {
            for pal in 0..=2 {
                s.push(mk(b'R', &[res, pal], b""));
            }
        }
        for i in 0..=3 {
            s.push(mk(b'I', &[i], b""));
        }
        s.push(mk(b'G', &[1, 3, 0, 0, 40, 40], b""));
        s.push(mk(b'G', &[1, 3, 0, 0, 319, 199], b""));
        for g in 0..=2 {
            s.push(mk(b'g', &[g], b""));
        }
        for c in 0..=5 {
            s.push(mk(b's', &[c], b""));
        }
        s.push(mk(b'S', &[0, 7, 7, 7], b""));
        s.push(mk(b'S', &[15, 0, 0, 0], b""));
        for k in [0, 1] {
            s.push(mk(b'k', &[k], b""));
        }
        for q in 9995..=9999 {
            s.push(mk(b'q', &[q], b""));
        }
        let mut d = Vec::new();
        d.push(mk(b'B', &[10, 10, 100, 50, 0], b""));
        d.push(mk(b'B', &[10, 10, 100, 50, 1], b""));
        d.push(mk(b'D', &[100, 100], b""));
        d.push(mk(b'F', &[50, 50], b""));
        d.push(mk(b'f', &[3, 10, 10, 100, 10, 50, 80], b""));
        d.push(mk(b'J', &[100, 100, 50, 30, 0, 90], b""));
        d.push(mk(b'K', &[100, 100, 50, 0, 90], b""));
        d.push(mk(b'L', &[10, 10, 200, 100], b""));
        d.push(mk(b'z', &[3, 10, 10, 100, 10, 50, 80], b""));
        d.push(mk(b'O', &[100, 100, 40], b""));
        d.push(mk(b'P', &[50, 50], b""));
        d.push(mk(b'Q', &[100, 100, 50, 30], b""));
        d.push(mk(b'U', &[10, 10, 100, 50, 0], b""));
        d.push(mk(b'U', &[10, 10, 100, 50, 1], b""));
        d.push(mk(b'V', &[100, 100, 50, 0, 90], b""));
        d.push(mk(b'W', &[20, 50], b"Hi"));
        d.push(mk(b'Y', &[100, 100, 50, 30, 0, 90], b""));
        d.push(mk(b'Z', &[10, 10, 100, 50], b""));
        d.push(mk(b'G', &[0, 3, 0, 0, 20, 20, 100, 100], b""));
        d.push(mk(b'G', &[2, 3, 50, 50], b""));
        d.push(mk(b'G', &[3, 3, 0, 0, 10, 10, 60, 60], b""));
        d.push(mk(b'c', &[1, 2], b""));
        d.push(mk(b'p', &[5, 5], b""));
        // loops: a loop that never runs (from = to) leaves its command letter behind; a loop without a command letter then uses it
        let lp = |from: u32, to: u32, target: &str, group: &[&str]| IgsSeg {
            cmd: b'&',
            gt: true,
            params: vec![from.to_string(), to.to_string(), "1".to_string(), "0".to_string()],
            text: Text::default(),
            term: 1,
            lp: Some(LoopTail { target: target.to_string(), sep: b',', count: group.len().to_string(), groups: vec![group.iter().map(|t| t.to_string()).collect()] }),
        };
        let extra = vec![
            (lp(0, 0, "Z", &[]), lp(LARGE, LARGE + 1, "", &["0", "0", "x", "x"])),
            (lp(0, 0, "R", &[]), lp(0, 1, "", &["1", "0"])),
            (lp(0, 0, "R", &[]), lp(LARGE, LARGE + 1, "", &["0", "0", "x", "x"])),
            (mk(b'k', &[0], b""), lp(LARGE, LARGE + 1, "f", &["3", "0", "0", "x", "0", "0", "x"])),
        ];
        Pairs { setters: s, drawers: d, extra }
    }
    pub fn total(&self) -> u64 {
        (self.setters.len() * self.drawers.len() + self.extra.len()) as u64
    }
    pub fn case(&self, i: u64) -> IgsCase {
        let nd = self.drawers.len() as u64;
        let product = self.setters.len() as u64 * nd;
        if i >= product {
            let (a, b) = &self.extra[(i - product) as usize];
            return IgsCase { prefix: 0, segs: vec![a.clone(), b.clone()] };
        }
        IgsCase { prefix: 0, segs: vec![self.setters[(i / nd) as usize].clone(), self.drawers[(i % nd) as usize].clone()] }
    }
}

// ---------------------------------------------------------------------------------------------------------
// text part: the commands with a text / data part (W, N, X, <) and plain text between commands x {fresh, preamble: other
// text size and rotation} x text grid (lengths around the 128 / 256 character marks x alphabets x {no lead, one ASCII character in front})

const TEXT_CMDS: [(u8, &[u32]); 5] = [(b'W', &[20, 50]), (b'N', &[0, 10]), (b'X', &[4, 1]), (b'<', &[1, 1, 1]), (0, &[])];

pub fn texts_total() -> u64 {
    (TEXT_CMDS.len() * 2 * TEXT_LENGTHS.len() * 5 * 2) as u64
}

pub fn texts_case(mut i: u64) -> IgsCase {
    let lead = i % 2 == 1;
    i /= 2;
    let a = (i % 5) as usize;
    i /= 5;
    let len = TEXT_LENGTHS[(i % TEXT_LENGTHS.len() as u64) as usize];
    i /= TEXT_LENGTHS.len() as u64;
    let prefix = (i % 2) as u8;
    let (cmd, params) = TEXT_CMDS[(i / 2) as usize];
    let text = Text(grid_text(len, alphabet(a), lead));
    IgsCase { prefix, segs: vec![IgsSeg { cmd, gt: cmd != 0, params: params.iter().map(|v| v.to_string()).collect(), text, term: 1, lp: None }] }
}

// ---------------------------------------------------------------------------------------------------------
// fill_states part: commands whose work depends on what is on the canvas (flood fill, grab / put) on prepared canvases

/// shape placements on a w x h screen: interior, touching each edge, each corner, crossing the lower / right edge and
/// the lower right corner, covering the whole screen, covering more than the screen
pub fn placements(w: u32, h: u32) -> [(u32, u32, u32, u32); 15] {
    [
        (100, 60, 200, 120),
        (100, 0, 200, 50),
        (100, 150, 200, h - 1),
        (0, 60, 80, 120),
        (240, 60, w - 1, 120),
        (0, 0, 60, 40),
        (w - 61, 0, w - 1, 40),
        (0, h - 41, 60, h - 1),
        (w - 61, h - 41, w - 1, h - 1),
        (100, 150, 200, h + 50),
        (240, 60, w + 60, 120),
        (w - 61, h - 41, w + 60, h + 50),
        (0, 0, w - 1, h - 1),
        (0, 0, w + 50, h + 50),
        (0, h - 1, w - 1, h - 1),
    ]
}

/// seed points for a shape with bounding box b on a w x h screen: inside, just outside (left, below), on every edge
/// row / column, the four corners, one beyond the lower and the right edge
pub fn seeds(b: (u32, u32, u32, u32), w: u32, h: u32) -> [(u32, u32); 13] {
    let (cx, cy) = ((b.0 + b.2) / 2, (b.1 + b.3) / 2);
    [
        (cx, cy),
        (b.0.saturating_sub(1), cy),
        (cx, b.3 + 1),
        (cx, 0),
        (cx, h - 1),
        (0, cy),
        (w - 1, cy),
        (0, 0),
        (w - 1, 0),
        (0, h - 1),
        (w - 1, h - 1),
        (cx, h),
        (w, cy),
    ]
}

const FILL_PENS: [u32; 4] = [0, 1, 2, 15];
const SHAPE_PENS: [u32; 4] = [0, 1, 2, 3];
const N_PREPS: u64 = 1 + 3 * 15 * 4;
const N_SETTINGS: u64 = 4 * 2;
const N_FINALS: u64 = 13 + 4;

pub fn fill_states_total() -> u64 {
    2 * N_PREPS * N_SETTINGS * N_FINALS
}

/// [resolution switch] [pen, shape] [fill pen, fill pattern] final command(s)
pub fn fill_states_case(mut i: u64) -> IgsCase {
    let fin = i % N_FINALS;
    i /= N_FINALS;
    let setting = i % N_SETTINGS;
    i /= N_SETTINGS;
    let prep = i % N_PREPS;
    let medium = i / N_PREPS == 1;
    let (w, h) = if medium { (640, 200) } else { (320, 200) };
    let mut segs = Vec::new();
    if medium {
        segs.push(mk(b'R', &[1, 0], b""));
    }
    let mut bbox = (100, 60, 200, 120);
    if prep > 0 {
        let k = prep - 1;
        let pen = SHAPE_PENS[(k % 4) as usize];
        bbox = placements(w, h)[((k / 4) % 15) as usize];
        let (x0, y0, x1, y1) = bbox;
        match k / 60 {
            0 => {
                segs.push(mk(b'C', &[2, pen], b""));
                segs.push(mk(b'Z', &[x0, y0, x1, y1], b""));
            }
            1 => {
                segs.push(mk(b'C', &[1, pen], b""));
                segs.push(mk(b'L', &[x0, y0, x1, y1], b""));
            }
            _ => {
                segs.push(mk(b'C', &[2, pen], b""));
                segs.push(mk(b'Q', &[(x0 + x1) / 2, (y0 + y1) / 2, (x1 - x0) / 2, (y1 - y0) / 2], b""));
            }
        }
    }
    segs.push(mk(b'C', &[2, FILL_PENS[(setting % 4) as usize]], b""));
    if setting / 4 == 1 {
        segs.push(mk(b'A', &[2, 5, 1], b""));
    }
    if fin < 13 {
        let (sx, sy) = seeds(bbox, w, h)[fin as usize];
        segs.push(mk(b'F', &[sx, sy], b""));
    } else {
        // grab the shape (clipped or not), put it back at the origin / across the lower right corner, replace or XOR
        let k = fin - 13;
        segs.push(mk(b'M', &[if k % 2 == 0 { 1 } else { 3 }], b""));
        segs.push(mk(b'G', &[1, if k % 2 == 0 { 3 } else { 6 }, bbox.0, bbox.1, bbox.2, bbox.3], b""));
        let (dx, dy) = if k / 2 == 0 { (0, 0) } else { (w - 10, h - 10) };
        segs.push(mk(b'G', &[2, if k % 2 == 0 { 3 } else { 6 }, dx, dy], b""));
        segs.push(mk(b'F', &[dx + 1, dy + 1], b""));
    }
    IgsCase { prefix: 0, segs }
}

// ---------------------------------------------------------------------------------------------------------
// lists part: a count field needs the list it announces (f and z: point count then x,y pairs, the document gives 128 as the
// maximum; & loops: declared parameter count then the parameters, up to 2048)

const POINT_COUNTS: [u32; 9] = [0, 1, 2, 127, 128, 129, 256, 512, 99_999];
const LOOP_COUNTS: [u32; 11] = [0, 1, 2, 3, 4, 5, 8, 2047, 2048, 2049, 99_999];
/// longest list written out (numbers)
const LIST_CAP: u32 = 2300;

fn sent(n: u32, completeness: u64) -> u32 {
    match completeness {
        0 => n,
        1 => n.saturating_sub(1),
        2 => n.saturating_add(1),
        3 => n.saturating_mul(2),
        _ => 0,
    }
}

/// line break in front of every 8th number: none, CR LF, underscore CR LF
fn broken(k: usize, style: u64, tok: String) -> String {
    if k > 0 && k % 8 == 0 {
        match style {
            1 => format!("\r\n{tok}"),
            2 => format!("_\r\n{tok}"),
            _ => tok,
        }
    } else {
        tok
    }
}

pub fn lists_total() -> u64 {
    (2 * 2 * POINT_COUNTS.len() * 5 * 3 + 2 * LOOP_COUNTS.len() * 5 * 3) as u64
}

pub fn lists_case(mut i: u64) -> IgsCase {
    let n_points = (2 * 2 * POINT_COUNTS.len() * 5 * 3) as u64;
    if i < n_points {
        let style = i % 3;
        i /= 3;
        let completeness = i % 5;
        i /= 5;
        let n = POINT_COUNTS[(i % POINT_COUNTS.len() as u64) as usize];
        i /= POINT_COUNTS.len() as u64;
        let prefix = (i % 2) as u8;
        let cmd = [b'f', b'z'][(i / 2) as usize];
        let pts = sent(n, completeness).min(LIST_CAP / 2);
        let mut params = vec![n.to_string()];
        for k in 0..pts {
            // inside the 320x200 screen
            params.push(broken(params.len(), style, ((k * 37) % 320).to_string()));
            params.push(broken(params.len(), style, ((k * 53) % 200).to_string()));
        }
        return IgsCase { prefix, segs: vec![IgsSeg { cmd, gt: true, params, text: Text::default(), term: 1, lp: None }] };
    }
    i -= n_points;
    let style = i % 3;
    i /= 3;
    let completeness = i % 5;
    i /= 5;
    let n = LOOP_COUNTS[(i % LOOP_COUNTS.len() as u64) as usize];
    let prefix = (i / LOOP_COUNTS.len() as u64) as u8;
    let toks = sent(n, completeness).min(LIST_CAP);
    // groups of four (the loop draws lines inside the screen), x and y stepped by the loop
    let mut groups: Vec<Vec<String>> = Vec::new();
    for k in 0..toks as usize {
        if k % 4 == 0 {
            groups.push(Vec::new());
        }
        let tok = match k % 4 {
            0 => "x".to_string(),
            1 => ((k * 7) % 200).to_string(),
            2 => ((k * 37) % 320).to_string(),
            _ => "y".to_string(),
        };
        groups.last_mut().unwrap().push(broken(k, style, tok));
    }
    if groups.is_empty() {
        groups.push(Vec::new());
    }
    IgsCase {
        prefix,
        segs: vec![IgsSeg {
            cmd: b'&',
            gt: true,
            params: vec!["0".to_string(), "3".to_string(), "1".to_string(), "0".to_string()],
            text: Text::default(),
            term: 1,
            lp: Some(LoopTail { target: "L".to_string(), sep: b',', count: n.to_string(), groups }),
        }],
    }
}

// ---------------------------------------------------------------------------------------------------------
// random part

fn value() -> BoxedStrategy<String> {
    let num = prop_oneof![
        18 => Just(0u32),
        18 => Just(1u32),
        24 => 0u32..5,
        24 => 0u32..17,
        24 => 0u32..200,
        18 => 0u32..640,
        12 => prop_oneof![Just(199u32), Just(200), Just(319), Just(320), Just(639), Just(640), Just(399), Just(400)],
        9 => 0u32..1200,
        2 => 9995u32..=9999,
        // values beyond any canvas are rare here (the table parts place them systematically): every such value costs a
        // fill command its whole CPU budget on the pinned tree
        1 => prop_oneof![4 => 1200u32..5000, 1 => Just(LARGE), 1 => Just(99_999u32), 1 => 0u32..100_000],
    ];
    (num, 0u8..60).prop_map(|(n, form)| match form {
        0 => format!("-{}", n % 51),
        1 => String::new(),
        2 => format!("+{n}"),
        3 => format!(" {n}"),
        _ => n.to_string(),
    })
    .boxed()
}

fn loop_token() -> BoxedStrategy<String> {
    prop_oneof![
        6 => Just("x".to_string()),
        4 => Just("y".to_string()),
        3 => Just("0".to_string()),
        3 => Just("1".to_string()),
        2 => Just("5".to_string()),
        2 => Just("100".to_string()),
        2 => Just("+1".to_string()),
        2 => Just("-1".to_string()),
        2 => Just("!1".to_string()),
        1 => Just("+100".to_string()),
        1 => Just("-100".to_string()),
        1 => Just("!319".to_string()),
        1 => Just(String::new()),
        1 => Just("_5".to_string()),
        1 => prop_oneof![12 => Just("639".to_string()), 1 => Just("99999".to_string())],
        1 => Just("+x".to_string()),
    ]
    .boxed()
}

/// the characters IGS itself gives a meaning inside a command: text terminator, command terminator, separators, line ends
pub const IGS_SPECIAL: &[char] = &['@', ':', ',', '_', '>', '\r', '\n', '|'];

fn alphabet(i: usize) -> &'static [char] {
    if i < ALPHABETS.len() {
        ALPHABETS[i]
    } else {
        IGS_SPECIAL
    }
}

fn text() -> BoxedStrategy<Vec<char>> {
    let t = |s: &str| Just(s.chars().collect::<Vec<char>>());
    let tok = prop_oneof![
        4 => t("Ab"),
        2 => t(" x"),
        1 => t("G"),
        1 => t("\u{e4}"),
        1 => t("\u{ff}"),
        1 => t("\u{0}"),
        1 => t("\u{7f}"),
        1 => t("\u{20ac}"),
        1 => t("\u{2588}"),
        1 => t("\u{1b}[1m"),
        1 => t("\r"),
        3 => (0x20u8..=0x7E).prop_filter("not a terminator", |b| !matches!(*b, b'@' | b'#')).prop_map(|b| vec![b as char]),
    ];
    let short = vec(tok, 0..=6).prop_map(|v| v.concat());
    // long texts: around the 128 and 256 character marks, rarely 1000; one alphabet, optionally one ASCII character in front
    let long = (prop_oneof![6 => 120usize..=135, 3 => 250usize..=262, 1 => Just(1000usize)], 0usize..5, any::<bool>()).prop_map(|(len, a, lead)| grid_text(len, alphabet(a), lead));
    prop_oneof![9 => short, 1 => long].boxed()
}

pub fn seg_strategy() -> BoxedStrategy<IgsSeg> {
    let plain = (
        (0u8..100, any::<u16>(), any::<u8>()),
        (0u8..10, 0usize..=12, 0u32..=5),
        vec(value(), 13),
        any::<bool>(),
        prop_oneof![5 => Just(0u8), 3 => Just(1u8), 1 => Just(2u8), 1 => Just(3u8)],
        text(),
    )
        .prop_map(|((sel, ci, unk), (amode, nrand, npts), vals, gt, term, text)| {
            if sel < 4 {
                return IgsSeg { cmd: 0, gt: false, params: vec![], text: Text(text), term: 1, lp: None };
            }
            let (cmd, arity) = if sel < 8 { ([b'x', b'a', b'h', b'j', b'0', b'#', b'e', b'u'][(unk % 8) as usize], (unk % 5) as usize) } else { let d = IGS_CMDS[pick(ci, IGS_CMDS.len())]; (d.0, d.1 as usize) };
            let mut params: Vec<String>;
            match cmd {
                b'f' | b'z' if amode < 8 => {
                    params = vec![npts.to_string()];
                    params.extend(vals.iter().take(npts as usize * 2).cloned());
                }
                b'G' if amode < 8 => {
                    let mode = npts % 4;
                    let n = [8usize, 6, 4, 8][mode as usize];
                    params = vec![mode.to_string()];
                    params.extend(vals.iter().take(n - 1).cloned());
                }
                _ => {
                    let n = if amode < 8 { arity } else { nrand };
                    params = vals.iter().take(n).cloned().collect();
                }
            }
            let text = if matches!(cmd, b'W' | b'N' | b'X' | b'<') { Text(text) } else { Text::default() };
            IgsSeg { cmd, gt, params, text, term, lp: None }
        });
    let looped = (
        (any::<u16>(), 0u8..12),
        (
            prop_oneof![4 => Just(0u32), 3 => Just(1), 3 => Just(2), 3 => Just(3), 3 => Just(5), 3 => Just(10), 3 => Just(100), 3 => Just(199), 3 => Just(639), 1 => prop_oneof![6 => Just(1000u32), 1 => Just(LARGE), 1 => Just(99_999)]],
            prop_oneof![4 => Just(0u32), 3 => Just(1), 3 => Just(2), 3 => Just(3), 3 => Just(5), 3 => Just(10), 3 => Just(100), 3 => Just(199), 3 => Just(639), 1 => prop_oneof![6 => Just(1000u32), 1 => Just(LARGE), 1 => Just(99_999)]],
            prop_oneof![8 => 1u32..=10, 2 => Just(0u32), 2 => Just(100u32), 1 => Just(50_000u32)],
            prop_oneof![10 => Just(0u32), 1 => Just(1u32), 1 => Just(2u32), 1 => Just(99_999u32)],
        ),
        prop_oneof![6 => Just(b','), 1 => Just(b'|'), 1 => Just(b'@')],
        (0u8..10, 0u32..=8, 1usize..=3),
        vec(loop_token(), 24),
        any::<bool>(),
        prop_oneof![5 => Just(0u8), 3 => Just(1u8), 1 => Just(2u8)],
    )
        .prop_map(|((ci, tform), (from, to, step, delay), sep, (cmode, crand, ngroups), toks, gt, term)| {
            let (letter, arity) = IGS_CMDS[pick(ci, IGS_CMDS.len())];
            let arity = match letter {
                b'f' | b'z' => 5,
                b'G' => 4,
                a => {
                    let _ = a;
                    arity as usize
                }
            };
            let target = match tform {
                0 => format!(">C{}@", letter as char),
                1 => String::new(),
                _ => (letter as char).to_string(),
            };
            let per_group = if cmode < 8 { arity } else { crand as usize };
            let mut groups = Vec::new();
            let mut k = 0;
            for _ in 0..ngroups {
                let mut g: Vec<String> = Vec::new();
                for _ in 0..per_group {
                    g.push(toks[k % toks.len()].clone());
                    k += 1;
                }
                if matches!(letter, b'f' | b'z' | b'G') && !g.is_empty() && cmode < 8 {
                    g[0] = "2".to_string();
                }
                groups.push(g);
            }
            // the declared count never exceeds the parameters that follow: the loop command ends inside its own segment
            let count = match cmode {
                9 => 0,
                8 => (crand as usize).min(per_group * ngroups),
                _ => per_group * ngroups,
            };
            IgsSeg {
                cmd: b'&',
                gt,
                params: vec![from.to_string(), to.to_string(), step.to_string(), delay.to_string()],
                text: Text::default(),
                term,
                lp: Some(LoopTail { target, sep, count: count.to_string(), groups }),
            }
        });
    prop_oneof![7 => plain, 1 => looped].boxed()
}

pub fn case_strategy(max_segs: usize) -> BoxedStrategy<IgsCase> {
    // one segment, or (1 in 12) a "prepare the canvas, choose the fill, fill / grab" group taken from the fill_states grid
    let group = prop_oneof![
        11 => seg_strategy().prop_map(|s| vec![s]),
        1 => any::<u32>().prop_map(|i| fill_states_case(i as u64 % fill_states_total()).segs),
    ];
    // now and then a long point list (f / z; an under-filled loop would swallow the segments behind it)
    let group = prop_oneof![40 => group, 1 => any::<u32>().prop_map(|i| lists_case(i as u64 % (2 * 2 * POINT_COUNTS.len() * 5 * 3) as u64).segs)];
    (prop_oneof![3 => Just(0u8), 1 => Just(1u8)], vec(group, 1..=max_segs))
        .prop_map(move |(prefix, groups)| {
            let mut segs = groups.concat();
            segs.truncate(max_segs + 4);
            IgsCase { prefix, segs }
        })
        .boxed()
}

/// keep a loop inside its own segment: the declared count never exceeds the parameters that follow
fn normalise(s: &mut IgsSeg) {
    if let Some(lp) = s.lp.as_mut() {
        let provided: usize = lp.groups.iter().map(|g| g.len()).sum();
        if lp.count.parse::<usize>().map(|c| c > provided).unwrap_or(true) {
            lp.count = provided.to_string();
        }
    }
}

pub fn minimize(c: &IgsCase) -> Vec<IgsCase> {
    let mut out = Vec::new();
    for i in 0..c.segs.len() {
        if c.segs.len() > 1 {
            let mut d = c.clone();
            d.segs.remove(i);
            out.push(d);
        }
    }
    if c.prefix != 0 {
        out.push(IgsCase { prefix: 0, ..c.clone() });
    }
    for i in 0..c.segs.len() {
        let s = &c.segs[i];
        let with = |f: &dyn Fn(&mut IgsSeg)| {
            let mut d = c.clone();
            f(&mut d.segs[i]);
            normalise(&mut d.segs[i]);
            d
        };
        if s.gt {
            out.push(with(&|s| s.gt = false));
        }
        if s.term != 0 {
            out.push(with(&|s| s.term = 0));
        }
        if !s.text.is_empty() {
            out.push(with(&|s| {
                s.text.0.pop();
            }));
            if s.text.len() > 1 {
                out.push(with(&|s| s.text.0 = vec!['A']));
                let n = s.text.len();
                out.push(with(&|s| s.text.0.truncate(n / 2)));
                out.push(with(&|s| {
                    s.text.0.remove(0);
                }));
            }
        }
        if s.lp.is_none() && !s.params.is_empty() {
            out.push(with(&|s| {
                s.params.pop();
            }));
        }
        for k in 0..s.params.len() {
            let p = &s.params[k];
            if p != "0" {
                out.push(with(&|s| s.params[k] = "0".to_string()));
                if p != "1" {
                    out.push(with(&|s| s.params[k] = "1".to_string()));
                }
                if let Ok(v) = p.parse::<u32>() {
                    if v > 3 {
                        out.push(with(&|s| s.params[k] = (v / 2).to_string()));
                    }
                }
            }
        }
        if let Some(lp) = &s.lp {
            if lp.groups.len() > 1 {
                out.push(with(&|s| {
                    let l = s.lp.as_mut().unwrap();
                    l.groups.pop();
                }));
            }
            for g in 0..lp.groups.len() {
                if !lp.groups[g].is_empty() {
                    out.push(with(&|s| {
                        s.lp.as_mut().unwrap().groups[g].pop();
                    }));
                }
                for k in 0..lp.groups[g].len() {
                    if lp.groups[g][k] != "0" {
                        out.push(with(&|s| s.lp.as_mut().unwrap().groups[g][k] = "0".to_string()));
                    }
                }
            }
            if lp.count != "0" {
                out.push(with(&|s| s.lp.as_mut().unwrap().count = "0".to_string()));
            }
            if lp.sep != b',' {
                out.push(with(&|s| s.lp.as_mut().unwrap().sep = b','));
            }
        }
    }
    out
}
