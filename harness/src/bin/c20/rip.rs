//! RIPscrip side of C20: command table (doc/ripscript/154/ripscript.txt, levels 0, 1 and 9), stream model, renderer,
//! executor, enumeration and random strategy.
use crate::common::{drive, grid_text, push_ascii, Fail, Known, Reporter, Run, SegInfo, Stopwatch, Text, ALPHABETS, IDX_PICTURE, IDX_SETUP, MAX_PAUSE_MS, TEXT_LENGTHS};
use icy_engine::{ansi, rip, BufferParser, CallbackAction};
use icyv::proptest::collection::vec;
use icyv::proptest::prelude::*;
use icyv::util::pick;
use icyv::{panics, stream, Verdict};
use serde::{Deserialize, Serialize};
use std::path::PathBuf;

pub const CACHE_DIR: &str = "/tmp/c20-empty-cache";
const ESC: u8 = 0x1B;

pub struct RipDef {
    pub lvl: u8,
    pub cmd: u8,
    /// widths (in base-36 digits) of the numeric fields
    pub fields: &'static [u8],
    /// a free text follows the numeric fields
    pub text: bool,
    /// npoints:2 followed by npoints x (x:2, y:2)
    pub poly: bool,
}

const fn d(lvl: u8, cmd: u8, fields: &'static [u8]) -> RipDef {
    RipDef { lvl, cmd, fields, text: false, poly: false }
}
const fn t(lvl: u8, cmd: u8, fields: &'static [u8]) -> RipDef {
    RipDef { lvl, cmd, fields, text: true, poly: false }
}
const fn p(cmd: u8) -> RipDef {
    RipDef { lvl: 0, cmd, fields: &[2], text: false, poly: true }
}

/// the complete command tables of RIPscrip 1.54 (level 0: 37 entries incl. `$` and `#`, level 1: 16, level 9: 1)
pub const RIP_CMDS: &[RipDef] = &[
    d(0, b'w', &[2, 2, 2, 2, 1, 1]),
    d(0, b'v', &[2, 2, 2, 2]),
    d(0, b'*', &[]),
    d(0, b'e', &[]),
    d(0, b'E', &[]),
    d(0, b'g', &[2, 2]),
    d(0, b'H', &[]),
    d(0, b'>', &[]),
    d(0, b'c', &[2]),
    d(0, b'Q', &[2, 2, 2, 2, 2, 2, 2, 2, 2, 2, 2, 2, 2, 2, 2, 2]),
    d(0, b'a', &[2, 2]),
    d(0, b'W', &[2]),
    d(0, b'm', &[2, 2]),
    t(0, b'T', &[]),
    t(0, b'@', &[2, 2]),
    d(0, b'Y', &[2, 2, 2, 2]),
    d(0, b'X', &[2, 2]),
    d(0, b'L', &[2, 2, 2, 2]),
    d(0, b'R', &[2, 2, 2, 2]),
    d(0, b'B', &[2, 2, 2, 2]),
    d(0, b'C', &[2, 2, 2]),
    d(0, b'O', &[2, 2, 2, 2, 2, 2]),
    d(0, b'o', &[2, 2, 2, 2]),
    d(0, b'A', &[2, 2, 2, 2, 2]),
    d(0, b'V', &[2, 2, 2, 2, 2, 2]),
    d(0, b'I', &[2, 2, 2, 2, 2]),
    d(0, b'i', &[2, 2, 2, 2, 2, 2]),
    d(0, b'Z', &[2, 2, 2, 2, 2, 2, 2, 2, 2]),
    p(b'P'),
    p(b'p'),
    p(b'l'),
    d(0, b'F', &[2, 2, 2]),
    d(0, b'=', &[2, 4, 2]),
    d(0, b'S', &[2, 2]),
    d(0, b's', &[2, 2, 2, 2, 2, 2, 2, 2, 2]),
    t(0, b'$', &[]),
    d(0, b'#', &[]),
    t(1, b'M', &[2, 2, 2, 2, 2, 1, 1, 5]),
    d(1, b'K', &[]),
    d(1, b'T', &[2, 2, 2, 2, 2]),
    t(1, b't', &[1]),
    d(1, b'E', &[]),
    d(1, b'C', &[2, 2, 2, 2, 1]),
    d(1, b'P', &[2, 2, 2, 1]),
    t(1, b'W', &[1]),
    t(1, b'I', &[2, 2, 2, 1, 2]),
    d(1, b'B', &[2, 2, 2, 4, 2, 2, 2, 2, 2, 2, 2, 2, 2, 2, 6]),
    t(1, b'U', &[2, 2, 2, 2, 2, 1, 1]),
    t(1, b'D', &[3, 2]),
    t(1, ESC, &[1, 3]),
    d(1, b'G', &[2, 2, 2, 2, 2, 2]),
    t(1, b'R', &[8]),
    t(1, b'F', &[2, 4]),
    t(9, ESC, &[1, 1, 2, 4]),
];

/// One unit of a RIP stream. `lvl` 0/1/9: a command (`cmd` need not be in the table: unknown commands are part of the
/// domain); `lvl` 255: plain text / ANSI (`params` is the text).
#[derive(Clone, Debug, Hash, Serialize, Deserialize)]
pub struct RipSeg {
    pub lvl: u8,
    pub cmd: u8,
    /// the parameter characters exactly as sent
    pub params: Text,
    /// 0: the next command follows after `|` on the same line; 1: line ends with LF; 2: with CR LF
    pub term: u8,
    /// a continuation (backslash CR LF) is inserted before parameter character `cont` (255 = none)
    pub cont: u8,
}

#[derive(Clone, Debug, Hash, Serialize, Deserialize)]
pub struct RipCase {
    /// 0 = fresh emulation; 1 = after the state-setting preamble (viewport, text window, palette entry, user line and
    /// fill style, XOR write mode, stroked font, saved image, button style)
    pub prefix: u8,
    pub segs: Vec<RipSeg>,
}

fn cmd_name(c: u8) -> String {
    match c {
        ESC => "ESC".to_string(),
        0x21..=0x7E => (c as char).to_string(),
        _ => format!("x{c:02x}"),
    }
}

pub fn family(s: &RipSeg) -> String {
    if s.lvl == 255 {
        return "rip|text".to_string();
    }
    let known = RIP_CMDS.iter().any(|d| d.lvl == s.lvl && d.cmd == s.cmd);
    let lv = match s.lvl {
        1 => "1",
        9 => "9",
        _ => "",
    };
    if known {
        format!("rip|{lv}{}", cmd_name(s.cmd))
    } else {
        format!("rip|{lv}?")
    }
}

pub fn render_seg(s: &RipSeg, in_cmd: &mut bool, out: &mut Vec<char>) {
    if s.lvl == 255 {
        if *in_cmd {
            out.push('\n');
        }
        out.extend_from_slice(&s.params);
        *in_cmd = false;
        return;
    }
    if !*in_cmd {
        push_ascii(out, b"!|");
    }
    match s.lvl {
        1 => out.push('1'),
        9 => out.push('9'),
        _ => {}
    }
    out.push(s.cmd as char);
    for (i, b) in s.params.iter().enumerate() {
        if i == s.cont as usize {
            push_ascii(out, b"\\\r\n");
        }
        out.push(*b);
    }
    match s.term {
        0 => {
            out.push('|');
            *in_cmd = true;
        }
        1 => {
            out.push('\n');
            *in_cmd = false;
        }
        _ => {
            push_ascii(out, b"\r\n");
            *in_cmd = false;
        }
    }
}

pub fn b36(width: usize, mut v: u32) -> Vec<u8> {
    let mut out = vec![b'0'; width];
    for i in (0..width).rev() {
        let dgt = (v % 36) as u8;
        out[i] = if dgt < 10 { b'0' + dgt } else { b'A' + dgt - 10 };
        v /= 36;
    }
    out
}

/// the state-setting preamble: every command is well-formed and inside the 640x350 canvas
pub fn preamble() -> Vec<u8> {
    let mut v = Vec::new();
    let mut cmd = |head: &[u8], fields: &[(usize, u32)]| {
        v.extend_from_slice(b"!|");
        v.extend_from_slice(head);
        for (w, x) in fields {
            v.extend(b36(*w, *x));
        }
        v.push(b'\n');
    };
    cmd(b"v", &[(2, 10), (2, 10), (2, 300), (2, 200)]);
    cmd(b"w", &[(2, 5), (2, 5), (2, 50), (2, 10), (1, 1), (1, 0)]);
    cmd(b"a", &[(2, 3), (2, 40)]);
    cmd(b"=", &[(2, 4), (4, 0x0F0F), (2, 3)]);
    cmd(b"s", &[(2, 1), (2, 2), (2, 4), (2, 8), (2, 16), (2, 32), (2, 64), (2, 128), (2, 14)]);
    cmd(b"W", &[(2, 1)]);
    cmd(b"Y", &[(2, 2), (2, 0), (2, 4), (2, 0)]);
    cmd(b"c", &[(2, 15)]);
    cmd(b"m", &[(2, 15), (2, 15)]);
    cmd(b"L", &[(2, 12), (2, 12), (2, 100), (2, 60)]);
    cmd(b"1C", &[(2, 10), (2, 10), (2, 30), (2, 30), (1, 0)]);
    // button style: 10x10, label centred, flags = chisel 8 + recessed 16 + bevel 512 + sunken 32768, bevel size 2
    cmd(
        b"1B",
        &[(2, 10), (2, 10), (2, 2), (4, 8 + 16 + 512 + 32768), (2, 2), (2, 15), (2, 8), (2, 15), (2, 8), (2, 7), (2, 0), (2, 0), (2, 14), (2, 7), (6, 0)],
    );
    v
}

/// Feed the segments `alive` (indices into `segs`) to a fresh RIP emulation.
fn run(prefix: u8, segs: &[RipSeg], alive: &[usize], rep: &Reporter) -> Run {
    let mut out = Run::default();
    let cur = std::cell::Cell::new(usize::MAX - 1);
    let r = panics::guarded(|| {
        rep.at(IDX_SETUP);
        let mut parser = rip::Parser::new(Box::new(ansi::Parser::default()), PathBuf::from(CACHE_DIR));
        let (mut buf, mut caret) = stream::make_terminal(80, 25, 1);
        if prefix == 1 {
            for b in preamble() {
                let _ = parser.print_char(&mut buf, 0, &mut caret, b as char);
            }
            // forget that the preamble drew something (non-triviality evidence below), without paying for a 640x350 RGBA copy
            let screen = std::mem::take(&mut parser.bgi.screen);
            let _ = parser.get_picture_data();
            parser.bgi.screen = screen;
        }
        let mut in_cmd = false;
        let mut bytes = Vec::new();
        for &i in alive {
            cur.set(i);
            rep.at(i as u16);
            bytes.clear();
            render_seg(&segs[i], &mut in_cmd, &mut bytes);
            let sw = Stopwatch::start();
            for b in &bytes {
                // every character yields an action or an error
                match parser.print_char(&mut buf, 0, &mut caret, *b) {
                    Ok(CallbackAction::Pause(ms)) if ms > MAX_PAUSE_MS => pause_fail(&mut out, i, &segs[i], ms),
                    Ok(_) => {}
                    Err(_) => out.errs += 1,
                }
                // drain pending actions the way a terminal does (RIP has none; capped all the same)
                let mut n = 0;
                while n < 64 {
                    match parser.get_next_action(&mut buf, &mut caret, 0) {
                        Some(CallbackAction::NoUpdate) | Some(_) => n += 1,
                        None => break,
                    }
                }
            }
            let (cpu, blocked) = sw.stop();
            out.times.push((i, cpu, blocked));
        }
        // the pixel canvas the emulation exposes
        cur.set(usize::MAX);
        rep.at(IDX_PICTURE);
        if let Some((size, data)) = parser.get_picture_data() {
            out.executed = true;
            let want = 4 * size.width.max(0) as usize * size.height.max(0) as usize;
            if data.len() != want || size.width <= 0 || size.height <= 0 {
                out.fails.push((
                    segs.len(),
                    Fail { key: "canvas.size|rip".to_string(), msg: format!("get_picture_data: size {}x{} but {} bytes (want {want})", size.width, size.height, data.len()) },
                ));
            }
        }
    });
    if let Err((sig, msg)) = r {
        out.panic = Some((cur.get(), Fail { key: crate::common::normalise_panic_key(&sig), msg: format!("{msg} (while executing {})", if cur.get() < segs.len() { family(&segs[cur.get()]) } else { "the picture read-out / set-up".to_string() }) }));
    }
    out
}

/// initialise the engine's lazy tables (stroked fonts, bitmap font) in the worker process, so that the forked children inherit them
pub fn warm_up() {
    let _ = panics::guarded(|| {
        let mut parser = rip::Parser::new(Box::new(ansi::Parser::default()), PathBuf::from(CACHE_DIR));
        let (mut buf, mut caret) = stream::make_terminal(80, 25, 1);
        for b in b"!|@0A0AHi|Y02000400|@0A0AHi|Y01000200|@0A0AHi\nabc\x1b[1;1H" {
            let _ = parser.print_char(&mut buf, 0, &mut caret, *b as char);
        }
        let _ = parser.get_picture_data();
    });
}

fn pause_fail(out: &mut Run, i: usize, seg: &RipSeg, ms: u32) {
    out.fails.push((i, Fail { key: format!("stall.pause|{}", family(seg)), msg: format!("segment {i} asks the terminal to pause for {ms} ms (more than {MAX_PAUSE_MS} ms)") }));
}

pub fn check(c: &RipCase, known: &Known) -> Verdict {
    crate::common::warm_up_once();
    let fam_of = |i: u16| match i {
        IDX_PICTURE => "rip|picture".to_string(),
        IDX_SETUP => "rip|setup".to_string(),
        i => c.segs.get(i as usize).map(family).unwrap_or_else(|| "rip|?".to_string()),
    };
    crate::common::isolate(c, &fam_of, known, &|c: &RipCase, rep, removed| {
        let infos: Vec<SegInfo> = c
            .segs
            .iter()
            .map(|s| {
                let mut b = Vec::new();
                let mut ic = true;
                render_seg(s, &mut ic, &mut b);
                SegInfo { fam: family(s), len: b.len() }
            })
            .collect();
        let label = if c.prefix == 0 { "rip" } else { "rip+preamble" };
        drive(&infos, removed, known, label, &mut |alive| run(c.prefix, &c.segs, alive, rep))
    })
}

// ---------------------------------------------------------------------------------------------------------
// exhaustive part: every command x {fresh, preamble} x parameter strings over {0,1,Z}

const DIGITS: [u8; 3] = [b'0', b'1', b'Z'];
/// the property quantifies over 0..=40 parameter characters (RIP_BUTTON_STYLE has 36, the engine reads 37)
pub const MAX_PARAM_LEN: usize = 40;
const PATTERNS: [&[u8]; 9] = [b"0", b"1", b"Z", b"0Z", b"Z0", b"1Z", b"Z1", b"01", b"10"];
const FIELDS: [&[u8]; 3] = [b"00", b"0Z", b"ZZ"];

/// The finite domain of the table part.
pub struct Table {
    pub full_len: usize,
    strings: Vec<Vec<u8>>,
}

impl Table {
    /// all strings over {0,1,Z} of length 0..=full_len (quick 6, thorough 8); for every longer length up to 40 the 9
    /// periodic patterns; for the even lengths after full_len up to 10 (quick) / 12 (thorough) all strings of two-digit fields over {00, 0Z, ZZ}
    pub fn new(thorough: bool) -> Table {
        let full_len = if thorough { 8 } else { 6 };
        let mut strings: Vec<Vec<u8>> = Vec::new();
        for l in 0..=full_len {
            for mut i in 0..3u64.pow(l as u32) {
                let mut s = vec![b'0'; l];
                for k in (0..l).rev() {
                    s[k] = DIGITS[(i % 3) as usize];
                    i /= 3;
                }
                strings.push(s);
            }
        }
        for l in full_len + 1..=MAX_PARAM_LEN {
            for pat in PATTERNS {
                strings.push((0..l).map(|k| pat[k % pat.len()]).collect());
            }
            if l % 2 == 0 && l <= if thorough { 12 } else { 10 } {
                let nf = l / 2;
                for mut i in 0..3u64.pow(nf as u32) {
                    let mut s = Vec::with_capacity(l);
                    let mut fs = vec![0usize; nf];
                    for k in (0..nf).rev() {
                        fs[k] = (i % 3) as usize;
                        i /= 3;
                    }
                    for f in fs {
                        s.extend_from_slice(FIELDS[f]);
                    }
                    strings.push(s);
                }
            }
        }
        strings.sort();
        strings.dedup();
        Table { full_len, strings }
    }
    pub fn total(&self) -> u64 {
        RIP_CMDS.len() as u64 * 2 * self.strings.len() as u64
    }
    pub fn case(&self, i: u64) -> RipCase {
        let ns = self.strings.len() as u64;
        let s = self.strings[(i % ns) as usize].clone();
        let rest = i / ns;
        let prefix = (rest % 2) as u8;
        let def = &RIP_CMDS[(rest / 2) as usize];
        RipCase { prefix, segs: vec![RipSeg { lvl: def.lvl, cmd: def.cmd, params: Text::latin1(s), term: 0, cont: 255 }] }
    }
}

// ---------------------------------------------------------------------------------------------------------
// pairs part: every state-setting command with every selector value, followed by every drawing command with
// ordinary in-canvas parameters (state-dependent defects, found deterministically)

fn mk(lvl: u8, cmd: u8, fields: &[(usize, u32)], text: &[u8]) -> RipSeg {
    let mut p = Vec::new();
    for (w, v) in fields {
        p.extend(b36(*w, *v));
    }
    p.extend_from_slice(text);
    RipSeg { lvl, cmd, params: Text::latin1(p), term: 1, cont: 255 }
}

pub struct Pairs {
    setters: Vec<RipSeg>,
    drawers: Vec<RipSeg>,
}

impl Pairs {
    pub fn new() -> Pairs {
        let mut s: Vec<RipSeg> = Vec::new();
        for font in 0..=11u32 {
            for (dir, size) in [(0u32, 1u32), (0, 4), (1, 4), (0, 10), (1, 10)] {
                s.push(mk(0, b'Y', &[(2, font), (2, dir), (2, size), (2, 0)], b""));
            }
        }
        for mode in 0..=4 {
            s.push(mk(0, b'W', &[(2, mode)], b""));
        }
        for style in 0..=4 {
            for thick in [1, 3] {
                s.push(mk(0, b'=', &[(2, style), (4, 0x0F0F), (2, thick)], b""));
            }
        }
        for pat in 0..=12 {
            s.push(mk(0, b'S', &[(2, pat), (2, 5)], b""));
        }
        s.push(mk(0, b's', &[(2, 1), (2, 2), (2, 4), (2, 8), (2, 16), (2, 32), (2, 64), (2, 128), (2, 14)], b""));
        for orient in 0..=5 {
            for (flags, flags2) in [(0u32, 0u32), (8 + 16 + 512 + 32768, 0), (32 + 2048, 2)] {
                s.push(mk(1, b'B', &[(2, 10), (2, 10), (2, orient), (4, flags), (2, 2), (2, 15), (2, 8), (2, 15), (2, 8), (2, 7), (2, 0), (2, flags2), (2, 14), (2, 7), (6, 0)], b""));
            }
        }
        for c in [0, 7, 15] {
            s.push(mk(0, b'c', &[(2, c)], b""));
        }
        for (x0, y0, x1, y1) in [(0u32, 0u32, 639u32, 349u32), (10, 10, 300, 200), (600, 300, 700, 400), (700, 400, 900, 500), (0, 0, 1295, 1295), (300, 200, 10, 10)] {
            s.push(mk(0, b'v', &[(2, x0), (2, y0), (2, x1), (2, y1)], b""));
        }
        let full: Vec<(usize, u32)> = (0..16).map(|i| (2usize, i as u32)).collect();
        s.push(mk(0, b'Q', &full, b""));
        s.push(mk(0, b'Q', &full[..4], b""));
        for (i, v) in [(0, 0), (15, 63), (40, 10)] {
            s.push(mk(0, b'a', &[(2, i), (2, v)], b""));
        }
        for (x0, y0, x1, y1) in [(10u32, 10u32, 30u32, 30u32), (0, 0, 0, 0), (600, 300, 700, 400)] {
            s.push(mk(1, b'C', &[(2, x0), (2, y0), (2, x1), (2, y1), (1, 0)], b""));
        }
        s.push(mk(0, b'm', &[(2, 15), (2, 15)], b""));
        s.push(mk(0, b'm', &[(2, 1000), (2, 1000)], b""));
        s.push(mk(0, b'w', &[(2, 5), (2, 5), (2, 50), (2, 10), (1, 1), (1, 0)], b""));

        let mut d: Vec<RipSeg> = Vec::new();
        let rect = [(2usize, 10u32), (2, 10), (2, 200), (2, 100)];
        for c in [b'L', b'R', b'B'] {
            d.push(mk(0, c, &rect, b""));
        }
        d.push(mk(0, b'C', &[(2, 100), (2, 100), (2, 50)], b""));
        d.push(mk(0, b'O', &[(2, 100), (2, 100), (2, 0), (2, 360), (2, 50), (2, 30)], b""));
        d.push(mk(0, b'o', &[(2, 100), (2, 100), (2, 50), (2, 30)], b""));
        d.push(mk(0, b'A', &[(2, 100), (2, 100), (2, 0), (2, 90), (2, 50)], b""));
        d.push(mk(0, b'V', &[(2, 100), (2, 100), (2, 0), (2, 90), (2, 50), (2, 30)], b""));
        d.push(mk(0, b'I', &[(2, 100), (2, 100), (2, 0), (2, 90), (2, 50)], b""));
        d.push(mk(0, b'i', &[(2, 100), (2, 100), (2, 0), (2, 90), (2, 50), (2, 30)], b""));
        d.push(mk(0, b'Z', &[(2, 10), (2, 10), (2, 50), (2, 80), (2, 100), (2, 20), (2, 150), (2, 60), (2, 20)], b""));
        let tri = [(2usize, 3u32), (2, 20), (2, 20), (2, 120), (2, 30), (2, 60), (2, 90)];
        for c in [b'P', b'p', b'l'] {
            d.push(mk(0, c, &tri, b""));
        }
        d.push(mk(0, b'F', &[(2, 100), (2, 100), (2, 15)], b""));
        d.push(mk(0, b'X', &[(2, 50), (2, 50)], b""));
        d.push(mk(0, b'T', &[], b"Hi"));
        d.push(mk(0, b'@', &[(2, 20), (2, 20)], b"Hi"));
        // text across the right and the lower edge of the screen, and starting in the last column / row
        d.push(mk(0, b'@', &[(2, 636), (2, 345)], b"Hi"));
        d.push(mk(0, b'@', &[(2, 639), (2, 349)], b"Hi"));
        d.push(mk(0, b'@', &[(2, 633), (2, 100)], b"Hi"));
        d.push(mk(1, b'P', &[(2, 20), (2, 20), (2, 0), (1, 0)], b""));
        d.push(mk(1, b'G', &[(2, 10), (2, 10), (2, 50), (2, 50), (2, 0), (2, 100)], b""));
        d.push(mk(1, b'U', &[(2, 20), (2, 20), (2, 100), (2, 60), (2, 65), (1, 0), (1, 0)], b"<>Ab<>cmd^M"));
        // label with a character outside ASCII in front of the hot key
        d.push(mk(1, b'U', &[(2, 20), (2, 20), (2, 100), (2, 60), (2, 120), (1, 0), (1, 0)], b"<>\xe4x<>cmd^M"));
        d.push(mk(1, b'M', &[(2, 0), (2, 10), (2, 10), (2, 50), (2, 50), (1, 1), (1, 0), (5, 0)], b"cmd^M"));
        d.push(mk(0, b'e', &[], b""));
        d.push(mk(0, b'E', &[], b""));
        d.push(mk(0, b'*', &[], b""));
        Pairs { setters: s, drawers: d }
    }
    pub fn total(&self) -> u64 {
        (self.setters.len() * self.drawers.len()) as u64
    }
    pub fn case(&self, i: u64) -> RipCase {
        let nd = self.drawers.len() as u64;
        RipCase { prefix: 0, segs: vec![self.setters[(i / nd) as usize].clone(), self.drawers[(i % nd) as usize].clone()] }
    }
}

// ---------------------------------------------------------------------------------------------------------
// text part: every command that takes a text x {bitmap font, stroked font (preamble)} x text grid
// (lengths around the 128 / 256 character marks x alphabets x {no lead, one ASCII character in front})

pub struct Texts {
    cmds: Vec<&'static RipDef>,
}

impl Texts {
    pub fn new() -> Texts {
        Texts { cmds: RIP_CMDS.iter().filter(|d| d.text).collect() }
    }
    pub fn total(&self) -> u64 {
        (self.cmds.len() * 2 * TEXT_LENGTHS.len() * 5 * 2) as u64
    }
    pub fn case(&self, mut i: u64) -> RipCase {
        let lead = i % 2 == 1;
        i /= 2;
        let a = (i % 5) as usize;
        i /= 5;
        let len = TEXT_LENGTHS[(i % TEXT_LENGTHS.len() as u64) as usize];
        i /= TEXT_LENGTHS.len() as u64;
        let prefix = (i % 2) as u8;
        let def = self.cmds[(i / 2) as usize];
        // ordinary in-canvas numbers in front of the text
        let mut params: Vec<char> = Vec::new();
        for (k, w) in def.fields.iter().enumerate() {
            let v = match (def.lvl, def.cmd, k) {
                (1, b'U', 2) => 100,
                (1, b'U', 3) => 60,
                (1, b'U', 4) => 120, // hot key 'x'
                (1, b'M', 3) | (1, b'M', 4) => 50,
                (_, _, _) if *w >= 2 => 20,
                _ => 0,
            };
            params.extend(b36(*w as usize, v).iter().map(|b| *b as char));
        }
        if def.lvl == 1 && def.cmd == b'U' {
            params.extend("<>".chars());
        }
        params.extend(grid_text(len, alphabet(a), lead));
        if def.lvl == 0 && def.cmd == b'$' {
            params.push('$');
        }
        RipCase { prefix, segs: vec![RipSeg { lvl: def.lvl, cmd: def.cmd, params: Text(params), term: 1, cont: 255 }] }
    }
}

// ---------------------------------------------------------------------------------------------------------
// fill_states part: commands whose work depends on what is on the canvas (RIP_FILL, get / put image, copy region) on
// prepared canvases

const W: u32 = 640;
const H: u32 = 350;

fn placements() -> [(u32, u32, u32, u32); 15] {
    [
        (100, 60, 200, 120),
        (100, 0, 200, 50),
        (100, 250, 200, H - 1),
        (0, 60, 80, 120),
        (500, 60, W - 1, 120),
        (0, 0, 60, 40),
        (W - 61, 0, W - 1, 40),
        (0, H - 41, 60, H - 1),
        (W - 61, H - 41, W - 1, H - 1),
        (100, 250, 200, H + 50),
        (500, 60, W + 60, 120),
        (W - 61, H - 41, W + 60, H + 50),
        (0, 0, W - 1, H - 1),
        (0, 0, W + 50, H + 50),
        (0, H - 1, W - 1, H - 1),
    ]
}

fn seeds(b: (u32, u32, u32, u32)) -> [(u32, u32); 13] {
    let (cx, cy) = ((b.0 + b.2) / 2, (b.1 + b.3) / 2);
    [
        (cx, cy),
        (b.0.saturating_sub(1), cy),
        (cx, b.3 + 1),
        (cx, 0),
        (cx, H - 1),
        (0, cy),
        (W - 1, cy),
        (0, 0),
        (W - 1, 0),
        (0, H - 1),
        (W - 1, H - 1),
        (cx, H),
        (W, cy),
    ]
}

const SHAPE_PENS: [u32; 3] = [0, 2, 7];
const FILL_COLOURS: [u32; 3] = [0, 2, 15];
const FILL_PATTERNS: [u32; 2] = [1, 5];
const N_PREPS: u64 = 1 + 3 * 15 * 3;
const N_SETTINGS: u64 = 3 * 2;
const N_FINALS: u64 = 13 * 2 + 3;

pub fn fill_states_total() -> u64 {
    2 * N_PREPS * N_SETTINGS * N_FINALS
}

/// [viewport] [colour, fill style, shape] [fill style] final command(s)
pub fn fill_states_case(mut i: u64) -> RipCase {
    let fin = i % N_FINALS;
    i /= N_FINALS;
    let setting = i % N_SETTINGS;
    i /= N_SETTINGS;
    let prep = i % N_PREPS;
    let viewport = i / N_PREPS == 1;
    let mut segs = Vec::new();
    if viewport {
        segs.push(mk(0, b'v', &[(2, 10), (2, 10), (2, 300), (2, 200)], b""));
    }
    let mut bbox = (100, 60, 200, 120);
    let mut pen = 7;
    if prep > 0 {
        let k = prep - 1;
        pen = SHAPE_PENS[(k % 3) as usize];
        bbox = placements()[((k / 3) % 15) as usize];
        let (x0, y0, x1, y1) = bbox;
        segs.push(mk(0, b'c', &[(2, pen)], b""));
        segs.push(mk(0, b'S', &[(2, 1), (2, pen)], b""));
        match k / 45 {
            0 => segs.push(mk(0, b'B', &[(2, x0), (2, y0), (2, x1), (2, y1)], b"")),
            1 => segs.push(mk(0, b'R', &[(2, x0), (2, y0), (2, x1), (2, y1)], b"")),
            _ => segs.push(mk(0, b'o', &[(2, (x0 + x1) / 2), (2, (y0 + y1) / 2), (2, (x1 - x0) / 2), (2, (y1 - y0) / 2)], b"")),
        }
    }
    segs.push(mk(0, b'S', &[(2, FILL_PATTERNS[(setting / 3) as usize]), (2, FILL_COLOURS[(setting % 3) as usize])], b""));
    if fin < 26 {
        let (sx, sy) = seeds(bbox)[(fin / 2) as usize];
        // border colour: the pen of the shape, or a colour that is nowhere on the canvas
        let border = if fin % 2 == 0 { pen } else { 14 };
        segs.push(mk(0, b'F', &[(2, sx), (2, sy), (2, border)], b""));
    } else {
        let (x0, y0, x1, y1) = bbox;
        match fin - 26 {
            0 => {
                segs.push(mk(1, b'C', &[(2, x0), (2, y0), (2, x1), (2, y1), (1, 0)], b""));
                segs.push(mk(1, b'P', &[(2, 0), (2, 0), (2, 0), (1, 0)], b""));
            }
            1 => {
                segs.push(mk(0, b'W', &[(2, 1)], b""));
                segs.push(mk(1, b'C', &[(2, x0), (2, y0), (2, x1), (2, y1), (1, 0)], b""));
                segs.push(mk(1, b'P', &[(2, W - 10), (2, H - 10), (2, 1), (1, 0)], b""));
            }
            _ => segs.push(mk(1, b'G', &[(2, x0), (2, y0), (2, x1), (2, y1.min(H - 1)), (2, 0), (2, H - 20)], b"")),
        }
        segs.push(mk(0, b'F', &[(2, 5), (2, 5), (2, 14)], b""));
    }
    RipCase { prefix: 0, segs }
}

// ---------------------------------------------------------------------------------------------------------
// buttons part: RIP_BUTTON is steered by the flag bits of an earlier RIP_BUTTON_STYLE; the flag bits are a table dimension.
// styles part: the other style-then-draw pairs (font style x text, write mode x text)

fn button_style(wid: u32, hgt: u32, flags: u32, bevel: u32, flags2: u32) -> RipSeg {
    // label orientation 02 (centre); the other orientations are not implemented
    mk(1, b'B', &[(2, wid), (2, hgt), (2, 2), (4, flags), (2, bevel), (2, 15), (2, 8), (2, 15), (2, 8), (2, 7), (2, 0), (2, flags2), (2, 14), (2, 7), (6, 0)], b"")
}

fn button(hotkey: u32, text: &str) -> RipSeg {
    let mut p: Vec<char> = Vec::new();
    for (w, v) in [(2usize, 20u32), (2, 20), (2, 120), (2, 70), (2, hotkey), (1, 0), (1, 0)] {
        p.extend(b36(w, v).iter().map(|b| *b as char));
    }
    p.extend(text.chars());
    RipSeg { lvl: 1, cmd: b'U', params: Text(p), term: 1, cont: 255 }
}

const UNDERLINE: u32 = 2048;
const HIGHLIGHT2: u32 = 2;

/// (flags, flags2): none, every single bit of both fields, all bits, every pair with the underline bit, and the same with
/// the hot-key highlight bit of the second field
fn flag_sets() -> Vec<(u32, u32)> {
    let mut v = vec![(0, 0), (0xFFFF, 0), (0xFFFF, 0x7FF), (0xF_FFFF, 1295)];
    for b in 0..20 {
        v.push((1 << b, 0));
        v.push((1 << b, HIGHLIGHT2));
        if 1 << b != UNDERLINE {
            v.push((UNDERLINE | 1 << b, 0));
            v.push((UNDERLINE | 1 << b, HIGHLIGHT2));
        }
    }
    for b in 0..11 {
        v.push((0, 1 << b));
        v.push((UNDERLINE, 1 << b));
    }
    v
}

const SIZES: [(u32, u32, u32); 5] = [(10, 10, 2), (0, 0, 0), (1, 1, 1), (1295, 1295, 1295), (0, 0, 1295)];
/// hot-key codes: none, 'A', 'x', '#', DEL, 0x80, e acute, 0xFF, ZZ
const HOTKEYS: [u32; 9] = [0, 65, 120, 35, 0x7F, 0x80, 0xE9, 0xFF, 1295];
/// label alphabets: ASCII, Latin-1 (with the hot keys 0x80, e acute, 0xFF in them), above U+00FF, empty, text variable
const LABELS: [&str; 6] = ["Ab x", "Caf\u{e9} \u{80}\u{ff}x", "\u{20ac}\u{2588}Ax", "", "$DATE$x", "\u{e9}"];
/// text layouts: number of `<>` separators 0..=4, icon and host-command slots empty and filled ({} = the label)
const LAYOUTS: [&str; 9] = ["{}", "<>{}", "I.ICN<>{}", "<>{}<>", "<>{}<>cmd^M", "I.ICN<>{}<>cmd^M", "I<>{}<>c<>", "<><>{}<>c", "I<>{}<>c<>x<>y"];
const PAIRS: [(u32, &str); 6] = [(65, "<>Ab<>c"), (0xE9, "<>Caf\u{e9}<>c"), (0xE9, "<>x\u{e9}"), (0, "<>Ab"), (120, "<>\u{20ac}x"), (0xFF, "<>\u{ff}")];
const FEW_FLAGS: [(u32, u32); 8] = [(0, 0), (UNDERLINE, 0), (UNDERLINE | 32, 0), (0, HIGHLIGHT2), (UNDERLINE, HIGHLIGHT2), (0xFFFF, 0x7FF), (128, 0), (4096 | UNDERLINE, 0)];

pub struct Buttons {
    flags: Vec<(u32, u32)>,
}

impl Buttons {
    pub fn new() -> Buttons {
        Buttons { flags: flag_sets() }
    }
    fn n_a(&self) -> u64 {
        (self.flags.len() * SIZES.len() * PAIRS.len()) as u64
    }
    pub fn total(&self) -> u64 {
        self.n_a() + (FEW_FLAGS.len() * HOTKEYS.len() * LABELS.len() * LAYOUTS.len()) as u64
    }
    pub fn case(&self, mut i: u64) -> RipCase {
        let (style, btn) = if i < self.n_a() {
            // every flag set x sizes x a few (hot key, text) pairs
            let (hk, text) = PAIRS[(i % PAIRS.len() as u64) as usize];
            i /= PAIRS.len() as u64;
            let (w, h, bev) = SIZES[(i % SIZES.len() as u64) as usize];
            let (f, f2) = self.flags[(i / SIZES.len() as u64) as usize];
            (button_style(w, h, f, bev, f2), button(hk, text))
        } else {
            // every hot key x label x layout x the flag sets that look at the hot key
            i -= self.n_a();
            let layout = LAYOUTS[(i % LAYOUTS.len() as u64) as usize];
            i /= LAYOUTS.len() as u64;
            let label = LABELS[(i % LABELS.len() as u64) as usize];
            i /= LABELS.len() as u64;
            let hk = HOTKEYS[(i % HOTKEYS.len() as u64) as usize];
            let (f, f2) = FEW_FLAGS[(i / HOTKEYS.len() as u64) as usize];
            (button_style(10, 10, f, 2, f2), button(hk, &layout.replace("{}", label)))
        };
        RipCase { prefix: 0, segs: vec![style, btn] }
    }
}

/// font style x direction x size x write mode, then a text command with a short or a long text of each alphabet
pub fn styles_total() -> u64 {
    12 * 2 * 3 * 5 * 2 * 5 * 2
}

pub fn styles_case(mut i: u64) -> RipCase {
    let long = i % 2 == 1;
    i /= 2;
    let a = (i % 5) as usize;
    i /= 5;
    let at = i % 2 == 1;
    i /= 2;
    let mode = (i % 5) as u32;
    i /= 5;
    let size = [1, 4, 10][(i % 3) as usize];
    i /= 3;
    let dir = (i % 2) as u32;
    let font = (i / 2) as u32;
    let mut params: Vec<char> = Vec::new();
    if at {
        params.extend(b36(2, 600).iter().chain(b36(2, 330).iter()).map(|b| *b as char));
    }
    params.extend(grid_text(if long { 130 } else { 3 }, alphabet(a), true));
    RipCase {
        prefix: 0,
        segs: vec![
            mk(0, b'Y', &[(2, font), (2, dir), (2, size), (2, 0)], b""),
            mk(0, b'W', &[(2, mode)], b""),
            RipSeg { lvl: 0, cmd: if at { b'@' } else { b'T' }, params: Text(params), term: 1, cont: 255 },
        ],
    }
}

/// random style (any flag bits) followed by a button whose hot key may be outside ASCII
fn button_group() -> BoxedStrategy<Vec<RipSeg>> {
    (any::<u32>(), 0u32..2048, 0usize..SIZES.len(), 0usize..HOTKEYS.len(), 0usize..LABELS.len(), 0usize..LAYOUTS.len())
        .prop_map(|(f, f2, sz, hk, la, ly)| {
            let (w, h, bev) = SIZES[sz];
            // the interesting bits are the low 16; keep them dense
            let flags = (f & 0xFFFF) | if f & 0x10000 != 0 { UNDERLINE } else { 0 };
            vec![button_style(w, h, flags, bev, f2.min(1295)), button(HOTKEYS[hk], &LAYOUTS[ly].replace("{}", LABELS[la]))]
        })
        .boxed()
}

// ---------------------------------------------------------------------------------------------------------
// lists part: a count field needs the list it announces (RIP_POLYGON, RIP_FILL_POLY, RIP_POLYLINE: npoints:2 then npoints x,y pairs;
// the document allows 2..=512, the field holds up to ZZ = 1295)

const LIST_COUNTS: [u32; 8] = [0, 1, 2, 511, 512, 513, 1024, 1295];
/// a continuation (backslash CR LF) after every so many parameter characters; 0 = one line
const LIST_WRAPS: [usize; 4] = [0, 76, 40, 4];

pub fn lists_total() -> u64 {
    (3 * 2 * LIST_COUNTS.len() * 5 * LIST_WRAPS.len()) as u64
}

pub fn lists_case(mut i: u64) -> RipCase {
    let wrap = LIST_WRAPS[(i % 4) as usize];
    i /= 4;
    let completeness = i % 5;
    i /= 5;
    let n = LIST_COUNTS[(i % LIST_COUNTS.len() as u64) as usize];
    i /= LIST_COUNTS.len() as u64;
    let prefix = (i % 2) as u8;
    let cmd = [b'P', b'p', b'l'][(i / 2) as usize];
    // points actually sent: as announced, one short, one more, twice as many, none
    let sent = match completeness {
        0 => n,
        1 => n.saturating_sub(1),
        2 => n + 1,
        3 => 2 * n,
        _ => 0,
    };
    let mut body: Vec<u8> = b36(2, n);
    for k in 0..sent {
        body.extend(b36(2, (k * 37) % W));
        body.extend(b36(2, (k * 53) % H));
    }
    let mut params: Vec<char> = Vec::with_capacity(body.len() + body.len() / 20);
    for (k, b) in body.iter().enumerate() {
        if wrap > 0 && k > 0 && k % wrap == 0 {
            params.extend(['\\', '\r', '\n']);
        }
        params.push(*b as char);
    }
    RipCase { prefix, segs: vec![RipSeg { lvl: 0, cmd, params: Text(params), term: 1, cont: 255 }] }
}

// ---------------------------------------------------------------------------------------------------------
// random part

const JUNK: &[u8] = b" -.,;:$^<>~*#@_/()[]{}\\\x1b\x00\x7f\xe4\xff?+=&%\"'";

fn field_value(class: u8, raw: u32, width: u8) -> u32 {
    let max = 36u32.pow(width as u32) - 1;
    let v = match class {
        0 => 0,
        1 => 1,
        2 => raw % 17,
        3 => raw % 101,
        4 => [639, 640, 641, 349, 350, 351, 319, 199, 320, 200][(raw % 10) as usize],
        5 => max,
        6 => max - 1,
        7 => raw % 361,
        8 => raw % 700,
        // ASCII codes (button hot keys)
        9 => [65, 98, 120, 32, 255][(raw % 5) as usize],
        _ => raw,
    };
    v % (max + 1)
}

/// the characters RIP itself gives a meaning inside a text: escape / continuation, the escaped terminator, variable and
/// host-command markers, the field separator of button texts
pub const RIP_SPECIAL: &[char] = &['^', 'M', '<', '>', '$', '!', '\\', '|', '@', '[', '\\', '\\'];

fn alphabet(i: usize) -> &'static [char] {
    if i < ALPHABETS.len() {
        ALPHABETS[i]
    } else {
        RIP_SPECIAL
    }
}

fn text_tokens() -> BoxedStrategy<Vec<char>> {
    let t = |s: &str| Just(s.chars().collect::<Vec<char>>());
    let tok = prop_oneof![
        4 => t("Ab"),
        2 => t(" x"),
        3 => t("<>"),
        1 => t("^M"),
        1 => t("^["),
        1 => t("$DATE$"),
        1 => t("$"),
        1 => t(".ICN"),
        1 => t("\\"),
        1 => t("!"),
        1 => t("@"),
        1 => t("\u{e4}"),
        1 => t("\u{ff}"),
        1 => t("\u{0}"),
        1 => t("\u{20ac}"),
        1 => t("\u{2588}"),
        1 => t("\u{1b}[1m"),
        2 => (0x20u8..=0x7E).prop_filter("not a terminator", |b| *b != b'|').prop_map(|b| vec![b as char]),
    ];
    let short = vec(tok, 0..=6).prop_map(|v| v.concat());
    // long texts: around the 128 and 256 character marks, rarely 1000; one alphabet, optionally one ASCII character in front
    let long = (prop_oneof![6 => 120usize..=135, 3 => 250usize..=262, 1 => Just(1000usize)], 0usize..5, any::<bool>()).prop_map(|(len, a, lead)| grid_text(len, alphabet(a), lead));
    prop_oneof![9 => short, 1 => long].boxed()
}

pub fn seg_strategy() -> BoxedStrategy<RipSeg> {
    (
        (0u8..100, any::<u16>(), any::<u8>()),
        vec((0u8..11, any::<u32>()), 24),
        (0u8..14, any::<u8>(), any::<u16>()),
        text_tokens(),
        prop_oneof![6 => Just(0u8), 3 => Just(1u8), 1 => Just(2u8)],
        prop_oneof![12 => Just(255u8), 1 => 0u8..40],
        0u32..10,
    )
        .prop_map(|((sel, ci, unk), vals, (mkind, mpos, mjunk), text, term, cont, npoints)| {
            if sel < 4 {
                // plain text / ANSI between the commands
                return RipSeg { lvl: 255, cmd: 0, params: Text(text), term: 1, cont: 255 };
            }
            if sel < 8 {
                // unknown command letter on one of the levels
                let lvl = [0u8, 1, 9][(unk % 3) as usize];
                let cmd = [b'z', b'j', b'0', b'~', b'q', b'!'][(unk as usize / 3) % 6];
                let mut params = Vec::new();
                for (k, (c, r)) in vals.iter().take(3).enumerate() {
                    params.extend(b36(2, field_value(*c, *r ^ k as u32, 2)));
                }
                return RipSeg { lvl, cmd, params: Text::latin1(params), term, cont: 255 };
            }
            let def = &RIP_CMDS[pick(ci, RIP_CMDS.len())];
            let mut params: Vec<u8> = Vec::new();
            let mut vi = 0;
            let mut next = |w: u8| {
                let (c, r) = vals[vi % vals.len()];
                vi += 1;
                b36(w as usize, field_value(c, r, w))
            };
            if def.poly {
                params.extend(b36(2, npoints));
                for _ in 0..npoints * 2 {
                    params.extend(next(2));
                }
            } else {
                for w in def.fields {
                    params.extend(next(*w));
                }
            }
            // mutations of the numeric part: truncated, over-long, punctuation, lower case
            let len = params.len();
            match mkind {
                8 => params.truncate(mpos as usize % (len + 1)),
                9 => {
                    for k in 0..(mpos % 6 + 1) {
                        params.push(b"0Z19aG"[(mjunk as usize + k as usize) % 6]);
                    }
                }
                10 if len > 0 => params[mpos as usize % len] = JUNK[mjunk as usize % JUNK.len()],
                11 => params.make_ascii_lowercase(),
                12 => params.insert(mpos as usize % (len + 1), JUNK[mjunk as usize % JUNK.len()]),
                13 if len > 0 => {
                    // a field of the parameter list set to its largest value
                    let at = (mpos as usize % len) & !1;
                    params[at] = b'Z';
                    if at + 1 < len {
                        params[at + 1] = b'Z';
                    }
                }
                _ => {}
            }
            let mut params: Vec<char> = params.iter().map(|b| *b as char).collect();
            if def.text {
                params.extend_from_slice(&text);
                if def.cmd == b'$' && def.lvl == 0 {
                    params.push('$');
                }
            }
            params.retain(|b| !matches!(*b, '|' | '\n' | '\r'));
            RipSeg { lvl: def.lvl, cmd: def.cmd, params: Text(params), term, cont }
        })
        .boxed()
}

pub fn case_strategy(max_segs: usize) -> BoxedStrategy<RipCase> {
    // one segment, or a group: "prepare the canvas, choose the fill, fill / get / put" (fill_states grid), "button style with
    // random flag bits, then a button", "font style, write mode, text"
    let group = prop_oneof![
        20 => seg_strategy().prop_map(|s| vec![s]),
        2 => any::<u32>().prop_map(|i| fill_states_case(i as u64 % fill_states_total()).segs),
        2 => button_group(),
        1 => any::<u32>().prop_map(|i| styles_case(i as u64 % styles_total()).segs),
        // now and then a long, complete point list
        1 => any::<u32>().prop_map(|i| lists_case(i as u64 % lists_total()).segs),
    ];
    (prop_oneof![3 => Just(0u8), 1 => Just(1u8)], vec(group, 1..=max_segs))
        .prop_map(move |(prefix, groups)| {
            let mut segs = groups.concat();
            segs.truncate(max_segs + 5);
            RipCase { prefix, segs }
        })
        .boxed()
}

pub fn minimize(c: &RipCase) -> Vec<RipCase> {
    let mut out = Vec::new();
    for i in 0..c.segs.len() {
        if c.segs.len() > 1 {
            let mut d = c.clone();
            d.segs.remove(i);
            out.push(d);
        }
    }
    if c.prefix != 0 {
        out.push(RipCase { prefix: 0, ..c.clone() });
    }
    for i in 0..c.segs.len() {
        let s = &c.segs[i];
        let with = |f: &dyn Fn(&mut RipSeg)| {
            let mut d = c.clone();
            f(&mut d.segs[i]);
            d
        };
        if s.cont != 255 {
            out.push(with(&|s| s.cont = 255));
        }
        if s.term != 0 && s.lvl != 255 {
            out.push(with(&|s| s.term = 0));
        }
        let n = s.params.len();
        if n > 0 {
            out.push(with(&|s| {
                s.params.0.pop();
            }));
            if n > 2 {
                out.push(with(&|s| s.params.0.truncate(n / 2)));
            }
        }
        for k in 0..n.min(48) {
            if s.params[k] != '0' {
                out.push(with(&|s| s.params.0[k] = '0'));
            }
        }
    }
    out
}
