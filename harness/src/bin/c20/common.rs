//! Shared machinery of the C20 check: per-case child process (exact attribution of aborts / CPU overruns / sleeps to
//! the command being executed), the "look behind a known finding" driver, timing helpers.
use icyv::{alloc, panics, Verdict};
use std::os::fd::RawFd;
use std::time::{Duration, Instant};

/// CPU budget of one command (a stream segment of <= 64 bytes; longer segments get one budget per 64 bytes;
/// a loop step drained through get_next_action is a command of its own)
pub const CPU_LIMIT_US: u64 = 500_000;
/// hard CPU deadline of one segment (and of the set-up and of each canvas read-out); enforced by ITIMER_PROF in the
/// child, re-armed at every segment start: a command that does not come back is killed here
pub const SEG_CPU_DEADLINE_MS: i64 = 800;
pub const EXIT_CPU_DEADLINE: i32 = 96;
/// time a segment may spend neither running nor waiting for a CPU (= sleeping / blocked)
pub const BLOCKED_LIMIT_US: u64 = 150_000;
pub const IDX_SETUP: u16 = 0xFFFE;
pub const IDX_PICTURE: u16 = 0xFFFF;

/// Keys covered by findings that are listed as open: the driver looks behind them.
#[derive(Clone, Default)]
pub struct Known {
    pub exact: Vec<String>,
    pub prefixes: Vec<String>,
}
impl Known {
    pub fn covers(&self, key: &str) -> bool {
        self.exact.iter().any(|k| k == key) || self.prefixes.iter().any(|p| key.starts_with(p.as_str()))
    }
}

/// A piece of stream text: characters (a terminal hands `print_char` chars, not bytes, and they need not be Latin-1).
/// Serialises as a readable escaped string: printable ASCII as is, `\\` for a backslash, `\u{hex}` for everything else
/// (`\xNN` is accepted on input as well).
#[derive(Clone, PartialEq, Eq, Hash, Default)]
pub struct Text(pub Vec<char>);

impl Text {
    /// bytes read as Latin-1
    pub fn latin1(b: impl AsRef<[u8]>) -> Text {
        Text(b.as_ref().iter().map(|c| *c as char).collect())
    }
    pub fn escaped(&self) -> String {
        let mut s = String::with_capacity(self.0.len() + 8);
        for &c in &self.0 {
            match c {
                '\\' => s.push_str("\\\\"),
                ' '..='~' => s.push(c),
                _ => s.push_str(&format!("\\u{{{:x}}}", c as u32)),
            }
        }
        s
    }
    pub fn unescape(s: &str) -> Result<Text, String> {
        let v: Vec<char> = s.chars().collect();
        let mut out = Vec::with_capacity(v.len());
        let mut i = 0;
        while i < v.len() {
            if v[i] != '\\' {
                out.push(v[i]);
                i += 1;
                continue;
            }
            match v.get(i + 1) {
                Some('\\') => {
                    out.push('\\');
                    i += 2;
                }
                Some('x') if i + 3 < v.len() => {
                    let h: String = v[i + 2..i + 4].iter().collect();
                    out.push(u8::from_str_radix(&h, 16).map_err(|e| e.to_string())? as char);
                    i += 4;
                }
                Some('u') if v.get(i + 2) == Some(&'{') => {
                    let end = v[i + 3..].iter().position(|c| *c == '}').ok_or("unterminated \\u{")? + i + 3;
                    let h: String = v[i + 3..end].iter().collect();
                    let n = u32::from_str_radix(&h, 16).map_err(|e| e.to_string())?;
                    out.push(char::from_u32(n).ok_or("not a char")?);
                    i = end + 1;
                }
                _ => return Err(format!("bad escape at {i}")),
            }
        }
        Ok(Text(out))
    }
}

impl std::fmt::Debug for Text {
    fn fmt(&self, f: &mut std::fmt::Formatter<'_>) -> std::fmt::Result {
        write!(f, "t\"{}\"", self.escaped())
    }
}
impl serde::Serialize for Text {
    fn serialize<S: serde::Serializer>(&self, s: S) -> Result<S::Ok, S::Error> {
        s.serialize_str(&self.escaped())
    }
}
impl<'de> serde::Deserialize<'de> for Text {
    fn deserialize<D: serde::Deserializer<'de>>(d: D) -> Result<Self, D::Error> {
        let s = <String as serde::Deserialize>::deserialize(d)?;
        Text::unescape(&s).map_err(serde::de::Error::custom)
    }
}
impl std::ops::Deref for Text {
    type Target = [char];
    fn deref(&self) -> &[char] {
        &self.0
    }
}

pub fn push_ascii(out: &mut Vec<char>, b: &[u8]) {
    out.extend(b.iter().map(|c| *c as char));
}

/// longest pause an emulation may ask the terminal for (IGS: `t` 30 s at most, `q` 180 vsyncs, flood fill 100 ms)
pub const MAX_PAUSE_MS: u32 = 30_000;

/// the text grid of the table parts: lengths x filler alphabets x {no lead, one ASCII character in front}
pub const TEXT_LENGTHS: [usize; 12] = [0, 1, 2, 127, 128, 129, 130, 255, 256, 257, 260, 1000];
/// filler alphabets 0..=3: ASCII, Latin-1 letters, characters above U+00FF, control characters
/// (a fifth, the command's own terminator / escape characters, is supplied by the emulation)
pub const ALPHABETS: [&[char]; 4] = [
    &['A', 'b', ' ', 'x', '7', '.'],
    &['\u{e4}', '\u{e9}', '\u{fc}', '\u{df}', '\u{ff}', '\u{c5}', '\u{a0}'],
    &['\u{20ac}', '\u{2588}', '\u{3a9}', '\u{1f600}', '\u{100}'],
    &['\u{0}', '\u{7}', '\u{8}', '\u{9}', '\u{c}', '\u{1b}', '\u{7f}', '\u{1a}'],
];

pub fn grid_text(len: usize, alphabet: &[char], lead: bool) -> Vec<char> {
    let mut v = Vec::with_capacity(len);
    if lead && len > 0 {
        v.push('x');
    }
    let mut k = 0;
    while v.len() < len {
        v.push(alphabet[k % alphabet.len()]);
        k += 1;
    }
    v
}

/// A panic signature carries the panic message; messages that quote input text (`str` slicing: "... is not a char
/// boundary; it is inside 'x' (bytes #..#) of `text`") would give one key per text. Quoted parts are blanked.
pub fn normalise_panic_key(sig: &str) -> String {
    let parts: Vec<&str> = sig.split('|').collect();
    if parts.len() < 5 || parts[0] != "panic" || !parts[3].contains("char boundary") {
        return sig.to_string();
    }
    let msg: Vec<char> = parts[3].chars().collect();
    let mut out = String::new();
    let mut i = 0;
    while i < msg.len() {
        let c = msg[i];
        if c == '`' {
            // up to the closing backtick, or to the end (the message may have been cut)
            let end = msg[i + 1..].iter().position(|d| *d == '`').map(|p| i + 1 + p).unwrap_or(msg.len() - 1);
            out.push_str("`..`");
            i = end + 1;
            continue;
        }
        if c == '\'' {
            if let Some(p) = msg[i + 1..].iter().take(6).position(|d| *d == '\'') {
                out.push_str("'..'");
                i = i + 1 + p + 1;
                continue;
            }
        }
        out.push(c);
        i += 1;
    }
    let mut v: Vec<String> = parts.iter().map(|p| p.to_string()).collect();
    v[3] = out;
    v.join("|")
}

#[derive(Clone, Debug)]
pub struct Fail {
    pub key: String,
    pub msg: String,
}

// ---------------------------------------------------------------------------------------------------------
// progress reporting child -> parent

pub struct Reporter {
    fd: RawFd,
}
impl Reporter {
    /// the child is about to execute segment `idx`
    pub fn at(&self, idx: u16) {
        if self.fd >= 0 {
            let b = [0xA5u8, idx as u8, (idx >> 8) as u8];
            unsafe { libc::write(self.fd, b.as_ptr() as *const libc::c_void, 3) };
            arm_cpu_deadline();
        }
    }
}

extern "C" fn on_cpu_deadline(_sig: libc::c_int) {
    unsafe { libc::_exit(EXIT_CPU_DEADLINE) }
}

fn disarm_cpu_deadline() {
    unsafe {
        let it = libc::itimerval { it_interval: libc::timeval { tv_sec: 0, tv_usec: 0 }, it_value: libc::timeval { tv_sec: 0, tv_usec: 0 } };
        libc::setitimer(libc::ITIMER_PROF, &it, std::ptr::null_mut());
    }
}

fn arm_cpu_deadline() {
    unsafe {
        let it = libc::itimerval { it_interval: libc::timeval { tv_sec: 0, tv_usec: 0 }, it_value: libc::timeval { tv_sec: SEG_CPU_DEADLINE_MS / 1000, tv_usec: (SEG_CPU_DEADLINE_MS % 1000) * 1000 } };
        libc::setitimer(libc::ITIMER_PROF, &it, std::ptr::null_mut());
    }
}

/// sleeping and never-ending loops are properties of the loop mechanism, not of the command being looped: igs|&Z -> igs|&
pub fn mechanism_family(fam: &str) -> &str {
    if fam.starts_with("igs|&") {
        "igs|&"
    } else {
        fam
    }
}

/// (state char, utime+stime ticks) of a process
fn proc_state_ticks(pid: i32) -> Option<(char, u64)> {
    let s = std::fs::read_to_string(format!("/proc/{pid}/stat")).ok()?;
    let rp = s.rfind(')')?;
    let f: Vec<&str> = s[rp + 2..].split_whitespace().collect();
    let st = f.first()?.chars().next()?;
    let ut: u64 = f.get(11)?.parse().ok()?;
    let stt: u64 = f.get(12)?.parse().ok()?;
    Some((st, ut + stt))
}

fn signal_name(sig: i32) -> String {
    match sig {
        libc::SIGSEGV => "SIGSEGV".into(),
        libc::SIGABRT => "SIGABRT".into(),
        libc::SIGBUS => "SIGBUS".into(),
        libc::SIGILL => "SIGILL".into(),
        libc::SIGFPE => "SIGFPE".into(),
        libc::SIGKILL => "SIGKILL".into(),
        n => format!("SIG{n}"),
    }
}

/// The child process of this worker: it evaluates one case after the other and is replaced when it dies or is killed.
struct Child {
    pid: i32,
    tx: RawFd,
    rx: RawFd,
}

thread_local! {
    static CHILD: std::cell::RefCell<Option<Child>> = const { std::cell::RefCell::new(None) };
}

#[derive(serde::Serialize, serde::Deserialize)]
struct Request<C> {
    case: C,
    removed: Vec<u16>,
}

fn write_all(fd: RawFd, mut b: &[u8]) -> bool {
    while !b.is_empty() {
        let n = unsafe { libc::write(fd, b.as_ptr() as *const libc::c_void, b.len()) };
        if n <= 0 {
            if n < 0 && std::io::Error::last_os_error().kind() == std::io::ErrorKind::Interrupted {
                continue;
            }
            return false;
        }
        b = &b[n as usize..];
    }
    true
}

fn read_exact(fd: RawFd, b: &mut [u8]) -> bool {
    let mut off = 0;
    while off < b.len() {
        let n = unsafe { libc::read(fd, b[off..].as_mut_ptr() as *mut libc::c_void, b.len() - off) };
        if n <= 0 {
            if n < 0 && std::io::Error::last_os_error().kind() == std::io::ErrorKind::Interrupted {
                continue;
            }
            return false;
        }
        off += n as usize;
    }
    true
}

/// child side: serve requests until the parent goes away; never returns
fn child_main<C: serde::de::DeserializeOwned>(rx: RawFd, tx: RawFd, body: &dyn Fn(&C, &Reporter, &[u16]) -> Verdict) -> ! {
    unsafe {
        libc::prctl(libc::PR_SET_PDEATHSIG, libc::SIGKILL);
        libc::signal(libc::SIGPROF, on_cpu_deadline as *const () as usize);
    }
    let rep = Reporter { fd: tx };
    loop {
        let mut len = [0u8; 4];
        if !read_exact(rx, &mut len) {
            unsafe { libc::_exit(0) }
        }
        let mut buf = vec![0u8; u32::from_le_bytes(len) as usize];
        if !read_exact(rx, &mut buf) {
            unsafe { libc::_exit(0) }
        }
        let v = match serde_json::from_slice::<Request<C>>(&buf) {
            Ok(req) => match panics::guarded(|| body(&req.case, &rep, &req.removed)) {
                Ok(v) => v,
                Err((sig, msg)) => Verdict::Fail { key: normalise_panic_key(&sig), msg },
            },
            Err(e) => Verdict::discard(format!("child cannot decode the case: {e}")),
        };
        disarm_cpu_deadline();
        let js = serde_json::to_vec(&v).unwrap_or_default();
        let mut frame = Vec::with_capacity(js.len() + 5);
        frame.push(0x5A);
        frame.extend_from_slice(&(js.len() as u32).to_le_bytes());
        frame.extend_from_slice(&js);
        if !write_all(tx, &frame) {
            unsafe { libc::_exit(0) }
        }
    }
}

fn spawn_child<C: serde::de::DeserializeOwned>(body: &dyn Fn(&C, &Reporter, &[u16]) -> Verdict) -> Option<Child> {
    let mut down = [0 as RawFd; 2];
    let mut up = [0 as RawFd; 2];
    unsafe {
        if libc::pipe2(down.as_mut_ptr(), libc::O_CLOEXEC) != 0 {
            return None;
        }
        if libc::pipe2(up.as_mut_ptr(), libc::O_CLOEXEC) != 0 {
            libc::close(down[0]);
            libc::close(down[1]);
            return None;
        }
    }
    let pid = unsafe { libc::fork() };
    if pid < 0 {
        unsafe {
            for fd in [down[0], down[1], up[0], up[1]] {
                libc::close(fd);
            }
        }
        return None;
    }
    if pid == 0 {
        unsafe {
            libc::close(down[1]);
            libc::close(up[0]);
        }
        child_main::<C>(down[0], up[1], body)
    }
    unsafe {
        libc::close(down[0]);
        libc::close(up[1]);
    }
    Some(Child { pid, tx: down[1], rx: up[0] })
}

fn reap(c: Child) -> libc::c_int {
    unsafe {
        libc::close(c.tx);
        libc::close(c.rx);
    }
    let mut status: libc::c_int = 0;
    loop {
        let r = unsafe { libc::waitpid(c.pid, &mut status, 0) };
        if r >= 0 || std::io::Error::last_os_error().kind() != std::io::ErrorKind::Interrupted {
            break;
        }
    }
    status
}

/// Evaluate `case` with `body` in a child process of the (single-threaded) worker and turn every way the child can end
/// into a verdict whose key names the family of the segment that was executing:
///   answer                -> the verdict computed by `body`
///   killed by a signal    -> abort|<signal>|<family>        (stack overflow, allocation failure abort, ...)
///   CPU deadline          -> work.cpu|<family>              (more than SEG_CPU_DEADLINE_MS of CPU in one segment)
///   heap cap              -> heapcap|<family>
///   asleep, no progress   -> stall.sleep|<family>
/// CPU time, not wall time, decides. The child serves one case after the other (a fork per case costs more than the
/// case); it is replaced when it has died or was killed.
///
/// If the child died in segment k with a key that an open finding covers, the stream is run again without segment k
/// (look behind the known defect); an uncovered failure found that way is reported instead, otherwise the covered one.
pub fn isolate<C: serde::Serialize + serde::de::DeserializeOwned + Clone>(
    case: &C,
    family_of: &dyn Fn(u16) -> String,
    known: &Known,
    body: &dyn Fn(&C, &Reporter, &[u16]) -> Verdict,
) -> Verdict {
    if std::env::var_os("C20_NOFORK").is_some() {
        return body(case, &Reporter { fd: -1 }, &[]);
    }
    let mut removed: Vec<u16> = Vec::new();
    let mut first_death: Option<Verdict> = None;
    loop {
        let (v, died_at) = isolate_once(case, &removed, family_of, body);
        let covered = matches!(&v, Verdict::Fail { key, .. } if known.covers(key));
        let failed = matches!(&v, Verdict::Fail { .. });
        match died_at {
            Some(at) if covered && at < IDX_SETUP && removed.len() < 6 => {
                removed.push(at);
                if first_death.is_none() {
                    first_death = Some(v);
                }
            }
            _ if failed && !covered => return v,
            _ => return first_death.unwrap_or(v),
        }
    }
}

/// one request; returns the verdict and, if the child did not deliver one itself, the segment it died in
fn isolate_once<C: serde::Serialize + serde::de::DeserializeOwned + Clone>(
    case: &C,
    removed: &[u16],
    family_of: &dyn Fn(u16) -> String,
    body: &dyn Fn(&C, &Reporter, &[u16]) -> Verdict,
) -> (Verdict, Option<u16>) {
    let mut child = match CHILD.with(|c| c.borrow_mut().take()) {
        Some(c) => c,
        None => match spawn_child::<C>(body) {
            Some(c) => c,
            None => return (Verdict::discard("fork failed"), None),
        },
    };
    let req = serde_json::to_vec(&Request { case: case.clone(), removed: removed.to_vec() }).unwrap_or_default();
    let mut frame = Vec::with_capacity(req.len() + 4);
    frame.extend_from_slice(&(req.len() as u32).to_le_bytes());
    frame.extend_from_slice(&req);
    if !write_all(child.tx, &frame) {
        // the child is gone (it cannot have died of this case): replace it once
        reap(child);
        child = match spawn_child::<C>(body) {
            Some(c) => c,
            None => return (Verdict::discard("fork failed"), None),
        };
        if !write_all(child.tx, &frame) {
            reap(child);
            return (Verdict::discard("child process not reachable"), None);
        }
    }
    let pid = child.pid;
    let mut data: Vec<u8> = Vec::new();
    let mut buf = [0u8; 65536];
    let mut at: u16 = IDX_SETUP;
    let mut verdict: Option<Verdict> = None;
    let mut samples: std::collections::VecDeque<(char, u64)> = std::collections::VecDeque::new();
    let mut asleep = false;
    let mut killed = false;
    let t0 = Instant::now();
    'wait: loop {
        let mut pfd = libc::pollfd { fd: child.rx, events: libc::POLLIN, revents: 0 };
        let r = unsafe { libc::poll(&mut pfd, 1, 700) };
        if r < 0 {
            if std::io::Error::last_os_error().kind() == std::io::ErrorKind::Interrupted {
                continue;
            }
            break;
        }
        if r == 0 {
            // nothing for 0.7 s: asleep (state S, next to no CPU consumed) or busy / waiting for a CPU?
            if let Some(st) = proc_state_ticks(pid) {
                samples.push_back(st);
                if samples.len() > 6 {
                    samples.pop_front();
                }
            }
            let sleeping = samples.len() == 6 && samples.iter().filter(|s| s.0 == 'S').count() >= 5 && samples.back().unwrap().1 - samples.front().unwrap().1 <= 5;
            if sleeping || t0.elapsed() > Duration::from_secs(100) {
                asleep = sleeping;
                killed = true;
                unsafe { libc::kill(pid, libc::SIGKILL) };
                break;
            }
            continue;
        }
        samples.clear();
        let n = unsafe { libc::read(child.rx, buf.as_mut_ptr() as *mut libc::c_void, buf.len()) };
        if n <= 0 {
            break; // EOF: the child is dead
        }
        data.extend_from_slice(&buf[..n as usize]);
        // decode complete records
        let mut i = 0;
        loop {
            match data.get(i) {
                Some(0xA5) if i + 2 < data.len() => {
                    at = data[i + 1] as u16 | (data[i + 2] as u16) << 8;
                    i += 3;
                }
                Some(0x5A) if i + 4 < data.len() => {
                    let len = u32::from_le_bytes([data[i + 1], data[i + 2], data[i + 3], data[i + 4]]) as usize;
                    if i + 5 + len > data.len() {
                        break;
                    }
                    verdict = serde_json::from_slice(&data[i + 5..i + 5 + len]).ok();
                    if verdict.is_none() {
                        verdict = Some(Verdict::discard("undecodable answer of the child process"));
                    }
                    break 'wait;
                }
                _ => break,
            }
        }
        data.drain(..i);
    }
    if let Some(v) = verdict {
        CHILD.with(|c| *c.borrow_mut() = Some(child));
        return (v, None);
    }
    let status = reap(child);
    let fam = family_of(at);
    let died = |v: Verdict| (v, Some(at));
    let sfam = mechanism_family(&fam);
    if asleep {
        return died(Verdict::fail(format!("stall.sleep|{sfam}"), "the emulation went to sleep inside print_char/get_next_action and used next to no CPU for 4 s (killed)".to_string()));
    }
    if killed {
        return died(Verdict::fail(format!("hang|{fam}"), "no result within 100 s wall although the process was not asleep (killed)".to_string()));
    }
    if libc::WIFSIGNALED(status) {
        let n = signal_name(libc::WTERMSIG(status));
        return died(Verdict::fail(format!("abort|{n}|{fam}"), format!("process killed by {n} while executing this command")));
    }
    let code = if libc::WIFEXITED(status) { libc::WEXITSTATUS(status) } else { -1 };
    died(match code {
        EXIT_CPU_DEADLINE => Verdict::fail(format!("work.cpu|{fam}"), format!("this segment used more than {SEG_CPU_DEADLINE_MS} ms of CPU time and was killed (limit for one command: {} ms)", CPU_LIMIT_US / 1000)),
        alloc::HEAPCAP_EXIT => Verdict::fail(format!("heapcap|{fam}"), "heap cap crossed while executing this command".to_string()),
        c => Verdict::fail(format!("abort|exit{c}|{fam}"), format!("process exited with code {c} while executing this command")),
    })
}

static WARM: std::sync::Once = std::sync::Once::new();
pub fn warm_up_once() {
    WARM.call_once(|| {
        crate::rip::warm_up();
        crate::igs::warm_up();
    });
}

// ---------------------------------------------------------------------------------------------------------
// timing

thread_local! {
    static SCHEDSTAT: std::cell::OnceCell<Option<std::fs::File>> = const { std::cell::OnceCell::new() };
}

/// time this thread spent runnable but waiting for a CPU (microseconds), from /proc/thread-self/schedstat
/// (the file is opened once per process: every case runs in its own forked child)
pub fn run_delay_us() -> Option<u64> {
    use std::os::unix::fs::FileExt;
    SCHEDSTAT.with(|c| {
        let f = c.get_or_init(|| std::fs::File::open("/proc/thread-self/schedstat").ok());
        let f = f.as_ref()?;
        let mut buf = [0u8; 96];
        let n = f.read_at(&mut buf, 0).ok()?;
        let s = std::str::from_utf8(&buf[..n]).ok()?;
        let mut it = s.split_whitespace();
        let _on_cpu = it.next()?;
        let delay_ns: u64 = it.next()?.parse().ok()?;
        Some(delay_ns / 1000)
    })
}

pub struct Stopwatch {
    cpu0: u64,
    wall0: Instant,
    delay0: Option<u64>,
}
impl Stopwatch {
    pub fn start() -> Stopwatch {
        Stopwatch { cpu0: alloc::cpu_us(), wall0: Instant::now(), delay0: run_delay_us() }
    }
    /// (cpu us, blocked us): blocked = wall - cpu - time spent waiting for a CPU
    pub fn stop(&self) -> (u64, u64) {
        let cpu = alloc::cpu_us().saturating_sub(self.cpu0);
        let wall = self.wall0.elapsed().as_micros() as u64;
        let mut blocked = wall.saturating_sub(cpu);
        if blocked > BLOCKED_LIMIT_US / 2 {
            // only then is the scheduler delay worth a file read
            match (self.delay0, run_delay_us()) {
                (Some(a), Some(b)) => blocked = blocked.saturating_sub(b.saturating_sub(a)),
                _ => {}
            }
        }
        (cpu, blocked)
    }
}

// ---------------------------------------------------------------------------------------------------------
// driver

pub struct SegInfo {
    pub fam: String,
    pub len: usize,
}

/// What one pass over a stream (the segments `alive`, in order) observed.
#[derive(Default)]
pub struct Run {
    /// violations that do not end the stream (canvas size, endless loop), with the index of the segment
    pub fails: Vec<(usize, Fail)>,
    /// the panic that ended the stream: (segment index or usize::MAX for the picture stage, signature, message)
    pub panic: Option<(usize, Fail)>,
    /// per executed segment: (segment index, max CPU of one command in it, blocked time)
    pub times: Vec<(usize, u64, u64)>,
    /// non-triviality evidence (a command was dispatched)
    pub executed: bool,
    pub errs: u32,
    pub capped: bool,
}

fn cpu_limit(len: usize) -> u64 {
    CPU_LIMIT_US * (len.max(1).div_ceil(64) as u64)
}

/// Evaluate a stream. Failures are collected in order of discovery; a panicking segment is taken out and the rest of
/// the stream is run again (on fresh emulation state), so that one defective command does not hide the commands behind
/// it. Reported: the first failure that no open finding covers; if all are covered, the first one (the engine counts
/// it as excluded_known).
pub fn drive(infos: &[SegInfo], removed: &[u16], known: &Known, label: &str, run: &mut dyn FnMut(&[usize]) -> Run) -> Verdict {
    let mut alive: Vec<usize> = (0..infos.len()).filter(|i| !removed.contains(&(*i as u16))).collect();
    let mut fails: Vec<Fail> = Vec::new();
    let push = |fails: &mut Vec<Fail>, f: Fail| {
        if !fails.iter().any(|g| g.key == f.key) {
            fails.push(f);
        }
    };
    let mut executed = false;
    let mut errs = 0;
    let mut capped = false;
    let mut passes = 0;
    loop {
        passes += 1;
        let mut r = run(&alive);
        executed |= r.executed;
        errs = errs.max(r.errs);
        if let Some(path) = std::env::var_os("C20_TRACE") {
            // diagnostic: where does the CPU time go? (segments over 20 ms)
            use std::io::Write;
            if let Ok(mut f) = std::fs::OpenOptions::new().create(true).append(true).open(path) {
                for (i, cpu, _) in &r.times {
                    if *cpu > 20_000 {
                        let _ = writeln!(f, "{} {}", infos[*i].fam, cpu / 1000);
                    }
                }
            }
        }
        capped |= r.capped;
        // time oracle (first pass over this set of segments only; later passes re-execute the same commands)
        let suspicious_cpu: Vec<usize> = r.times.iter().filter(|(i, cpu, _)| *cpu > cpu_limit(infos[*i].len)).map(|t| t.0).collect();
        let suspicious_blk: Vec<usize> = r.times.iter().filter(|(_, _, b)| *b > BLOCKED_LIMIT_US).map(|t| t.0).collect();
        if !suspicious_cpu.is_empty() || !suspicious_blk.is_empty() {
            // Measure again and keep the smaller figures: a figure over the limit must reproduce. (CPU time does not depend on the
            // load of this machine, but inside a virtual machine it includes time the hypervisor took the CPU away: a 29 s "CPU"
            // reading for a trivial command was seen once. Blocked time: a stopped process is not a sleep either.)
            let mut best = r.times.clone();
            for _ in 0..if suspicious_blk.is_empty() { 1 } else { 2 } {
                let r2 = run(&alive);
                for t in best.iter_mut() {
                    if let Some(u) = r2.times.iter().find(|u| u.0 == t.0) {
                        t.1 = t.1.min(u.1);
                        t.2 = t.2.min(u.2);
                    }
                }
            }
            let mut timing: Vec<(usize, Fail)> = Vec::new();
            for (i, cpu, blk) in best {
                let lim = cpu_limit(infos[i].len);
                if cpu > lim {
                    timing.push((i, Fail { key: format!("work.cpu|{}", infos[i].fam), msg: format!("one command of segment {i} ({} bytes) took {} ms CPU in the faster of two runs (limit {} ms)", infos[i].len, cpu / 1000, lim / 1000) }));
                }
                if blk > BLOCKED_LIMIT_US {
                    timing.push((i, Fail { key: format!("stall.sleep|{}", mechanism_family(&infos[i].fam)), msg: format!("segment {i} spent {} ms neither running nor waiting for a CPU (sleeping inside print_char/get_next_action), in each of 3 runs", blk / 1000) }));
                }
            }
            r.fails.extend(timing);
            r.fails.sort_by_key(|f| f.0);
        }
        for (_, f) in r.fails {
            push(&mut fails, f);
        }
        match r.panic {
            Some((i, f)) => {
                push(&mut fails, f);
                if i == usize::MAX || passes > 16 {
                    break;
                }
                alive.retain(|a| *a != i);
                if alive.is_empty() {
                    break;
                }
            }
            None => break,
        }
    }
    if let Some(f) = fails.iter().find(|f| !known.covers(&f.key)).or(fails.first()) {
        let others: Vec<&str> = fails.iter().filter(|g| g.key != f.key).map(|g| g.key.as_str()).collect();
        let msg = if others.is_empty() { f.msg.clone() } else { format!("{} [same stream also: {}]", f.msg, others.join(" ; ")) };
        return Verdict::fail(f.key.clone(), msg);
    }
    let mut class = format!("{label}:{}", if executed { "executed" } else { "nothing_dispatched" });
    if errs > 0 {
        class.push_str("+err");
    }
    if capped {
        class.push_str("+loop_capped");
    }
    Verdict::pass(executed, class)
}

/// smallest multiplier >= 7919 coprime to n (spreads an enumeration so that expensive neighbours land on different threads)
pub fn spread_multiplier(n: u64) -> u64 {
    fn gcd(a: u64, b: u64) -> u64 {
        if b == 0 {
            a
        } else {
            gcd(b, a % b)
        }
    }
    let mut m = 7919;
    while gcd(m, n) != 1 {
        m += 1;
    }
    m
}
