//! Bitmap-font half of C17: models, encodings, oracles.
//!
//! A font model is (height, glyph count, glyph bytes). The check builds a `BitFont` from it (`create_8` /
//! `from_basic`), sends it through ONE encoding (the encoding is part of the case, so that a defect in one encoding
//! never hides the others) and compares size, length and the whole glyph table of the decoded font with the model.
//! Where a format document exists (PSF2 header, XBin / ADF / IDF layout, the CTerm font DCS) the bytes the engine
//! wrote are also compared with what the document prescribes (`<enc>.write|..` keys), so that a writer defect and
//! a reader defect that cancel each other do not pass.
use icy_engine::{AttributedChar, BitFont, Buffer, IceMode, SauceData, SaveOptions, TextAttribute, TextPane, FONT_NAMES, SAUCE_FONT_NAMES};
use icyv::proptest::collection::vec;
use icyv::proptest::prelude::*;
use icyv::util::{pick, Bytes};
use icyv::Verdict;
use serde::{Deserialize, Serialize};
use std::path::Path;

pub const ENCS: &[&str] = &["psf2", "raw", "dcs", "xb", "xb2", "adf", "idf", "icy", "ans"];
pub const PAGES: usize = 43; // font pages 0..=42

// ------------------------------------------------------------------------------------------------ model

#[derive(Clone, Debug, Hash, PartialEq, Eq, Serialize, Deserialize)]
pub enum Fill {
    /// every glyph byte the same
    Const(u8),
    /// byte (glyph g, row r) = g ^ 37*r (every glyph different, every row different)
    Index,
    /// xorshift stream
    Prng(u32),
}

/// glyph bytes = fill pattern, then `patch` (position selector, byte) applied, then `head` written over the
/// first bytes (this is how data that begins with a PSF magic is produced on purpose).
#[derive(Clone, Debug, Hash, PartialEq, Eq, Serialize, Deserialize)]
pub struct FontM {
    pub h: u8,
    /// 512 glyphs (only honoured by the PSF2 and IcyDraw encodings: no other encoding can hold 512 glyphs)
    pub big: bool,
    pub fill: Fill,
    pub patch: Vec<(u16, u8)>,
    pub head: Bytes,
}

pub fn prng_bytes(seed: u32, n: usize) -> Vec<u8> {
    let mut s = (seed as u64).wrapping_mul(0x9E37_79B9_7F4A_7C15).wrapping_add(0x1234_5678_9ABC_DEF1);
    if s == 0 {
        s = 1;
    }
    (0..n)
        .map(|_| {
            s ^= s << 13;
            s ^= s >> 7;
            s ^= s << 17;
            (s >> 24) as u8
        })
        .collect()
}

impl FontM {
    pub fn data(&self, h: usize, glyphs: usize) -> Vec<u8> {
        let n = h * glyphs;
        let mut d: Vec<u8> = match self.fill {
            Fill::Const(b) => vec![b; n],
            Fill::Index => (0..n).map(|i| ((i / h) as u8) ^ ((i % h) as u8).wrapping_mul(37) ^ (((i / h) >> 8) as u8).wrapping_mul(0x55)).collect(),
            Fill::Prng(s) => prng_bytes(s, n),
        };
        for (sel, b) in &self.patch {
            let i = pick(*sel, n);
            d[i] = *b;
        }
        for (i, b) in self.head.iter().enumerate() {
            if i < n {
                d[i] = *b;
            }
        }
        d
    }
}

/// What a decoded font must look like.
pub struct Ref {
    pub w: i32,
    pub h: i32,
    pub len: i32,
    /// glyph g = data[g*h .. (g+1)*h]
    pub data: Vec<u8>,
}

impl Ref {
    fn glyph(&self, g: usize) -> &[u8] {
        let h = self.h as usize;
        &self.data[g * h..(g + 1) * h]
    }
    fn varied(&self) -> bool {
        let h = self.h.max(1) as usize;
        let first = &self.data[..h.min(self.data.len())];
        self.data.chunks(h).any(|g| g != first)
    }
    fn psf_magic(&self) -> bool {
        let d = &self.data;
        (d.len() >= 2 && d[0] == 0x36 && d[1] == 0x04) || (d.len() >= 4 && d[..4] == [0x72, 0xb5, 0x4a, 0x86])
    }
    /// every encoding but PSF2 / IcyDraw stores 256 glyphs of width 8
    fn is_8x256(&self) -> bool {
        self.w == 8 && self.len == 256 && self.h >= 1
    }
    fn inverted(&self) -> Ref {
        Ref { w: self.w, h: self.h, len: self.len, data: self.data.iter().map(|b| !b).collect() }
    }
}

/// size, length, glyph table (both directions: every model glyph present and bit-identical, no glyph invented)
pub fn compare(tag: &str, got: &BitFont, want: &Ref) -> Result<(), Verdict> {
    if got.size.width != want.w || got.size.height != want.h {
        return Err(Verdict::fail(format!("{tag}|size"), format!("decoded font is {}x{}, the font that was encoded is {}x{}", got.size.width, got.size.height, want.w, want.h)));
    }
    if got.length != want.len {
        return Err(Verdict::fail(format!("{tag}|length"), format!("decoded font has length {}, the font that was encoded has {} glyphs", got.length, want.len)));
    }
    for g in 0..want.len as usize {
        let ch = char::from_u32(g as u32).unwrap();
        match got.get_glyph(ch) {
            None => return Err(Verdict::fail(format!("{tag}|glyph_missing"), format!("glyph {g} of {} is missing after decoding", want.len))),
            Some(gl) => {
                if gl.data != want.glyph(g) {
                    return Err(Verdict::fail(
                        format!("{tag}|glyphs"),
                        format!("glyph {g} differs: decoded {:02x?}, encoded {:02x?} (height {})", gl.data, want.glyph(g), want.h),
                    ));
                }
            }
        }
    }
    if got.glyphs.len() != want.len as usize {
        return Err(Verdict::fail(format!("{tag}|glyph_table_size"), format!("decoded glyph table has {} entries, the font has {} glyphs", got.glyphs.len(), want.len)));
    }
    Ok(())
}

fn build(want: &Ref, basic: bool) -> BitFont {
    let mut f = if basic { BitFont::from_basic(want.w as u8, want.h as u8, &want.data) } else { BitFont::create_8("icyv font", want.w as u8, want.h as u8, &want.data) };
    if want.len != 256 {
        f.length = want.len;
        f.calculate_checksum();
    }
    f
}

fn strip_digits(s: &str) -> String {
    let mut out = String::new();
    let mut last = false;
    for c in s.chars() {
        if c.is_ascii_digit() {
            if !last {
                out.push('#');
            }
            last = true;
        } else {
            out.push(if c == '|' || c == '\n' { ' ' } else { c });
            last = false;
        }
    }
    // error texts may quote input after a colon: keep the stable head only
    let head = out.split(':').next().unwrap_or("").trim().to_string();
    head.chars().take(50).collect()
}

fn first_diff(a: &[u8], b: &[u8]) -> usize {
    a.iter().zip(b.iter()).position(|(x, y)| x != y).unwrap_or(a.len().min(b.len()))
}

// ------------------------------------------------------------------------------------------------ encodings

/// Ok((class suffix, was a round trip performed)) or the failure
type EncResult = Result<(&'static str, bool), Verdict>;

/// PSF2 as documented in the Linux kbd sources (psf.h): 8 little-endian u32 header fields, then the glyphs.
fn ref_psf2(want: &Ref) -> Vec<u8> {
    let charsize = want.h * ((want.w + 7) / 8);
    let mut d = Vec::new();
    for v in [0x864a_b572u32, 0, 32, 0, want.len as u32, charsize as u32, want.h as u32, want.w as u32] {
        d.extend(v.to_le_bytes());
    }
    d.extend(&want.data);
    d
}

fn enc_psf2(font: &BitFont, want: &Ref) -> EncResult {
    let bytes = match font.to_psf2_bytes() {
        Ok(b) => b,
        Err(e) => return Err(Verdict::fail("psf2|save_error", format!("to_psf2_bytes failed: {e}"))),
    };
    if want.w <= 8 {
        let r = ref_psf2(want);
        if bytes != r {
            const NAMES: [&str; 8] = ["magic", "version", "headersize", "flags", "length", "charsize", "height", "width"];
            let at = first_diff(&bytes, &r);
            let what = if at < 32 { format!("header.{}", NAMES[at / 4]) } else if bytes.len() != r.len() { "size".to_string() } else { "glyph_data".to_string() };
            return Err(Verdict::fail(format!("psf2.write|{what}"), format!("to_psf2_bytes differs from the PSF2 layout at byte {at} ({} bytes written, {} expected)", bytes.len(), r.len())));
        }
    }
    let back = match BitFont::from_bytes("x", &bytes) {
        Ok(f) => f,
        Err(e) => return Err(Verdict::fail("psf2|load_error", format!("from_bytes rejects the output of to_psf2_bytes: {e}"))),
    };
    compare("psf2", &back, want)?;
    Ok(("", true))
}

fn enc_raw(font: &BitFont, want: &Ref) -> EncResult {
    if !want.is_8x256() {
        return Ok(("+not_representable", false));
    }
    let raw = font.convert_to_u8_data();
    if raw.len() != want.data.len() {
        return Err(Verdict::fail("raw|size", format!("convert_to_u8_data gives {} bytes for 256 glyphs of height {}", raw.len(), want.h)));
    }
    if raw != want.data {
        let at = first_diff(&raw, &want.data);
        return Err(Verdict::fail("raw|data", format!("convert_to_u8_data differs from the glyph bytes at byte {at} (glyph {})", at / want.h as usize)));
    }
    compare("create_8", &BitFont::create_8("x", 8, want.h as u8, &raw), want)?;
    compare("from_basic", &BitFont::from_basic(8, want.h as u8, &raw), want)?;
    if want.psf_magic() {
        return Ok(("+psf_magic_excluded", false));
    }
    let back = match BitFont::from_bytes("x", &raw) {
        Ok(f) => f,
        Err(e) => return Err(Verdict::fail("raw|load_error", format!("from_bytes rejects {} bytes of raw glyph data (height {}): {e}", raw.len(), want.h))),
    };
    compare("raw", &back, want)?;
    Ok(("", true))
}

/// What happened to the terminal before the font under test is sent: the DCS writes INTO an existing buffer, so
/// the target slot may already hold a font (loaded earlier, or a built-in page selected into it), other slots are
/// loaded in between, the terminal may have been reset. Everything goes through one parser instance.
#[derive(Clone, Debug, Hash, PartialEq, Eq, Serialize, Deserialize)]
pub enum Pre {
    /// an earlier font sequence: into the slot of the font under test (`same_slot`) or into slot + 1 + other % 3;
    /// kind 0 = the font under test itself (identical font twice), 1 = other glyphs of the same height,
    /// 2 = other glyphs with the model's own height
    Load { same_slot: bool, other: u8, kind: u8, font: FontM },
    /// font selection CSI 0;slot SP D (puts the built-in page into an empty slot <= 42)
    Select { same_slot: bool, other: u8 },
    /// ESC c
    Ris,
    /// CSI ! p
    SoftReset,
    /// printable text
    Text,
}

#[derive(Clone, Copy)]
pub struct Env<'a> {
    pub slot: usize,
    pub compress: bool,
    /// documents: the font slots already hold another font when the font under test is set
    pub stale: bool,
    /// documents: SaveOptions::save_sauce (and a SAUCE record on the document)
    pub save_sauce: bool,
    /// documents: the font page the cells are on = the slot of the font under test (ANSI files: 100 + page)
    pub page: usize,
    /// documents with page != 0: what slot 0 holds instead (0 default font, 1 an 8x8 font, 2 same size, other glyphs)
    pub slot0: u8,
    pub pre: &'a [Pre],
}

fn dcs_reference(slot: usize, data: &[u8]) -> String {
    use base64::{engine::general_purpose, Engine};
    // CTerm: DCS "CTerm:Font:" slot ":" base64(raw glyph bytes) ST
    format!("\x1bPCTerm:Font:{slot}:{}\x1b\\", general_purpose::STANDARD.encode(data))
}

fn enc_dcs(font: &BitFont, want: &Ref, env: &Env) -> EncResult {
    let slot = env.slot;
    if !want.is_8x256() {
        return Ok(("+not_representable", false));
    }
    let s = font.encode_as_ansi(slot);
    let r = dcs_reference(slot, &want.data);
    if s != r {
        let at = first_diff(s.as_bytes(), r.as_bytes());
        return Err(Verdict::fail("dcs.write|string", format!("encode_as_ansi({slot}) differs from the CTerm font sequence at byte {at} ({} vs {} bytes)", s.len(), r.len())));
    }
    if want.psf_magic() {
        return Ok(("+psf_magic_excluded", false));
    }
    let (mut buf, mut caret) = icyv::stream::make_terminal(80, 25, 0);
    let mut parser = icyv::stream::make_parser(0);
    // slot -> the last font sent into it (dropped by a reset: what a reset does to loaded fonts is not this property's subject)
    let mut expect: std::collections::BTreeMap<usize, std::rc::Rc<Ref>> = std::collections::BTreeMap::new();
    let want_rc = std::rc::Rc::new(Ref { w: want.w, h: want.h, len: want.len, data: want.data.clone() });
    let other_slot = |same: bool, other: u8| if same { slot } else { slot + 1 + (other % 3) as usize };
    let mut reloads = 0;
    let total = env.pre.len();
    for step in 0..=total {
        // (target slot, the sequence, what the slot must hold afterwards) for loads; other steps just feed bytes
        let (bytes, loaded): (String, Option<(usize, std::rc::Rc<Ref>)>) = if step == total {
            (s.clone(), Some((slot, want_rc.clone())))
        } else {
            match &env.pre[step] {
                Pre::Load { same_slot, other, kind, font: m } => {
                    let target = other_slot(*same_slot, *other);
                    let r = match kind % 3 {
                        0 => want_rc.clone(),
                        1 => std::rc::Rc::new(Ref { w: 8, h: want.h, len: 256, data: m.data(want.h as usize, 256) }),
                        _ => std::rc::Rc::new(ref_of(m, "dcs", None)),
                    };
                    if r.psf_magic() {
                        continue;
                    }
                    (build(&r, false).encode_as_ansi(target), Some((target, r)))
                }
                Pre::Select { same_slot, other } => (format!("\x1b[0;{} D", other_slot(*same_slot, *other)), None),
                Pre::Ris => ("\x1bc".to_string(), None),
                Pre::SoftReset => ("\x1b[!p".to_string(), None),
                Pre::Text => ("font test\r\n".to_string(), None),
            }
        };
        let is_reset = step < total && matches!(env.pre[step], Pre::Ris | Pre::SoftReset);
        for ch in bytes.chars() {
            if let Err(e) = parser.print_char(&mut buf, 0, &mut caret, ch) {
                if loaded.is_some() {
                    return Err(Verdict::fail(
                        format!("dcs|parser_error|{}", strip_digits(&e.to_string())),
                        format!("step {step}: the ANSI parser rejects the font sequence for slot {}, height {}: {e}", loaded.as_ref().unwrap().0, loaded.as_ref().unwrap().1.h),
                    ));
                }
                // a refused selection (no such font page) or reset detail is not a font transport
            }
        }
        if is_reset {
            expect.clear();
            continue;
        }
        let reload = loaded.as_ref().map(|(t, _)| expect.contains_key(t)).unwrap_or(false);
        if reload {
            reloads += 1;
        }
        if let Some((t, r)) = &loaded {
            expect.insert(*t, r.clone());
        }
        // after every step: every slot holds the last font sent into it
        for (t, r) in &expect {
            let tag = match &loaded {
                Some((lt, _)) if lt == t && reload => "dcs.reload",
                Some((lt, _)) if lt == t => "dcs",
                Some(_) => "dcs.other_slot",
                None => "dcs.after_control",
            };
            let Some(back) = buf.get_font(*t) else {
                return Err(Verdict::fail(format!("{tag}|font_missing"), format!("step {step} of {total}: no font in slot {t} although a font sequence for it was parsed")));
            };
            compare(tag, back, r).map_err(|v| match v {
                Verdict::Fail { key, msg } => Verdict::Fail { key, msg: format!("step {step} of {total}, slot {t}: {msg}") },
                v => v,
            })?;
        }
    }
    Ok((if reloads > 0 { "+reload" } else if total > 0 { "+session" } else { "" }, true))
}

fn opts(env: &Env) -> SaveOptions {
    let mut o = SaveOptions::new();
    o.lossles_output = true;
    o.compress = env.compress;
    o.save_sauce = env.save_sauce;
    o
}

fn cell(ch: char, page: usize) -> AttributedChar {
    let mut a = TextAttribute::new(7, 0);
    a.set_font_page(page);
    AttributedChar::new(ch, a)
}

/// A one-row document whose cells are on the given font pages. The font under test sits in `fonts[0].0` (any slot);
/// when no document font uses slot 0, slot 0 holds some OTHER font (the default font, an 8x8 font or a font of the
/// same size with other glyphs): which font a picture is shown in is decided by the cells, not by slot 0.
fn doc(w: i32, fonts: &[(usize, &BitFont)], pages: &[usize], env: &Env, h: i32) -> Buffer {
    let mut buf = Buffer::new((w, 1));
    buf.is_terminal_buffer = false;
    buf.ice_mode = IceMode::Ice;
    if env.stale {
        // the document already has (other) fonts in these slots: set_font must replace them
        let old = BitFont::create_8("stale font", 8, 8, &[0xAA; 2048]);
        for (slot, _) in fonts {
            buf.set_font(*slot, old.clone());
        }
    } else {
        buf.clear_font_table();
    }
    if !fonts.iter().any(|(s, _)| *s == 0) {
        let other = match env.slot0 % 3 {
            0 => BitFont::default(),
            1 => BitFont::create_8("other font", 8, 8, &[0x55; 2048]),
            _ => BitFont::create_8("other font", 8, h.clamp(1, 32) as u8, &vec![0x33; 256 * h.clamp(1, 32) as usize]),
        };
        buf.set_font(0, other);
    }
    for (slot, f) in fonts {
        buf.set_font(*slot, (*f).clone());
    }
    for x in 0..w {
        let page = pages[(x as usize).min(pages.len() - 1)];
        buf.layers[0].set_char((x, 0), cell(if x == 0 { 'A' } else { 'B' }, page));
    }
    if env.save_sauce {
        // (IcyDraw stores a SAUCE record when the document has one; the other formats follow SaveOptions::save_sauce)
        buf.set_sauce(Some(SauceData::default()), false);
    }
    buf
}

/// the font the loaded picture shows cell x in (through the cell's font page: slot numbers are the format's business)
fn shown<'a>(tag: &str, back: &'a Buffer, x: i32) -> Result<&'a BitFont, Verdict> {
    let page = back.get_char((x, 0)).get_font_page();
    back.get_font(page).ok_or_else(|| Verdict::fail(format!("{tag}|missing"), format!("cell {x} of the loaded document is on font page {page}, which has no font")))
}

fn is_engine_default(want: &Ref) -> bool {
    let d = BitFont::default();
    want.w == d.size.width && want.h == d.size.height && want.len == d.length && d.convert_to_u8_data() == want.data
}

/// strip an appended SAUCE record (EOF char + 128 bytes, no comments are written here)
fn without_sauce(bytes: &[u8]) -> &[u8] {
    let n = bytes.len();
    if n >= 129 && &bytes[n - 128..n - 123] == b"SAUCE" && bytes[n - 129] == 0x1A {
        &bytes[..n - 129]
    } else {
        bytes
    }
}

/// XBin (doc/FileFormats/x_bin.htm): 11 byte header (id, eof, width, height, fontsize, flags), palette (48) if
/// flag bit 0, font (fontsize*256, twice in 512-character mode = flag bit 4) if flag bit 1.
fn enc_xb(font: &BitFont, want: &Ref, second: Option<(&BitFont, &Ref)>, env: &Env) -> EncResult {
    let representable = want.is_8x256() && want.h <= 32;
    let (p1, p2) = (env.page, env.page + 1);
    let buf = match second {
        None => doc(2, &[(p1, font)], &[p1], env, want.h),
        Some((f2, _)) => doc(2, &[(p1, font), (p2, f2)], &[p1, p2], env, want.h),
    };
    let bytes = match buf.to_bytes("xb", &opts(env)) {
        Ok(b) => b,
        Err(e) if representable => return Err(Verdict::fail(format!("xb|save_error|{}", strip_digits(&e.to_string())), format!("saving a document shown in an 8x{} font (font page {p1}) as XBin failed: {e}", want.h))),
        Err(_) => return Ok(("+rejected", false)),
    };
    let back = match Buffer::from_bytes(Path::new("x.xb"), false, &bytes) {
        Ok(b) => b,
        Err(e) => return Err(Verdict::fail(format!("xb|load_error|{}", strip_digits(&e.to_string())), format!("loading the XBin just saved failed: {e}"))),
    };
    if !representable {
        // the engine accepted a font XBin cannot hold: then it must still come back unchanged
        let ok = shown("xb", &back, 0).map(|f| compare("xb", f, want).is_ok()).unwrap_or(false);
        return if ok { Ok(("+accepted_unrepresentable", true)) } else { Err(Verdict::fail("xb|unrepresentable_font_accepted", format!("a {}x{} font with {} glyphs was saved as XBin without error and does not come back", want.w, want.h, want.len))) };
    }
    // writer against the document
    if bytes.len() < 11 || &bytes[..5] != b"XBIN\x1a" {
        return Err(Verdict::fail("xb.write|header", "saved XBin does not start with the XBIN id"));
    }
    let flags = bytes[10];
    let fsize = if bytes[9] == 0 { 16 } else { bytes[9] as i32 };
    if fsize != want.h {
        return Err(Verdict::fail("xb.write|fontsize", format!("header font size {} for a picture shown in a font of height {} (font page {p1})", bytes[9], want.h)));
    }
    if (flags & 0x10 != 0) != second.is_some() {
        return Err(Verdict::fail("xb.write|flag512", format!("512-character flag is {} for a document with {} font(s)", flags & 0x10 != 0, 1 + second.is_some() as u8)));
    }
    if flags & 0x02 == 0 {
        if second.is_some() || !is_engine_default(want) {
            return Err(Verdict::fail("xb.write|font_flag", "font flag not set although the document's font is not the default font"));
        }
    } else {
        let mut o = 11 + if flags & 1 != 0 { 48 } else { 0 };
        let n = want.data.len();
        if bytes.len() < o + n || bytes[o..o + n] != want.data[..] {
            return Err(Verdict::fail("xb.write|font1_bytes", format!("the {n} font bytes at offset {o} of the saved XBin differ from the glyph bytes of the font the cells use (page {p1})")));
        }
        o += n;
        if let Some((_, w2)) = second {
            if bytes.len() < o + n || bytes[o..o + n] != w2.data[..] {
                return Err(Verdict::fail("xb.write|font2_bytes", format!("the second font ({n} bytes at offset {o}) of the saved XBin differs from the glyph bytes")));
            }
        }
    }
    // reader: the fonts the two cells are shown in
    compare("xb.font1", shown("xb.font1", &back, 0)?, want)?;
    if let Some((_, w2)) = second {
        compare("xb.font2", shown("xb.font2", &back, 1)?, w2)?;
    }
    Ok(("", true))
}

/// ADF (doc/FileFormats/Adf): version byte, 192 palette bytes, 4096 font bytes, screen data.
/// IDF (doc/FileFormats/IceDraw): header, screen data, 4096 font bytes, 48 palette bytes.
fn adf_idf_inner(ext: &'static str, font: &BitFont, want: &Ref, env: &Env) -> EncResult {
    let representable = want.is_8x256() && want.h == 16;
    let buf = doc(80, &[(env.page, font)], &[env.page], env, want.h);
    let bytes = match buf.to_bytes(ext, &opts(env)) {
        Ok(b) => b,
        Err(e) if representable => {
            return Err(Verdict::fail(format!("{ext}|save_error|{}", strip_digits(&e.to_string())), format!("saving a document shown in an 8x16 font (font page {}) as .{ext} failed: {e}", env.page)))
        }
        Err(_) => return Ok(("+rejected", false)),
    };
    let name = format!("x.{ext}");
    let back = match Buffer::from_bytes(Path::new(&name), false, &bytes) {
        Ok(b) => b,
        Err(e) => return Err(Verdict::fail(format!("{ext}|load_error|{}", strip_digits(&e.to_string())), format!("loading the .{ext} just saved failed: {e}"))),
    };
    if !representable {
        let ok = shown(ext, &back, 0).map(|f| compare(ext, f, want).is_ok()).unwrap_or(false);
        return if ok {
            Ok(("+accepted_unrepresentable", true))
        } else {
            Err(Verdict::fail(format!("{ext}|unrepresentable_font_accepted"), format!("a picture shown in a {}x{} font with {} glyphs (font page {}) was saved as .{ext} (8x16 only) without error and does not come back", want.w, want.h, want.len, env.page)))
        };
    }
    let body = without_sauce(&bytes);
    let range = if ext == "adf" { (body.len() >= 193 + 4096).then_some(193..193 + 4096) } else { (body.len() >= 12 + 4096 + 48).then(|| body.len() - 48 - 4096..body.len() - 48) };
    match range {
        Some(r) if body[r.clone()] == want.data[..] => {}
        _ => return Err(Verdict::fail(format!("{ext}.write|font_bytes"), format!("the 4096 font bytes of the saved .{ext} ({} bytes) differ from the glyph bytes of the font the cells use (page {})", bytes.len(), env.page))),
    }
    compare(ext, shown(ext, &back, 0)?, want)?;
    Ok(("", true))
}

fn enc_adf_idf(ext: &'static str, font: &BitFont, want: &Ref, env: &Env) -> EncResult {
    let r = adf_idf_inner(ext, font, want, env);
    if let Err(Verdict::Fail { msg, .. }) = &r {
        // one root cause shows as refusal, as a short file or as a font that does not come back: the writer takes the
        // font SIZE from slot 0 and the glyphs from the font page of the cells. Told apart by giving slot 0 a font of the same size.
        if env.page != 0 && env.slot0 % 3 != 2 {
            let same_size = Env { slot0: 2, ..*env };
            if adf_idf_inner(ext, font, want, &same_size).is_ok() {
                return Err(Verdict::fail(
                    format!("{ext}|font_size_taken_from_slot0"),
                    format!("[cells on font page {}, slot 0 holds {}; passes when slot 0 holds a font of the same size] {msg}", env.page, if env.slot0 % 3 == 0 { "the default 8x16 font" } else { "an 8x8 font" }),
                ));
            }
        }
    }
    r
}

fn enc_icy(font: &BitFont, want: &Ref, extra: Option<(usize, &BitFont, &Ref)>, env: &Env) -> EncResult {
    let p = env.page;
    let extra = extra.map(|(slot, f, r)| (if slot == p { slot + 1 } else { slot }, f, r));
    let buf = match extra {
        None => doc(2, &[(p, font)], &[p], env, want.h),
        Some((slot, f2, _)) => doc(2, &[(p, font), (slot, f2)], &[p, slot], env, want.h),
    };
    let saved_fonts = buf.font_count();
    let bytes = match buf.to_bytes("icy", &opts(env)) {
        Ok(b) => b,
        Err(e) => return Err(Verdict::fail(format!("icy|save_error|{}", strip_digits(&e.to_string())), format!("saving as IcyDraw failed: {e}"))),
    };
    let back = match Buffer::from_bytes(Path::new("x.icy"), false, &bytes) {
        Ok(b) => b,
        Err(e) => return Err(Verdict::fail(format!("icy|load_error|{}", strip_digits(&e.to_string())), format!("loading the IcyDraw file just saved failed: {e}"))),
    };
    compare("icy", shown("icy", &back, 0)?, want)?;
    if let Some((_, _, w2)) = extra {
        compare("icy.extra", shown("icy.extra", &back, 1)?, w2)?;
    }
    if back.font_count() != saved_fonts {
        return Err(Verdict::fail("icy|font_count", format!("{saved_fonts} fonts saved, {} loaded", back.font_count())));
    }
    Ok((if extra.is_some() { "+extra_slot" } else { "" }, true))
}

/// ANSI file: the writer carries the fonts of the pages >= 100 as CTerm font sequences in front of the text.
fn enc_ans(font: &BitFont, want: &Ref, env: &Env) -> EncResult {
    if !want.is_8x256() {
        return Ok(("+not_representable", false));
    }
    if want.psf_magic() {
        return Ok(("+psf_magic_excluded", false));
    }
    let p = 100 + env.page;
    let buf = doc(2, &[(p, font)], &[p], env, want.h);
    let bytes = match buf.to_bytes("ans", &opts(env)) {
        Ok(b) => b,
        Err(e) => return Err(Verdict::fail(format!("ans|save_error|{}", strip_digits(&e.to_string())), format!("saving a document shown in the font of page {p} as ANSI failed: {e}"))),
    };
    let back = match Buffer::from_bytes(Path::new("x.ans"), false, &bytes) {
        Ok(b) => b,
        Err(e) => return Err(Verdict::fail(format!("ans|load_error|{}", strip_digits(&e.to_string())), format!("loading the ANSI file just saved failed: {e}"))),
    };
    compare("ans", shown("ans", &back, 0)?, want)?;
    Ok(("", true))
}

struct Second<'a> {
    font: &'a BitFont,
    want: &'a Ref,
    slot: usize,
}

fn run_enc(enc: &str, font: &BitFont, want: &Ref, second: Option<Second>, env: &Env) -> EncResult {
    match enc {
        "psf2" => enc_psf2(font, want),
        "raw" => enc_raw(font, want),
        "dcs" => enc_dcs(font, want, env),
        "xb" => enc_xb(font, want, None, env),
        "xb2" => match second {
            Some(s) => enc_xb(font, want, Some((s.font, s.want)), env),
            None => Ok(("+not_representable", false)),
        },
        "adf" => enc_adf_idf("adf", font, want, env),
        "idf" => enc_adf_idf("idf", font, want, env),
        "ans" => enc_ans(font, want, env),
        _ => enc_icy(font, want, second.map(|s| (s.slot, s.font, s.want)), env),
    }
}

// ------------------------------------------------------------------------------------------------ construction routes

/// How the font object that goes into the encoding was made. The expected result of every encoding is the glyph
/// data the font object REPORTS (`glyphs` / `get_glyph`), never a cached field (name, checksum, font type).
/// * create_8 / from_basic / from_raw (`from_bytes` of headerless glyph bytes) / from_psf2 (`from_bytes` of PSF2 bytes
///   written by the harness): from the case's glyph model;
/// * edited: a built-in font page or SAUCE font whose glyphs (1..=8 of them) were then changed IN PLACE through the
///   public `glyphs` map / `get_glyph_mut`, name kept, `calculate_checksum` not called (the way a font editor works);
/// * edited_renamed: the same, and the name changed; * renamed: a built-in font with only the name changed.
pub const ROUTES: &[&str] = &["create_8", "from_basic", "from_raw", "from_psf2", "edited", "edited_renamed", "renamed"];

fn source_count() -> usize {
    PAGES + SAUCE_FONT_NAMES.len()
}

fn source_label(src: usize) -> String {
    if src < PAGES {
        format!("page:{src}")
    } else {
        format!("sauce:{}", SAUCE_FONT_NAMES[(src - PAGES).min(SAUCE_FONT_NAMES.len() - 1)])
    }
}

fn load_source(label: &str) -> Result<BitFont, Verdict> {
    let loaded = if let Some(n) = label.strip_prefix("page:") { BitFont::from_ansi_font_page(n.parse().unwrap_or(usize::MAX)) } else { BitFont::from_sauce_name(label.strip_prefix("sauce:").unwrap_or("")) };
    loaded.map_err(|e| Verdict::fail("builtin|load_error", format!("{label} cannot be loaded: {e}")))
}

/// the model of a built-in font is what the font object reports: size, length, glyphs 0..length
fn reported(label: &str, font: &BitFont) -> Result<Ref, Verdict> {
    if font.length <= 0 || font.size.height <= 0 {
        return Err(Verdict::fail("builtin|empty", format!("{label}: length {} height {}", font.length, font.size.height)));
    }
    let mut data = Vec::new();
    for g in 0..font.length as u32 {
        match char::from_u32(g).and_then(|ch| font.get_glyph(ch)) {
            Some(gl) if gl.data.len() == font.size.height as usize => data.extend(&gl.data),
            Some(gl) => return Err(Verdict::fail("builtin|glyph_height", format!("{label}: glyph {g} has {} rows, font height is {}", gl.data.len(), font.size.height))),
            None => return Err(Verdict::fail("builtin|glyph_missing", format!("{label}: glyph {g} of {} is missing in the shipped font", font.length))),
        }
    }
    Ok(Ref { w: font.size.width, h: font.size.height, len: font.length, data })
}

/// change glyphs in place (font object and model alike); `new_glyph(g, old)` gives the new rows
fn edit_in_place(font: &mut BitFont, want: &mut Ref, glyphs: &[u8], new_glyph: &dyn Fn(usize, &[u8]) -> Vec<u8>) {
    let h = want.h as usize;
    for (i, g) in glyphs.iter().enumerate() {
        let g = *g as usize % want.len as usize;
        let old = want.glyph(g).to_vec();
        let mut new = new_glyph(g, &old);
        new.resize(h, 0);
        if new == old {
            new[0] ^= 0x01;
        }
        let ch = char::from_u32(g as u32).unwrap();
        // both public ways to reach a glyph
        let slot = if i % 2 == 0 { font.get_glyph_mut(ch) } else { font.glyphs.get_mut(&ch) };
        if let Some(gl) = slot {
            gl.data.copy_from_slice(&new);
        }
        want.data[g * h..(g + 1) * h].copy_from_slice(&new);
    }
}

/// build the font object for a built-in based route
fn builtin_route(route: &str, label: &str, glyphs: &[u8], new_glyph: &dyn Fn(usize, &[u8]) -> Vec<u8>) -> Result<(BitFont, Ref), Verdict> {
    let mut font = load_source(label)?;
    let mut want = reported(label, &font)?;
    if matches!(route, "edited" | "edited_renamed") {
        edit_in_place(&mut font, &mut want, glyphs, new_glyph);
    }
    if matches!(route, "edited_renamed" | "renamed") {
        font.name = "icyv edited font".to_string();
    }
    // harness sanity: the object reports what the model says
    compare("route.builtin", &font, &want)?;
    Ok((font, want))
}

/// A failure is attributed before it is keyed. (1) When the font carries a special NAME and the same object under a
/// neutral name passes, the name is the input class (`|name=<class>`). (2) Otherwise, on a route other than create_8,
/// a fresh create_8 font of the same glyphs (neutral name) is tried: when it passes, the route is the input class
/// (`|route=<r>`). (3) Otherwise the defect depends on neither and the plain key is reported.
fn attribute(v: Verdict, font: &BitFont, want: &Ref, route: &str, name_class: Option<&str>, rerun: &dyn Fn(&BitFont) -> EncResult) -> Verdict {
    let Verdict::Fail { key, msg } = &v else { return v };
    let same = |r: EncResult| matches!(r, Err(Verdict::Fail { key: k2, .. }) if k2 == *key);
    if let Some(class) = name_class {
        let mut neutral = font.clone();
        neutral.name = "icyv font".to_string();
        if !same(rerun(&neutral)) {
            return Verdict::fail(format!("{key}|name={class}"), format!("[font named {:?}; the same font object under a neutral name passes] {msg}", font.name));
        }
    }
    if route != "create_8" && !same(rerun(&build(want, false))) {
        // (edited and edited_renamed differ by the name only, which step 1 has dealt with)
        let class = if route == "edited_renamed" { "edited" } else { route };
        return Verdict::fail(format!("{key}|route={class}"), format!("[font made by route '{route}'; the same glyphs in a fresh create_8 font pass] {msg}"));
    }
    v
}

/// FONT NAMES are a dimension of their own: own glyphs under the name of a SAUCE font, of a built-in page, of the
/// default font, under "custom font N" (the name the DCS loader gives) or without a name.
fn special_name(kind: u8, idx: u16, slot: u16, page: u16) -> Option<String> {
    match kind {
        1 => Some(SAUCE_FONT_NAMES[pick(idx, SAUCE_FONT_NAMES.len())].to_string()),
        2 => Some(FONT_NAMES[pick(idx, FONT_NAMES.len())].to_string()),
        3 => Some(FONT_NAMES[0].to_string()),
        4 => Some(format!("custom font {}", if idx % 2 == 0 { slot } else { page })),
        5 => Some(String::new()),
        _ => None,
    }
}

fn name_class(name: &str) -> &'static str {
    if name == FONT_NAMES[0] {
        "default_font_name"
    } else if SAUCE_FONT_NAMES.contains(&name) {
        "sauce_font_name"
    } else if FONT_NAMES.contains(&name) {
        "builtin_page_name"
    } else if name.starts_with("custom font ") {
        "custom_font_n"
    } else if name.is_empty() {
        "empty"
    } else {
        "other"
    }
}

// ------------------------------------------------------------------------------------------------ generated part

#[derive(Clone, Debug, Hash, Serialize, Deserialize)]
pub struct BmCase {
    /// index into ENCS
    pub enc: u8,
    /// index into ROUTES
    pub route: u8,
    /// built-in routes: selector of the font page / SAUCE font (0 = page 0, the default font)
    pub src: u16,
    /// built-in routes: numbers of the glyphs edited in place (their new rows are the model font's rows of that glyph)
    pub edits: Vec<u8>,
    pub font: FontM,
    /// xb2: the second font (its height is forced to the first font's); icy: a further font in slot max(slot,1)
    pub font2: Option<FontM>,
    /// font slot for the DCS sequence / the extra IcyDraw font
    pub slot: u16,
    /// bit 0: SaveOptions::compress; bit 1 (document encodings): the font slots already hold another font;
    /// bit 2 (document encodings): SaveOptions::save_sauce
    pub flags: u8,
    /// the name the font object carries when it is encoded (None = what the construction route gave it)
    #[serde(default)]
    pub name: Option<String>,
    /// document encodings: font page of the cells = slot of the font under test (ANSI files: 100 + page)
    #[serde(default)]
    pub page: u16,
    /// document encodings, page != 0: slot 0 holds 0 = the default font, 1 = an 8x8 font, 2 = a font of the same size
    #[serde(default)]
    pub slot0: u8,
    /// DCS: what the terminal went through before the font under test is sent (see `Pre`)
    #[serde(default)]
    pub pre: Vec<Pre>,
}

fn fills() -> BoxedStrategy<Fill> {
    prop_oneof![
        2 => any::<u8>().prop_map(Fill::Const),
        1 => Just(Fill::Const(0)),
        1 => Just(Fill::Const(0xFF)),
        2 => Just(Fill::Index),
        6 => any::<u32>().prop_map(Fill::Prng),
    ]
    .boxed()
}

fn heads() -> BoxedStrategy<Bytes> {
    prop_oneof![
        12 => Just(Vec::new()),
        4 => vec(any::<u8>(), 1..=8),
        // glyph 0 starts with the PSF1 / PSF2 magic: not representable headerless (raw, DCS), fine everywhere else
        1 => Just(vec![0x36u8, 0x04]),
        1 => (0u8..=5, any::<u8>()).prop_map(|(m, c)| vec![0x36, 0x04, m, c]),
        1 => vec(any::<u8>(), 0..=4).prop_map(|mut t| { let mut v = vec![0x72u8, 0xb5, 0x4a, 0x86]; v.append(&mut t); v }),
        // near misses of the magics
        1 => prop::sample::select(vec![vec![0x36u8, 0x05], vec![0x04, 0x36], vec![0x72, 0xb5, 0x4a, 0x87], vec![0x86, 0x4a, 0xb5, 0x72]]),
    ]
    .prop_map(Bytes)
    .boxed()
}

fn heights() -> BoxedStrategy<u8> {
    prop_oneof![4 => 1u8..=32, 2 => prop::sample::select(vec![8u8, 14, 16, 19]), 1 => prop::sample::select(vec![1u8, 2, 31, 32])].boxed()
}

fn fonts(h: BoxedStrategy<u8>, big: BoxedStrategy<bool>) -> BoxedStrategy<FontM> {
    (h, big, fills(), vec((any::<u16>(), any::<u8>()), 0..=6), heads()).prop_map(|(h, big, fill, patch, head)| FontM { h, big, fill, patch, head }).boxed()
}

pub fn cases() -> BoxedStrategy<BmCase> {
    let per_enc: Vec<BoxedStrategy<BmCase>> = (0..ENCS.len() as u8)
        .map(|enc| {
            let name = ENCS[enc as usize];
            let h = match name {
                // ADF / IDF hold 8x16 only; other heights must be refused
                "adf" | "idf" => prop_oneof![5 => Just(16u8), 1 => heights()].boxed(),
                _ => heights(),
            };
            let big = match name {
                "psf2" | "icy" => any::<bool>().boxed(),
                _ => Just(false).boxed(),
            };
            let second = match name {
                "xb2" => fonts(Just(1u8).boxed(), Just(false).boxed()).prop_map(Some).boxed(),
                "icy" => prop_oneof![1 => Just(None), 1 => fonts(heights(), any::<bool>().boxed()).prop_map(Some)].boxed(),
                _ => Just(None).boxed(),
            };
            let slot = prop_oneof![3 => Just(0u16), 4 => 1u16..=42, 2 => 43u16..=255, 1 => 256u16..=u16::MAX];
            // the route is independent of the glyph data and of the encoding
            let route = prop_oneof![3 => Just(0u8), 2 => Just(1u8), 2 => Just(2u8), 2 => Just(3u8), 3 => Just(4u8), 2 => Just(5u8), 1 => Just(6u8)];
            let src = prop_oneof![3 => Just(0u16), 3 => any::<u16>()];
            let pre = if name == "dcs" {
                let target = || (prop::bool::weighted(0.7), 0u8..3);
                let step = prop_oneof![
                    6 => (target(), 0u8..3, fonts(heights(), Just(false).boxed())).prop_map(|((same_slot, other), kind, font)| Pre::Load { same_slot, other, kind, font }),
                    2 => target().prop_map(|(same_slot, other)| Pre::Select { same_slot, other }),
                    1 => Just(Pre::Ris),
                    1 => Just(Pre::SoftReset),
                    1 => Just(Pre::Text),
                ];
                prop_oneof![1 => Just(Vec::new()), 4 => vec(step, 1..=5)].boxed()
            } else {
                Just(Vec::new()).boxed()
            };
            let is_doc = matches!(name, "xb" | "xb2" | "adf" | "idf" | "icy" | "ans");
            let flags = if is_doc { (0u8..8).boxed() } else { Just(0u8).boxed() };
            let page = if is_doc { prop_oneof![6 => Just(0u16), 1 => Just(1u16), 1 => Just(2u16), 1 => Just(7u16), 1 => Just(42u16), 1 => Just(255u16), 1 => 1u16..=300].boxed() } else { Just(0u16).boxed() };
            let names = (prop_oneof![8 => Just(0u8), 4 => Just(1u8), 3 => Just(2u8), 1 => Just(3u8), 2 => Just(4u8), 1 => Just(5u8)], any::<u16>());
            ((fonts(h, big), second, slot, flags), (route, src, vec(any::<u8>(), 1..=8), pre), (names, page, 0u8..3))
                .prop_map(move |((font, font2, slot, flags), (route, src, edits, pre), ((nk, ni), page, slot0))| BmCase {
                    enc,
                    route,
                    src,
                    edits,
                    font,
                    font2,
                    slot,
                    flags,
                    name: special_name(nk, ni, slot, page),
                    page,
                    slot0,
                    pre,
                })
                .boxed()
        })
        .collect();
    proptest::strategy::Union::new(per_enc).boxed()
}

fn ref_of(m: &FontM, enc: &str, force_h: Option<u8>) -> Ref {
    let h = force_h.unwrap_or(m.h).clamp(1, 32);
    let glyphs = if m.big && matches!(enc, "psf2" | "icy") { 512 } else { 256 };
    Ref { w: 8, h: h as i32, len: glyphs as i32, data: m.data(h as usize, glyphs) }
}

/// font object + model for the case's route
fn make(c: &BmCase, enc: &str, route: &str) -> Result<(BitFont, Ref), Verdict> {
    match route {
        "edited" | "edited_renamed" | "renamed" => {
            let label = source_label(pick(c.src, source_count()));
            let m = &c.font;
            builtin_route(route, &label, &c.edits, &|g, old| {
                let h = old.len();
                m.data(h, 256)[g % 256 * h..(g % 256 + 1) * h].to_vec()
            })
        }
        _ => {
            let want = ref_of(&c.font, enc, None);
            let raw_ok = want.len == 256 && !want.psf_magic();
            let (tag, font) = match route {
                "from_basic" => ("from_basic", build(&want, true)),
                "from_raw" if raw_ok => match BitFont::from_bytes("icyv font", &want.data) {
                    Ok(f) => ("raw", f),
                    Err(e) => return Err(Verdict::fail("raw|load_error", format!("from_bytes rejects {} bytes of raw glyph data (height {}): {e}", want.data.len(), want.h))),
                },
                // (glyph bytes that cannot be given headerless go through PSF2 instead)
                "from_raw" | "from_psf2" => match BitFont::from_bytes("icyv font", &ref_psf2(&want)) {
                    Ok(f) => ("psf2.read", f),
                    Err(e) => return Err(Verdict::fail("psf2.read|load_error", format!("from_bytes rejects a PSF2 file with {} glyphs of height {}: {e}", want.len, want.h))),
                },
                _ => ("create_8", build(&want, false)),
            };
            // the constructors / loaders are themselves conversions of the statement (glyph bytes -> font object)
            compare(tag, &font, &want)?;
            Ok((font, want))
        }
    }
}

pub fn check(c: &BmCase) -> Verdict {
    let enc = ENCS[c.enc as usize % ENCS.len()];
    let route = ROUTES[c.route as usize % ROUTES.len()];
    let (mut font, want) = match make(c, enc, route) {
        Ok(x) => x,
        Err(v) => return v,
    };
    if let Some(n) = &c.name {
        font.name = n.clone();
    }
    let second_ref = match (enc, &c.font2) {
        ("xb2", Some(m)) if want.h <= 32 => Some(ref_of(m, enc, Some(want.h as u8))),
        ("icy", Some(m)) => Some(ref_of(m, enc, None)),
        _ => None,
    };
    let second_font = second_ref.as_ref().map(|r| build(r, false));
    let second = || match (&second_font, &second_ref) {
        (Some(f), Some(r)) => Some(Second { font: f, want: r, slot: c.slot.max(1) as usize }),
        _ => None,
    };
    let env = Env { slot: c.slot as usize, compress: c.flags & 1 != 0, stale: c.flags & 2 != 0, save_sauce: c.flags & 4 != 0, page: c.page as usize, slot0: c.slot0, pre: &c.pre };
    let is_doc = matches!(enc, "xb" | "xb2" | "adf" | "idf" | "icy" | "ans");
    match run_enc(enc, &font, &want, second(), &env) {
        Ok((suffix, performed)) => {
            let big = if want.len == 512 { "+512" } else { "" };
            let target = if !performed || enc != "dcs" { suffix } else if suffix == "+reload" { "+reload" } else { "" };
            // (document dimensions are folded into two markers to keep the histogram readable)
            let used = if is_doc && performed && (env.stale || env.page != 0) { "+used_slots" } else { "" };
            let sauce = if is_doc && performed && env.save_sauce { "+sauce" } else { "" };
            let named = if c.name.is_some() { "+named" } else { "" };
            Verdict::pass(performed && want.varied(), format!("{enc}{big}|{route}{target}{used}{sauce}{named}"))
        }
        Err(v) => attribute(v, &font, &want, route, Some(name_class(&font.name)).filter(|c| *c != "other"), &|f| run_enc(enc, f, &want, second(), &env)),
    }
}

/// simpler candidates for the greedy minimiser
pub fn minimize(c: &BmCase) -> Vec<BmCase> {
    let mut out = Vec::new();
    let simpler_font = |f: &FontM| -> Vec<FontM> {
        let mut v = Vec::new();
        if !f.patch.is_empty() {
            v.push(FontM { patch: Vec::new(), ..f.clone() });
        }
        if !f.head.is_empty() {
            v.push(FontM { head: Bytes(Vec::new()), ..f.clone() });
            v.push(FontM { head: Bytes(f.head[..f.head.len() - 1].to_vec()), ..f.clone() });
        }
        if f.fill != Fill::Index {
            v.push(FontM { fill: Fill::Index, ..f.clone() });
        }
        if f.big {
            v.push(FontM { big: false, ..f.clone() });
        }
        if f.h != 16 {
            v.push(FontM { h: 16, ..f.clone() });
        }
        v
    };
    for i in 0..c.pre.len() {
        let mut pre = c.pre.clone();
        pre.remove(i);
        out.push(BmCase { pre, ..c.clone() });
    }
    for (i, p) in c.pre.iter().enumerate() {
        if let Pre::Load { same_slot, other, kind, font } = p {
            let plain = FontM { h: 16, big: false, fill: Fill::Index, patch: Vec::new(), head: Bytes(Vec::new()) };
            if *font != plain {
                let mut pre = c.pre.clone();
                pre[i] = Pre::Load { same_slot: *same_slot, other: *other, kind: *kind, font: plain };
                out.push(BmCase { pre, ..c.clone() });
            }
        }
    }
    if c.name.is_some() {
        out.push(BmCase { name: None, ..c.clone() });
    }
    if c.page != 0 {
        out.push(BmCase { page: 0, ..c.clone() });
        out.push(BmCase { page: 1, ..c.clone() });
    }
    if c.slot0 != 0 {
        out.push(BmCase { slot0: 0, ..c.clone() });
    }
    for bit in [1u8, 2, 4] {
        if c.flags & bit != 0 && c.flags != bit {
            out.push(BmCase { flags: c.flags & !bit, ..c.clone() });
        }
    }
    if c.route != 0 {
        out.push(BmCase { route: 0, ..c.clone() });
    }
    if c.src != 0 {
        out.push(BmCase { src: 0, ..c.clone() });
    }
    if c.edits.len() > 1 {
        out.push(BmCase { edits: c.edits[..1].to_vec(), ..c.clone() });
        out.push(BmCase { edits: c.edits[1..].to_vec(), ..c.clone() });
    }
    if c.edits != [b'A'] {
        out.push(BmCase { edits: vec![b'A'], ..c.clone() });
    }
    for f in simpler_font(&c.font) {
        out.push(BmCase { font: f, ..c.clone() });
    }
    if let Some(f2) = &c.font2 {
        if ENCS[c.enc as usize % ENCS.len()] != "xb2" {
            out.push(BmCase { font2: None, ..c.clone() });
        }
        for f in simpler_font(f2) {
            out.push(BmCase { font2: Some(f), ..c.clone() });
        }
    }
    if c.slot != 0 {
        out.push(BmCase { slot: 0, ..c.clone() });
        out.push(BmCase { slot: 1, ..c.clone() });
    }
    if c.flags != 0 {
        out.push(BmCase { flags: 0, ..c.clone() });
    }
    out
}

// ------------------------------------------------------------------------------------------------ enumerated part: built-in fonts

/// every font page / SAUCE font x every encoding x {as loaded, edited in place, edited in place and renamed, renamed}
pub const BUILTIN_ROUTES: &[&str] = &["builtin", "edited", "edited_renamed", "renamed"];

#[derive(Clone, Debug, Hash, Serialize, Deserialize)]
pub struct BuiltinCase {
    /// "page:<n>" or "sauce:<name>"
    pub source: String,
    pub enc: String,
    /// one of BUILTIN_ROUTES; the edit redraws the glyphs 'A', 'B' and 0xDB: row y of the i-th ^= 0x81 | 1 << ((y + i) % 8)
    pub route: String,
}

pub fn builtin_total() -> u64 {
    (source_count() * ENCS.len() * BUILTIN_ROUTES.len()) as u64
}

pub fn builtin_case(i: u64) -> BuiltinCase {
    let i = i as usize;
    let route = BUILTIN_ROUTES[i % BUILTIN_ROUTES.len()].to_string();
    let i = i / BUILTIN_ROUTES.len();
    let enc = ENCS[i % ENCS.len()].to_string();
    BuiltinCase { source: source_label(i / ENCS.len()), enc, route }
}

pub fn check_builtin(c: &BuiltinCase) -> Verdict {
    let route = c.route.as_str();
    let edited = [b'A', b'B', 0xDB];
    let (font, want) = match builtin_route(route, &c.source, &edited, &|g, old| {
        let i = edited.iter().position(|e| *e as usize == g).unwrap_or(0);
        old.iter().enumerate().map(|(y, row)| row ^ (0x81 | (1 << ((y + i) % 8)))).collect()
    }) {
        Ok(x) => x,
        Err(v) => return v,
    };
    let enc = c.enc.as_str();
    // second font for the two-font encodings: the bitwise complement (same height, certainly different glyphs)
    let inv = want.inverted();
    let inv_font = if want.w <= 8 && want.len == 256 { Some(build(&inv, false)) } else { None };
    let second = || match (enc, &inv_font) {
        ("xb2", Some(f)) if want.is_8x256() => Some(Second { font: f, want: &inv, slot: 1 }),
        _ => None,
    };
    let slot = if c.source.len() % 2 == 0 { 0 } else { 7 };
    // the edited routes meet a used target: "edited" (name of the built-in kept: own glyphs under a SAUCE / page name) a slot
    // loaded before, occupied document slots and a SAUCE record; "edited_renamed" sits on font page 7 with the default
    // font in slot 0; the others a fresh target
    let used = matches!(route, "edited" | "edited_renamed");
    let pre = if used { vec![Pre::Load { same_slot: true, other: 0, kind: 1, font: FontM { h: 16, big: false, fill: Fill::Index, patch: Vec::new(), head: Bytes(Vec::new()) } }] } else { Vec::new() };
    let env = Env { slot, compress: true, stale: used, save_sauce: route == "edited", page: if route == "edited_renamed" { 7 } else { 0 }, slot0: 0, pre: &pre };
    match run_enc(enc, &font, &want, second(), &env) {
        Ok((suffix, performed)) => Verdict::pass(performed, format!("{enc}|{route}|{}x{}x{}{}", want.w, want.h, want.len, if performed { "" } else { suffix })),
        Err(v) => attribute(v, &font, &want, route, Some(name_class(&font.name)).filter(|c| *c != "other"), &|f| run_enc(enc, f, &want, second(), &env)),
    }
}
