//! TheDraw-font half of C17: model, reference TDF encoder and decoder, oracles.
//!
//! TDF layout (constants at the top of src/tdf_font/mod.rs; the classic TheDraw FONTS file):
//!   file  : 0x13, "TheDraw FONTS file", 0x1A, font*, [0x00]
//!   font  : 55 AA 00 FF, name length (<= 12), 12 name bytes (zero padded), 4 reserved bytes, type (0 outline,
//!           1 block, 2 colour), letter spacing (<= 40), block size u16le, 94 x u16le glyph offset into the block
//!           (0xFFFF = glyph not defined, characters '!'..='~'), block
//!   glyph : width, height, data, 0x00. Data: rows separated by 0x0D; outline/block one byte per cell, colour
//!           two bytes per cell (character, attribute); a row separator is a single byte in every type.
//! A font whose block is longer than 0xFFFF bytes (or that has a glyph at offset >= 0xFFFF) cannot be expressed.
use icy_engine::{FontGlyph, FontType, Size, TheDrawFont};
use icyv::proptest::collection::vec;
use icyv::proptest::prelude::*;
use icyv::util::pick;
use icyv::Verdict;
use serde::{Deserialize, Serialize};

pub const SLOTS: usize = 94;
const ID: &[u8; 18] = b"TheDraw FONTS file";

// ------------------------------------------------------------------------------------------------ model

#[derive(Clone, Debug, Hash, PartialEq, Eq, Serialize, Deserialize)]
pub enum Body {
    /// rows of cells (character, attribute); the attribute is only stored by colour fonts
    Rows(Vec<Vec<(u8, u8)>>),
    /// h rows of w equal cells
    Solid(u8, u8),
}

#[derive(Clone, Debug, Hash, PartialEq, Eq, Serialize, Deserialize)]
pub struct GlyphM {
    /// selector into the still undefined characters (monotone)
    pub slot: u16,
    pub w: u8,
    pub h: u8,
    pub body: Body,
}

#[derive(Clone, Debug, Hash, PartialEq, Eq, Serialize, Deserialize)]
pub struct FontM {
    pub name: String,
    /// 0 outline, 1 block, 2 colour
    pub kind: u8,
    pub spacing: u8,
    pub glyphs: Vec<GlyphM>,
}

/// mode 0: one font through as_tdf_bytes; 1: create_font_bundle; 2: reference encoder -> from_tdf_bytes.
/// layout (mode 2): bit 0 = glyph records stored in reverse order inside the block, bit 1 = terminating zero byte.
/// layout (modes 0, 1): bits 0-1 = how the font objects are made (0 fresh, 1 occupied glyph table overwritten, 2 recycled
/// object read from a file, see FontM::build); bit 2 (mode 1, >= 2 fonts) = the bundle is an APPENDED one: the first half
/// is written, read back, the loaded fonts plus the rest are written again (load bundle - add fonts - save).
#[derive(Clone, Debug, Hash, Serialize, Deserialize)]
pub struct TdfCase {
    pub mode: u8,
    pub layout: u8,
    pub fonts: Vec<FontM>,
}

/// a cell character is never 0 (glyph terminator) nor 13 (row separator)
fn cell_char(c: u8) -> u8 {
    match c {
        0 => b' ',
        13 => 0xDB,
        c => c,
    }
}

type Table = Vec<Option<(u8, u8, Vec<u8>)>>;

impl GlyphM {
    fn data(&self, colour: bool) -> Vec<u8> {
        let mut d = Vec::new();
        let push = |d: &mut Vec<u8>, c: (u8, u8)| {
            d.push(cell_char(c.0));
            if colour {
                d.push(c.1);
            }
        };
        match &self.body {
            Body::Rows(rows) => {
                for (i, r) in rows.iter().enumerate() {
                    if i > 0 {
                        d.push(13);
                    }
                    for c in r {
                        push(&mut d, *c);
                    }
                }
            }
            Body::Solid(ch, attr) => {
                for y in 0..self.h {
                    if y > 0 {
                        d.push(13);
                    }
                    for _ in 0..self.w {
                        push(&mut d, (*ch, *attr));
                    }
                }
            }
        }
        d
    }
}

impl FontM {
    /// the 94-entry glyph table this model describes
    pub fn table(&self) -> Table {
        let mut t: Table = vec![None; SLOTS];
        let mut free: Vec<usize> = (0..SLOTS).collect();
        for g in &self.glyphs {
            if free.is_empty() {
                break;
            }
            let idx = free.remove(pick(g.slot, free.len()));
            t[idx] = Some((g.w.clamp(1, 30), g.h.clamp(1, 12), g.data(self.kind == 2)));
        }
        t
    }
    fn block_len(&self) -> usize {
        self.table().iter().flatten().map(|(_, _, d)| d.len() + 3).sum()
    }
    fn font_type(&self) -> FontType {
        match self.kind {
            0 => FontType::Outline,
            1 => FontType::Block,
            _ => FontType::Color,
        }
    }
    fn fill_table(&self, f: &mut TheDrawFont) {
        for (i, g) in self.table().into_iter().enumerate() {
            let ch = (33 + i as u8) as char;
            match g {
                Some((w, h, data)) => f.set_glyph(ch, FontGlyph { size: Size::new(w as i32, h as i32), data }),
                None => f.clear_glyph(ch),
            }
        }
    }
    /// how 0: a fresh object, only the defined glyphs set; 1: every character first holds another glyph, then the
    /// table is overwritten (set_glyph / clear_glyph on occupied entries); 2: a recycled object, i.e. a different font
    /// read from a TDF file whose name, type, spacing and whole glyph table are then reassigned.
    fn build(&self, how: u8) -> Result<TheDrawFont, String> {
        let dummy = |k: u8| FontGlyph { size: Size::new(2, 1), data: if k == 2 { vec![b'X', 0x1F, b'Y', 0x2E] } else { vec![b'X', b'Y'] } };
        match how % 3 {
            0 => {
                let mut f = TheDrawFont::new(self.name.clone(), self.font_type(), self.spacing as i32);
                for (i, g) in self.table().into_iter().enumerate() {
                    if let Some((w, h, data)) = g {
                        f.set_glyph((33 + i as u8) as char, FontGlyph { size: Size::new(w as i32, h as i32), data });
                    }
                }
                Ok(f)
            }
            1 => {
                let mut f = TheDrawFont::new(self.name.clone(), self.font_type(), self.spacing as i32);
                for i in 0..SLOTS {
                    f.set_glyph((33 + i as u8) as char, dummy(self.kind));
                }
                self.fill_table(&mut f);
                Ok(f)
            }
            _ => {
                let other = FontM {
                    name: "Recycled".to_string(),
                    kind: (self.kind + 1) % 3,
                    spacing: 7,
                    glyphs: (0..SLOTS).map(|_| GlyphM { slot: 0, w: 2, h: 2, body: Body::Solid(b'#', 0x4F) }).collect(),
                };
                let bytes = ref_encode(&[other], 0).ok_or("harness: dummy font not encodable")?;
                let mut f = TheDrawFont::from_tdf_bytes(&bytes).map_err(|e| e.to_string())?.pop().ok_or("no font read")?;
                f.name = self.name.clone();
                f.font_type = self.font_type();
                f.spaces = self.spacing as i32;
                self.fill_table(&mut f);
                Ok(f)
            }
        }
    }
}

// ------------------------------------------------------------------------------------------------ reference encoder / decoder

fn ref_encode(fonts: &[FontM], layout: u8) -> Option<Vec<u8>> {
    let mut out = vec![ID.len() as u8 + 1];
    out.extend(ID);
    out.push(0x1A);
    for f in fonts {
        let name = f.name.as_bytes();
        if name.len() > 12 {
            return None;
        }
        out.extend([0x55, 0xAA, 0x00, 0xFF]);
        out.push(name.len() as u8);
        out.extend(name);
        out.extend(std::iter::repeat(0).take(12 - name.len()));
        out.extend([0, 0, 0, 0]);
        out.push(f.kind.min(2));
        out.push(f.spacing);
        let table = f.table();
        let mut order: Vec<usize> = (0..SLOTS).filter(|i| table[*i].is_some()).collect();
        if layout & 1 != 0 {
            order.reverse();
        }
        let mut offsets = vec![0xFFFFu16; SLOTS];
        let mut block = Vec::new();
        for i in order {
            let (w, h, d) = table[i].as_ref().unwrap();
            if block.len() >= 0xFFFF {
                return None;
            }
            offsets[i] = block.len() as u16;
            block.push(*w);
            block.push(*h);
            block.extend(d);
            block.push(0);
        }
        if block.len() > 0xFFFF {
            return None;
        }
        out.extend((block.len() as u16).to_le_bytes());
        for o in offsets {
            out.extend(o.to_le_bytes());
        }
        out.extend(block);
    }
    if layout & 2 != 0 {
        out.push(0);
    }
    Some(out)
}

struct DecFont {
    name: Vec<u8>,
    kind: u8,
    spacing: u8,
    table: Table,
}

/// Err((stable tag, detail))
fn ref_decode(b: &[u8]) -> Result<Vec<DecFont>, (&'static str, String)> {
    if b.len() < 20 || b[0] != 19 || &b[1..19] != ID || b[19] != 0x1A {
        return Err(("file_header", "file does not start with 0x13 \"TheDraw FONTS file\" 0x1A".into()));
    }
    let mut o = 20;
    let mut fonts = Vec::new();
    while o < b.len() {
        if b[o] == 0 {
            if o + 1 != b.len() {
                return Err(("trailing_bytes", format!("{} bytes after the terminating zero at {o}", b.len() - o - 1)));
            }
            break;
        }
        if b.len() < o + 4 + 1 + 12 + 4 + 1 + 1 + 2 + 2 * SLOTS {
            return Err(("font_header_truncated", format!("font header at {o} does not fit into {} bytes", b.len())));
        }
        if b[o..o + 4] != [0x55, 0xAA, 0x00, 0xFF] {
            return Err(("font_indicator", format!("no font indicator at {o}: {:02x?}", &b[o..o + 4])));
        }
        o += 4;
        let nlen = b[o] as usize;
        o += 1;
        if nlen > 12 {
            return Err(("name_length", format!("name length byte {nlen}")));
        }
        let mut name = b[o..o + nlen].to_vec();
        if let Some(z) = name.iter().position(|c| *c == 0) {
            name.truncate(z);
        }
        o += 12 + 4;
        let kind = b[o];
        let spacing = b[o + 1];
        if kind > 2 {
            return Err(("font_type", format!("font type byte {kind}")));
        }
        if spacing > 40 {
            return Err(("spacing_range", format!("letter spacing byte {spacing}")));
        }
        let bsize = u16::from_le_bytes([b[o + 2], b[o + 3]]) as usize;
        o += 4;
        let offs: Vec<usize> = (0..SLOTS).map(|i| u16::from_le_bytes([b[o + 2 * i], b[o + 2 * i + 1]]) as usize).collect();
        o += 2 * SLOTS;
        if o + bsize > b.len() {
            return Err(("block_size", format!("block of {bsize} bytes at {o} exceeds the file ({} bytes)", b.len())));
        }
        let block = &b[o..o + bsize];
        let mut table: Table = Vec::new();
        for (i, off) in offs.iter().enumerate() {
            if *off == 0xFFFF {
                table.push(None);
                continue;
            }
            if off + 2 > bsize {
                return Err(("glyph_offset", format!("glyph {i}: offset {off} outside the block of {bsize} bytes")));
            }
            let (w, h) = (block[*off], block[off + 1]);
            let mut p = off + 2;
            let mut d = Vec::new();
            loop {
                let Some(c) = block.get(p).copied() else {
                    return Err(("glyph_unterminated", format!("glyph {i} at offset {off} runs out of the block of {bsize} bytes")));
                };
                p += 1;
                if c == 0 {
                    break;
                }
                d.push(c);
                if kind == 2 && c != 13 {
                    let Some(a) = block.get(p).copied() else {
                        return Err(("glyph_unterminated", format!("glyph {i}: attribute byte missing at the end of the block")));
                    };
                    p += 1;
                    d.push(a);
                }
            }
            table.push(Some((w, h, d)));
        }
        o += bsize;
        fonts.push(DecFont { name, kind, spacing, table });
    }
    Ok(fonts)
}

// ------------------------------------------------------------------------------------------------ comparison

fn kind_of(t: FontType) -> u8 {
    match t {
        FontType::Outline => 0,
        FontType::Block => 1,
        FontType::Color => 2,
    }
}

fn kind_name(k: u8) -> &'static str {
    ["outline", "block", "colour"][k.min(2) as usize]
}

fn cmp_table(tag: &str, fi: usize, kind: u8, got: &dyn Fn(usize) -> Option<(i32, i32, Vec<u8>)>, want: &Table) -> Result<(), Verdict> {
    for (i, w) in want.iter().enumerate() {
        let ch = (33 + i as u8) as char;
        match (got(i), w) {
            (None, None) => {}
            (Some(_), None) => return Err(Verdict::fail(format!("{tag}|glyph_invented"), format!("font {fi}: character {ch:?} is defined after decoding, it was not defined in the font"))),
            (None, Some(_)) => return Err(Verdict::fail(format!("{tag}|glyph_lost"), format!("font {fi}: character {ch:?} is not defined after decoding"))),
            (Some((gw, gh, gd)), Some((ww, wh, wd))) => {
                if gw != *ww as i32 || gh != *wh as i32 {
                    return Err(Verdict::fail(format!("{tag}|glyph_size"), format!("font {fi} character {ch:?}: size {gw}x{gh} decoded, {ww}x{wh} encoded")));
                }
                if gd != *wd {
                    let at = gd.iter().zip(wd.iter()).position(|(a, b)| a != b).unwrap_or(gd.len().min(wd.len()));
                    return Err(Verdict::fail(
                        format!("{tag}|glyph_data|{}", kind_name(kind)),
                        format!("font {fi} character {ch:?}: data differs at byte {at} ({} bytes decoded, {} encoded)", gd.len(), wd.len()),
                    ));
                }
            }
        }
    }
    Ok(())
}

fn cmp_engine(tag: &str, got: &[TheDrawFont], want: &[FontM]) -> Result<(), Verdict> {
    if got.len() != want.len() {
        return Err(Verdict::fail(format!("{tag}|font_count"), format!("{} fonts decoded, {} encoded", got.len(), want.len())));
    }
    for (fi, (g, w)) in got.iter().zip(want).enumerate() {
        if g.name != w.name {
            return Err(Verdict::fail(format!("{tag}|name{}", if w.name.is_ascii() { "" } else { "|non_ascii" }), format!("font {fi}: name {:?} decoded, {:?} encoded", g.name, w.name)));
        }
        if kind_of(g.font_type) != w.kind {
            return Err(Verdict::fail(format!("{tag}|type"), format!("font {fi}: type {:?} decoded, {} encoded", g.font_type, kind_name(w.kind))));
        }
        if g.spaces != w.spacing as i32 {
            return Err(Verdict::fail(format!("{tag}|spacing"), format!("font {fi}: letter spacing {} decoded, {} encoded", g.spaces, w.spacing)));
        }
        let table = w.table();
        cmp_table(tag, fi, w.kind, &|i| g.verif_glyph(i).map(|gl| (gl.size.width, gl.size.height, gl.data.clone())), &table)?;
        if g.verif_glyph(SLOTS).is_some() {
            return Err(Verdict::fail(format!("{tag}|glyph_invented"), format!("font {fi}: glyph table has more than {SLOTS} entries")));
        }
    }
    Ok(())
}

fn cmp_decoded(tag: &str, got: &[DecFont], want: &[FontM]) -> Result<(), Verdict> {
    if got.len() != want.len() {
        return Err(Verdict::fail(format!("{tag}|font_count"), format!("the written file holds {} fonts, {} were written", got.len(), want.len())));
    }
    for (fi, (g, w)) in got.iter().zip(want).enumerate() {
        if g.name != w.name.as_bytes() {
            return Err(Verdict::fail(
                format!("{tag}|name{}", if w.name.is_ascii() { "" } else { "|non_ascii" }),
                format!("font {fi}: name bytes {:02x?} in the file, name was {:?}", g.name, w.name),
            ));
        }
        if g.kind != w.kind {
            return Err(Verdict::fail(format!("{tag}|type"), format!("font {fi}: type byte {} in the file, font is {}", g.kind, kind_name(w.kind))));
        }
        if g.spacing != w.spacing {
            return Err(Verdict::fail(format!("{tag}|spacing"), format!("font {fi}: letter spacing byte {} in the file, font has {}", g.spacing, w.spacing)));
        }
        let table = w.table();
        cmp_table(tag, fi, w.kind, &|i| g.table[i].as_ref().map(|(a, b, d)| (*a as i32, *b as i32, d.clone())), &table)?;
    }
    Ok(())
}

// ------------------------------------------------------------------------------------------------ check

fn err_class(e: &str) -> String {
    let mut out = String::new();
    for c in e.chars() {
        if c.is_ascii_digit() {
            if !out.ends_with('#') {
                out.push('#');
            }
        } else if c != '|' && c != '\n' {
            out.push(c);
        }
    }
    out.chars().take(40).collect()
}

pub fn check(c: &TdfCase) -> Verdict {
    if c.fonts.is_empty() || c.fonts.len() > 34 {
        return Verdict::discard("bundle size outside 1..=34");
    }
    let fonts: &[FontM] = if c.mode == 0 { &c.fonts[..1] } else { &c.fonts };
    let defined: usize = fonts.iter().map(|f| f.table().iter().flatten().count()).sum();
    let nonempty = fonts.iter().any(|f| f.table().iter().flatten().any(|(_, _, d)| !d.is_empty()));
    let over = fonts.iter().any(|f| f.block_len() > 0xFFFF);
    let size_class = match fonts.len() {
        1 => "n=1",
        2..=8 => "n=2..8",
        _ => "n=9..34",
    };
    let glyph_class = match defined {
        0 => "no_glyphs",
        1..=20 => "few_glyphs",
        _ => "many_glyphs",
    };
    let non_ascii = fonts.iter().any(|f| !f.name.is_ascii());

    if c.mode == 2 {
        // reader: bytes from the reference encoder -> from_tdf_bytes -> fields and glyph table == model
        let Some(bytes) = ref_encode(fonts, c.layout) else {
            return Verdict::discard("not expressible as TDF (block > 64k or name > 12 bytes)");
        };
        let got = match TheDrawFont::from_tdf_bytes(&bytes) {
            Ok(g) => g,
            Err(e) => return Verdict::fail(format!("tdf.read|load_error|{}", err_class(&e.to_string())), format!("from_tdf_bytes rejects a well-formed file of {} bytes with {} font(s): {e}", bytes.len(), fonts.len())),
        };
        if let Err(v) = cmp_engine("tdf.read", &got, fonts) {
            return v;
        }
        return Verdict::pass(nonempty, format!("read|{size_class}|{glyph_class}{}", if c.layout & 1 != 0 { "|reversed_block" } else { "" }));
    }

    // writer: model -> TheDrawFont -> as_tdf_bytes / create_font_bundle
    let how = c.layout & 3;
    let mut built: Vec<TheDrawFont> = Vec::new();
    for f in fonts {
        match f.build(how) {
            Ok(b) => built.push(b),
            Err(e) => return Verdict::fail("tdf.build|recycle_error", format!("could not make the font object (how = {how}): {e}")),
        }
    }
    // (the constructor, set_glyph and clear_glyph are part of the path: what was built must already be the model)
    if let Err(v) = cmp_engine(if how == 0 { "tdf.build" } else { "tdf.build.reused" }, &built, fonts) {
        return v;
    }
    let over_any = fonts.iter().any(|f| f.block_len() > 0xFFFF);
    let appended = c.mode == 1 && c.layout & 4 != 0 && fonts.len() >= 2 && !over_any && fonts.iter().all(|f| f.name.len() <= 12);
    if appended {
        let k = fonts.len() / 2;
        let first = match TheDrawFont::create_font_bundle(&built[..k]) {
            Ok(b) => b,
            Err(e) => return Verdict::fail(format!("tdf.write|save_error|{}", err_class(&e.to_string())), format!("create_font_bundle failed for the first {k} font(s): {e}")),
        };
        let mut loaded = match TheDrawFont::from_tdf_bytes(&first) {
            Ok(g) => g,
            Err(e) => return Verdict::fail(format!("tdf.roundtrip|load_error|{}", err_class(&e.to_string())), format!("from_tdf_bytes rejects the output of create_font_bundle: {e}")),
        };
        if let Err(v) = cmp_engine("tdf.roundtrip", &loaded, &fonts[..k]) {
            return v;
        }
        loaded.extend(built.drain(k..));
        built = loaded;
    }
    let (what, res) = if c.mode == 0 { ("as_tdf_bytes", built[0].as_tdf_bytes()) } else { ("create_font_bundle", TheDrawFont::create_font_bundle(&built)) };
    let name_too_long = fonts.iter().any(|f| f.name.len() > 12);
    let bytes = match res {
        Ok(b) => b,
        Err(e) => {
            return if over {
                // a font TDF cannot express may be refused
                Verdict::pass(false, format!("write|rejected_block_over_64k|{size_class}"))
            } else if name_too_long {
                Verdict::fail("tdf.write|name_rejected|non_ascii", format!("{what} refuses a name of {} characters because it is {} bytes long in UTF-8: {e}", fonts.iter().map(|f| f.name.chars().count()).max().unwrap_or(0), fonts.iter().map(|f| f.name.len()).max().unwrap_or(0)))
            } else {
                Verdict::fail(format!("tdf.write|save_error|{}", err_class(&e.to_string())), format!("{what} failed for {} font(s): {e}", fonts.len()))
            };
        }
    };
    if over {
        // accepted although not expressible: the statement then still requires the fonts to come back unchanged
        let back = TheDrawFont::from_tdf_bytes(&bytes);
        let ok = back.as_ref().map(|g| cmp_engine("x", g, fonts).is_ok()).unwrap_or(false);
        return if ok {
            Verdict::pass(true, "write|block_over_64k_roundtrips")
        } else {
            Verdict::fail(
                "tdf.write|block_over_64k",
                format!(
                    "{what} returned Ok for a font whose glyph block needs {} bytes (16-bit block size / offsets); reading the {} bytes back gives {}",
                    fonts.iter().map(FontM::block_len).max().unwrap_or(0),
                    bytes.len(),
                    match back {
                        Ok(g) => format!("{} font(s) that differ from the ones written", g.len()),
                        Err(e) => format!("an error: {e}"),
                    }
                ),
            )
        };
    }
    // writer against the layout
    let dec = match ref_decode(&bytes) {
        Ok(d) => d,
        Err((tag, detail)) => return Verdict::fail(format!("tdf.write|{tag}"), format!("{what} output ({} bytes) is not a well-formed TDF file: {detail}", bytes.len())),
    };
    if let Err(v) = cmp_decoded("tdf.write", &dec, fonts) {
        return v;
    }
    // the statement itself: written and read back by the engine
    let got = match TheDrawFont::from_tdf_bytes(&bytes) {
        Ok(g) => g,
        Err(e) => return Verdict::fail(format!("tdf.roundtrip|load_error|{}", err_class(&e.to_string())), format!("from_tdf_bytes rejects the output of {what}: {e}")),
    };
    if let Err(v) = cmp_engine("tdf.roundtrip", &got, fonts) {
        return v;
    }
    let mode = if c.mode == 0 { format!("single|{}", kind_name(fonts[0].kind)) } else { format!("bundle|{size_class}") };
    let target = match (how, appended) {
        (0, false) => "",
        (1, false) => "|overwritten_table",
        (_, false) => "|recycled_object",
        (_, true) => "|appended_bundle",
    };
    Verdict::pass(nonempty, format!("write|{mode}|{glyph_class}{}{target}", if non_ascii { "|non_ascii_name" } else { "" }))
}

// ------------------------------------------------------------------------------------------------ generators

fn names() -> BoxedStrategy<String> {
    let ascii = prop_oneof![6 => 0x21u8..=0x7E, 1 => Just(b' ')];
    prop_oneof![
        1 => Just(String::new()),
        10 => vec(ascii.clone(), 1..=12).prop_map(|v| String::from_utf8(v).unwrap()),
        3 => vec(ascii, 12).prop_map(|v| String::from_utf8(v).unwrap()),
        // characters outside ASCII (the engine stores names as UTF-8: 12 of them do not fit into 12 bytes)
        1 => vec(prop::sample::select(vec!['a', 'Z', '0', '\u{e9}', '\u{fc}', '\u{2588}', '\u{3a9}']), 1..=12).prop_map(|v| v.into_iter().collect()),
    ]
    .boxed()
}

fn glyph() -> BoxedStrategy<GlyphM> {
    let ch = prop_oneof![6 => any::<u8>(), 2 => prop::sample::select(vec![b' ', b'@', b'O', b'A', b'Q', 0xF7, 0xDB, 0xDC, 0xDF, 0x1A, 0x0A, 0xFF, 1]), 1 => Just(0x0Eu8)];
    let row = prop_oneof![4 => vec((ch.clone(), any::<u8>()), 0..=8), 2 => vec((ch.clone(), any::<u8>()), 0..=30), 1 => vec((ch, any::<u8>()), 30)];
    let rows = prop_oneof![4 => vec(row.clone(), 1..=4), 2 => vec(row.clone(), 1..=12), 1 => vec(row, 12)];
    (any::<u16>(), rows, prop_oneof![4 => Just(0u8), 1 => 1u8..=3], prop_oneof![4 => Just(0u8), 1 => 1u8..=2])
        .prop_map(|(slot, rows, ew, eh)| {
            let maxlen = rows.iter().map(Vec::len).max().unwrap_or(0) as u8;
            GlyphM { slot, w: (maxlen + ew).clamp(1, 30), h: (rows.len() as u8 + eh).clamp(1, 12), body: Body::Rows(rows) }
        })
        .boxed()
}

fn font(glyphs: BoxedStrategy<Vec<GlyphM>>) -> BoxedStrategy<FontM> {
    (names(), 0u8..=2, prop_oneof![3 => 0u8..=40, 1 => Just(40u8), 1 => Just(0u8)], glyphs).prop_map(|(name, kind, spacing, glyphs)| FontM { name, kind, spacing, glyphs }).boxed()
}

fn small_font() -> BoxedStrategy<FontM> {
    font(vec(glyph(), 0..=5).boxed())
}

fn any_font() -> BoxedStrategy<FontM> {
    prop_oneof![
        6 => small_font(),
        2 => font(vec(glyph(), 0..=30).boxed()),
        1 => font(vec(glyph(), 80..=94).boxed()),
    ]
    .boxed()
}

/// colour fonts with (nearly) all characters defined at (nearly) full size: the glyph block is around 64 KiB,
/// on either side of the 16-bit limit
fn dense_font() -> BoxedStrategy<FontM> {
    (names(), 0u8..=40, 26u8..=30, 11u8..=12, vec((any::<u16>(), 1u8..=255, any::<u8>()), 84..=94))
        .prop_map(|(name, spacing, w, h, gs)| FontM {
            name,
            kind: 2,
            spacing,
            glyphs: gs.into_iter().map(|(slot, ch, attr)| GlyphM { slot, w, h, body: Body::Solid(ch, attr) }).collect(),
        })
        .boxed()
}

fn fit_name(mut f: FontM) -> FontM {
    while f.name.len() > 12 {
        f.name.pop();
    }
    f
}

pub fn cases() -> BoxedStrategy<TdfCase> {
    let bundle = || prop_oneof![5 => vec(any_font(), 1..=3), 3 => vec(small_font(), 1..=12), 1 => vec(small_font(), 30..=34), 1 => vec(small_font(), 34)];
    prop_oneof![
        6 => (any_font(), 0u8..3).prop_map(|(f, layout)| TdfCase { mode: 0, layout, fonts: vec![f] }),
        1 => dense_font().prop_map(|f| TdfCase { mode: 0, layout: 0, fonts: vec![f] }),
        // (names longer than 12 bytes are refused by the writer: they are kept to the single-font mode so that one such name does not void a whole bundle)
        6 => (bundle(), 0u8..3, prop_oneof![2 => Just(0u8), 1 => Just(4u8)]).prop_map(|(fonts, how, app)| TdfCase { mode: 1, layout: how | app, fonts: fonts.into_iter().map(fit_name).collect() }),
        1 => (vec(small_font(), 0..=2), dense_font()).prop_map(|(mut fonts, d)| { fonts.push(d); TdfCase { mode: 1, layout: 0, fonts: fonts.into_iter().map(fit_name).collect() } }),
        8 => (bundle(), 0u8..4).prop_map(|(fonts, layout)| TdfCase { mode: 2, layout, fonts: fonts.into_iter().map(fit_name).collect() }),
    ]
    .boxed()
}

/// simpler candidates for the greedy minimiser: one font only, fewer glyphs, plain names
pub fn minimize(c: &TdfCase) -> Vec<TdfCase> {
    let mut out = Vec::new();
    if c.fonts.len() > 1 {
        for i in 0..c.fonts.len() {
            out.push(TdfCase { fonts: vec![c.fonts[i].clone()], ..c.clone() });
        }
        for i in 0..c.fonts.len() {
            let mut f = c.fonts.clone();
            f.remove(i);
            out.push(TdfCase { fonts: f, ..c.clone() });
        }
    }
    for (i, f) in c.fonts.iter().enumerate() {
        if f.glyphs.len() > 1 {
            let half = f.glyphs.len() / 2;
            for keep in [&f.glyphs[..half], &f.glyphs[half..]] {
                let mut fonts = c.fonts.clone();
                fonts[i].glyphs = keep.to_vec();
                out.push(TdfCase { fonts, ..c.clone() });
            }
        }
        if f.glyphs.len() <= 12 {
            for g in 0..f.glyphs.len() {
                let mut fonts = c.fonts.clone();
                fonts[i].glyphs.remove(g);
                out.push(TdfCase { fonts, ..c.clone() });
            }
        }
        if !f.name.is_empty() {
            let mut fonts = c.fonts.clone();
            fonts[i].name.pop();
            out.push(TdfCase { fonts, ..c.clone() });
        }
    }
    if c.layout != 0 {
        out.push(TdfCase { layout: 0, ..c.clone() });
    }
    out
}
