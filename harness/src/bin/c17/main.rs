//! C17 — bitmap and TheDraw fonts survive every encoding the engine uses.
//!
//! Parts:
//! * `builtin_fonts` (enumerated, exhaustive): every font page 0..=42 and every SAUCE font x every encoding x
//!   {as loaded, glyphs edited in place, edited and renamed, renamed}.
//! * `bitmap` (generated): 8xH font models, H 1..=32, 256 glyphs (512 for PSF2 / IcyDraw), through one of
//!   psf2 | raw | dcs | xb | xb2 (two fonts, 512-character mode) | adf | idf | icy.
//! * `tdf` (generated): TheDraw font models through as_tdf_bytes / create_font_bundle (checked with a reference
//!   decoder and by reading back) and through a reference encoder -> from_tdf_bytes.
mod bitmap;
mod tdf;

use icyv::{Engine, PartCfg};

fn main() {
    let mut eng = Engine::new("C17");
    eng.rule(
        "bitmap: a case = (font model: height 1..=32, 256|512 glyphs, glyph bytes from a constant / index / xorshift fill plus byte patches plus an explicit head, \
         ONE encoding of psf2, raw, dcs, xb, xb2, adf, idf, icy, ans, font slot, compress flag, and a construction route independent of both: create_8 | from_basic | from_bytes(raw) | \
         from_bytes(PSF2) | built-in page or SAUCE font with 1..=8 glyphs edited in place through the public glyph map (name kept, checksum not refreshed) | the same and renamed | built-in renamed only); \
         built-in part = every font page 0..=42 and every SAUCE font name x the same 9 encodings x {as loaded, edited in place, edited and renamed, renamed} (enumerated). \
         Targets are also NON-FRESH: a dcs case is a session through one parser and one terminal buffer (0..=5 earlier steps: font sequences into the same or other slots - the identical font, same height other glyphs, \
         other height -, font selection CSI 0;n SP D, RIS, soft reset, text), after EVERY step every slot must hold size, glyph count and glyphs of the LAST font sent into it (resets drop the expectation); \
         document encodings optionally set the fonts over fonts already present in the slots; tdf writer cases optionally overwrite an occupied glyph table, recycle a font object read from a file, \
         or append fonts to a bundle that was written and read back. \
         Further dimensions independent of the glyphs: the font NAME (any SAUCE font name, any built-in page name, the default name, 'custom font N', empty), the save options of a document \
         encoding (compress, occupied slots, save_sauce + SAUCE record), the PAGE the font under test sits on (0, 1, 2, 7, 42, 255, 1..=300, all cells on that page; another font - default, 8x8 or \
         same-size - in slot 0), and a ninth encoding 'ans' (fonts of pages >= 100 travel as CTerm font DCS in an ANSI file). After loading, the font a cell is displayed with is looked up through the cell's font page. \
         The expected glyphs are always what the font object reports (glyphs / get_glyph), never a cached field; a failure on a route other than create_8 is re-tried with a create_8 font \
         of the same glyphs and carries |route=.. in its key only when that passes. Oracle: decoded size, length and the complete glyph table equal the model (missing and invented glyphs both fail); \
         the written bytes are also compared with the format documents (PSF2 header, XBin/ADF/IDF font block, CTerm font DCS). \
         tdf: a case = 1..=34 font models (type, name 0..=12 chars, spacing 0..=40, 0..=94 glyphs of 1..=30 x 1..=12 given as rows of cells) and a mode: as_tdf_bytes, create_font_bundle \
         (output decoded by the harness' TDF decoder and read back by from_tdf_bytes) or harness TDF encoder -> from_tdf_bytes (glyph records in order / reversed, with / without final zero). \
         Non-trivial: bitmap = the round trip was performed (encoding can hold the font, not excluded as PSF-magic collision) and the font has at least two different glyphs; \
         built-in = the round trip was performed; tdf = at least one defined glyph with non-empty data. Distinct by case hash.",
    );
    eng.assume("reference layouts written in the harness: PSF2 (8 u32le header fields), XBin header/flags/font block (doc/FileFormats/x_bin.htm), ADF (1+192+4096), IDF (font = 4096 bytes before the 48 palette bytes), CTerm font DCS, TDF (constants of src/tdf_font/mod.rs)");
    eng.assume("raw glyph data beginning with the PSF1 (36 04) or PSF2 (72 b5 4a 86) magic is not representable headerless: raw and DCS round trips are skipped for it (class +psf_magic_excluded), all other encodings are checked");
    eng.assume("encodings that cannot hold a font (height != 16 for ADF/IDF, 512 glyphs outside PSF2/IcyDraw, TDF glyph block > 65535 bytes) may refuse it; if they accept it, it must come back unchanged");
    eng.assume("the model of a built-in font is what BitFont::from_ansi_font_page / from_sauce_name returns (size, length, glyphs 0..length); TDF names are compared as the UTF-8 bytes the engine stores");

    eng.enumerated(PartCfg::new("builtin_fonts", 0, 0).exhaustive(true), bitmap::builtin_total(), bitmap::builtin_case, bitmap::check_builtin);
    eng.generated_min(PartCfg::new("bitmap", 100_000, 2_500_000), bitmap::cases, bitmap::check, |c| bitmap::ENCS[c.enc as usize % bitmap::ENCS.len()].to_string(), bitmap::minimize);
    eng.generated_min(PartCfg::new("tdf", 100_000, 2_500_000), tdf::cases, tdf::check, |_| "-".to_string(), tdf::minimize);
    eng.run();
}
