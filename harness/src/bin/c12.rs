//! C12 — default (colour-optimised) saving never changes the rendered picture.
//!
//! Oracle: `Buffer::render_to_rgba(full rectangle)` of the document equals, byte for byte, that of
//! `ColorOptimizer::new(&buf, &opts).optimize(&buf)` for `normalize_whitespaces` off and on; sizes equal; every cell the
//! optimiser changed is an all-clear glyph (only foreground / which all-clear character) or an all-set glyph (only
//! background) — judged by the harness from the font bitmap, not by the optimiser's own shape map.
use icy_engine::{AttributedChar, BitFont, Buffer, ColorOptimizer, Layer, SaveOptions, TextAttribute, TextPane};
use icyv::proptest::prelude::*;
use icyv::util::pick;
use icyv::{Engine, PartCfg, Verdict};
use serde::{Deserialize, Serialize};
use std::sync::OnceLock;

const PAGES: usize = 43; // built-in ANSI font pages 0..=42

// ---------------------------------------------------------------------------------------------------------------
// font knowledge of the harness (bitmaps come from the crate's built-in tables; classification is the harness's own)
// ---------------------------------------------------------------------------------------------------------------

#[derive(Clone, Copy, PartialEq, Eq, Debug)]
enum Shape {
    Clear,
    Set,
    Mixed,
}

struct FontInfo {
    font: BitFont,
    shape: Vec<Shape>, // index = glyph 0..=255
    clear: Vec<u8>,
    set: Vec<u8>,
    mixed: Vec<u8>,
}

/// A glyph is all-clear when no bit of any row is set, all-set when every one of the `width` leftmost bits of every row is
/// set. (Exactly the pixels `render_to_rgba` can ever paint from it.)
fn classify_glyph(font: &BitFont, ch: char) -> Option<Shape> {
    let g = font.get_glyph(ch)?;
    let w = font.size.width.clamp(0, 8) as u32;
    let mask: u8 = if w >= 8 { 0xFF } else { !(0xFFu8 >> w) };
    let rows = &g.data;
    if rows.iter().all(|r| *r == 0) {
        Some(Shape::Clear)
    } else if !rows.is_empty() && rows.iter().all(|r| *r & mask == mask) && rows.len() as i32 >= font.size.height {
        Some(Shape::Set)
    } else {
        Some(Shape::Mixed)
    }
}

/// glyphs redrawn in the edited clone of a page (index PAGES + n of `fonts()`): blank glyphs become solid, all others blank
const EDITED_GLYPHS: [u8; 10] = [0, 1, 2, 32, 65, 88, 176, 219, 254, 255];

/// entries 0..PAGES: the built-in pages; entries PAGES..2*PAGES and 2*PAGES..3*PAGES: a clone of page n whose EDITED_GLYPHS were redrawn in place through
/// get_glyph_mut WITHOUT calculate_checksum(), as a font editor does: same name, size and stored checksum as page n, other bitmaps
fn fonts() -> &'static Vec<FontInfo> {
    static F: OnceLock<Vec<FontInfo>> = OnceLock::new();
    F.get_or_init(|| {
        (0..3 * PAGES)
            .map(|vn| {
                let n = vn % PAGES;
                let mut font = BitFont::from_ansi_font_page(n).unwrap_or_else(|e| panic!("built-in font page {n} does not load: {e}"));
                if vn >= PAGES {
                    for c in EDITED_GLYPHS {
                        // second variant (2*PAGES..): NUL and space stay as they are, so that invisible cells look alike in both fonts
                        if vn >= 2 * PAGES && (c == 0 || c == 32) {
                            continue;
                        }
                        let was_clear = classify_glyph(&font, c as char) == Some(Shape::Clear);
                        if let Some(g) = font.get_glyph_mut(c as char) {
                            for row in g.data.iter_mut() {
                                *row = if was_clear { 0xFF } else { 0 };
                            }
                        }
                    }
                }
                let mut shape = Vec::with_capacity(256);
                let (mut clear, mut set, mut mixed) = (vec![], vec![], vec![]);
                for c in 0..=255u8 {
                    let s = classify_glyph(&font, c as char).unwrap_or_else(|| panic!("built-in font page {n} lacks glyph {c}"));
                    match s {
                        Shape::Clear => clear.push(c),
                        Shape::Set => set.push(c),
                        Shape::Mixed => mixed.push(c),
                    }
                    shape.push(s);
                }
                FontInfo { font, shape, clear, set, mixed }
            })
            .collect()
    })
}

// ---------------------------------------------------------------------------------------------------------------
// case model
// ---------------------------------------------------------------------------------------------------------------

/// which glyph a cell shows, relative to the font of the cell
#[derive(Clone, Debug, Hash, Serialize, Deserialize)]
enum G {
    /// 0 = NUL, 1 = space, 2 = 255, 3 = 219 (whatever shape they have in the cell's font)
    Special(u8),
    /// i-th glyph the harness classifies as all-clear in the cell's font
    Clear(u16),
    /// i-th glyph the harness classifies as all-set in the cell's font (219 if the font has none)
    Set(u16),
    Any(u8),
}

#[derive(Clone, Debug, Hash, Serialize, Deserialize)]
struct Cell {
    g: G,
    /// 0..=15 palette colour, 16..=19 RGB colour inserted into the palette (see Doc::rgb)
    fg: u8,
    bg: u8,
    bold: bool,
    /// index into Doc::slots
    font: u8,
    /// false: the cell stays the canonical invisible cell
    vis: bool,
}

#[derive(Clone, Debug, Hash, Serialize, Deserialize)]
struct LayerM {
    w: u8,
    h: u8,
    ox: i8,
    oy: i8,
    alpha: bool,
    visible: bool,
    /// Layer::default_font_page as index into Doc::slots (0 = slot 0)
    dfp: u8,
    rows: Vec<Vec<Cell>>,
}

#[derive(Clone, Debug, Hash, Serialize, Deserialize)]
struct Doc {
    w: u8,
    h: u8,
    /// built-in page loaded into font slot 0 (slot n > 0 always holds built-in page n)
    slot0_page: u8,
    /// font slots the cells may use; entry 0 is always slot 0
    slots: Vec<u8>,
    /// load all 43 pages into the font table instead of only the used ones
    all_fonts: bool,
    rgb: Vec<(u8, u8, u8)>,
    layers: Vec<LayerM>,
    /// storage shape of layer 0 / the terminal size (icyv::shape, 0 = as built)
    #[serde(default)]
    shape: u8,
    /// Some(i): the slot Doc::slots[i] (if it is not slot 0) holds the edited clone of the font in slot 0 instead of its built-in page:
    /// two slots with the same name, size and stored checksum but different bitmaps
    #[serde(default)]
    edited_clone: Option<u8>,
    /// the clone's NUL and space glyphs are redrawn as well (edited strips only: there are no invisible cells in them)
    #[serde(default)]
    edited_space: bool,
    /// a SAUCE record attached to the document without resizing (Buffer::set_sauce(.., false), as the editor does when the user types a
    /// title): (stated width, stated height, font name index, ice flag) - stale or contradicting values included
    #[serde(default)]
    sauce: Option<(u16, u16, u8, bool)>,
}

impl Doc {
    fn edited_slot(&self) -> Option<usize> {
        self.edited_clone.map(|i| self.slot(i)).filter(|s| *s != 0)
    }
    fn slot(&self, idx: u8) -> usize {
        if self.slots.is_empty() {
            0
        } else {
            self.slots[(idx as usize).min(self.slots.len() - 1)] as usize % PAGES
        }
    }
    fn page_of_slot(&self, slot: usize) -> usize {
        if slot == 0 {
            self.slot0_page as usize % PAGES
        } else {
            slot
        }
    }
}

fn resolve_glyph(g: &G, fi: &FontInfo) -> u8 {
    match g {
        G::Special(k) => [0u8, 32, 255, 219][(*k & 3) as usize],
        G::Clear(i) => {
            if fi.clear.is_empty() {
                32
            } else {
                fi.clear[pick(*i, fi.clear.len())]
            }
        }
        G::Set(i) => {
            if fi.set.is_empty() {
                219
            } else {
                fi.set[pick(*i, fi.set.len())]
            }
        }
        G::Any(c) => *c,
    }
}

struct Built {
    buf: Buffer,
    /// page in each used slot (index = slot), usize::MAX = not loaded
    slot_page: Vec<usize>,
}

fn build(d: &Doc) -> Built {
    let fs = fonts();
    let w = d.w.max(1) as i32;
    let h = d.h.max(1) as i32;
    let mut buf = Buffer::new((w, h));
    // fonts
    buf.clear_font_table();
    let mut slot_page = vec![usize::MAX; PAGES];
    let mut wanted: Vec<usize> = vec![0];
    if d.all_fonts {
        wanted.extend(1..PAGES);
    }
    for i in 0..d.slots.len() {
        wanted.push(d.slot(i as u8));
    }
    for slot in wanted {
        if slot_page[slot] == usize::MAX {
            let page = if d.edited_slot() == Some(slot) { (if d.edited_space { PAGES } else { 2 * PAGES }) + d.page_of_slot(0) } else { d.page_of_slot(slot) };
            buf.set_font(slot, fs[page].font.clone());
            slot_page[slot] = page;
        }
    }
    // colours
    let mut rgb_idx = Vec::new();
    for (r, g, b) in &d.rgb {
        rgb_idx.push(buf.palette.insert_color_rgb(*r, *g, *b));
    }
    let colour = |c: u8| -> u32 {
        if c < 16 || rgb_idx.is_empty() {
            (c & 15) as u32
        } else {
            rgb_idx[(c as usize - 16).min(rgb_idx.len() - 1)]
        }
    };
    // layers
    buf.layers.clear();
    for (li, lm) in d.layers.iter().enumerate() {
        let mut layer = Layer::new(format!("L{li}"), (lm.w.max(1) as i32, lm.h.max(1) as i32));
        layer.properties.has_alpha_channel = lm.alpha;
        layer.set_offset((lm.ox as i32, lm.oy as i32));
        layer.default_font_page = d.slot(lm.dfp);
        for (y, row) in lm.rows.iter().enumerate() {
            for (x, c) in row.iter().enumerate() {
                if !c.vis {
                    continue; // Layer::new filled the layer with the canonical invisible cell
                }
                let slot = d.slot(c.font);
                let fi = &fs[slot_page[slot]];
                let ch = resolve_glyph(&c.g, fi) as char;
                let mut attr = TextAttribute::new(colour(c.fg), colour(c.bg));
                attr.set_is_bold(c.bold);
                attr.set_font_page(slot);
                layer.set_char((x as i32, y as i32), AttributedChar::new(ch, attr));
            }
        }
        // hide last: Layer::set_char ignores writes to hidden layers
        layer.properties.is_visible = lm.visible;
        buf.layers.push(layer);
    }
    if let Some((sw, sh, font, ice)) = d.sauce {
        let mut rec = icy_engine::SauceData::default();
        rec.buffer_size = icy_engine::Size::new(sw as i32, sh as i32);
        rec.use_ice = ice;
        rec.font_opt = match font % 4 {
            0 => None,
            1 => Some("IBM VGA".to_string()),
            2 => Some("IBM VGA50".to_string()),
            _ => Some("no such font".to_string()),
        };
        buf.set_sauce(Some(rec), false);
    }
    // the optimiser is judged against the document as it is stored: the perturbation happens before both renderings
    if d.shape != 0 && !buf.layers.is_empty() {
        icyv::shape::perturb(&mut buf, d.shape);
    }
    Built { buf, slot_page }
}

// ---------------------------------------------------------------------------------------------------------------
// oracle
// ---------------------------------------------------------------------------------------------------------------

#[derive(Default)]
struct Facts {
    blank_rewritable: u32, // all-clear glyph, fg != 7, scan-order predecessor has another fg
    solid: u32,
    invisible: u32,
    mixed_height: bool,
    changed_cells: u32,
}

fn glyph_class_name(b: &Built, c: &AttributedChar) -> (&'static str, i32) {
    let fs = fonts();
    let slot = c.get_font_page();
    let page = b.slot_page.get(slot).copied().unwrap_or(usize::MAX);
    if page == usize::MAX {
        return ("unknown_font", 0);
    }
    let fi = &fs[page];
    let fh = fi.font.size.height;
    if !c.is_visible() {
        return ("invisible_cell", fh);
    }
    let code = c.ch as u32;
    if code > 255 {
        return ("outside_font", fh);
    }
    match fi.shape[code as usize] {
        Shape::Clear => (if c.ch == ' ' { "blank_space" } else { "blank_nonspace" }, fh),
        Shape::Set => ("solid", fh),
        Shape::Mixed => ("mixed", fh),
    }
}

fn shape_of(b: &Built, c: &AttributedChar) -> Option<Shape> {
    let page = b.slot_page.get(c.get_font_page()).copied().unwrap_or(usize::MAX);
    if page == usize::MAX || c.ch as u32 > 255 {
        return None;
    }
    Some(fonts()[page].shape[c.ch as usize])
}

/// one optimiser run; Err((key,msg)) on violation
fn run_once(b: &Built, normalize: bool, facts: &mut Facts) -> Result<(), (String, String)> {
    let buf = &b.buf;
    let mut opts = SaveOptions::default();
    opts.normalize_whitespaces = normalize;
    let opt = ColorOptimizer::new(buf, &opts).optimize(buf);

    // sizes
    if opt.get_size() != buf.get_size() {
        return Err(("size".into(), format!("document is {:?}, optimised buffer is {:?}", buf.get_size(), opt.get_size())));
    }
    let (s0, p0) = buf.render_to_rgba(buf.get_rectangle());
    let (s1, p1) = opt.render_to_rgba(opt.get_rectangle());
    if s0 != s1 || p0.len() != p1.len() {
        return Err(("size".into(), format!("rendered {s0:?} ({} bytes) before, {s1:?} ({} bytes) after optimisation", p0.len(), p1.len())));
    }

    // pixels
    if p0 != p1 {
        let off = p0.iter().zip(p1.iter()).position(|(a, b)| a != b).unwrap();
        let px = off / 4;
        let f0 = buf.get_font(0).unwrap().size;
        let (pxw, fw, fh) = (s0.width.max(1) as usize, f0.width.max(1) as usize, f0.height.max(1) as usize);
        let (x, y) = ((px % pxw) / fw, (px / pxw) / fh);
        let o = buf.get_char((x as i32, y as i32));
        let n = opt.get_char((x as i32, y as i32));
        let (class, gh) = glyph_class_name(b, &o);
        let mut key = format!("pixels|glyph={class}|font_height={gh}");
        if gh != f0.height {
            key.push_str(&format!("|slot0_height={}", f0.height));
        }
        if off % 4 == 3 {
            key.push_str("|alpha");
        }
        let o4 = &p0[px * 4..px * 4 + 4];
        let n4 = &p1[px * 4..px * 4 + 4];
        return Err((
            key,
            format!(
                "normalize_whitespaces={normalize}: pixel ({},{}) of cell ({x},{y}) is {o4:?} in the document and {n4:?} after optimisation; cell before {o} (visible={}), after {n} (visible={})",
                px % pxw,
                px / pxw,
                o.is_visible(),
                n.is_visible()
            ),
        ));
    }

    // changed cells must be invisible changes (flattened layer 0 of the result against the composited document)
    let mut prev: Option<AttributedChar> = None;
    for y in 0..buf.get_height() {
        for x in 0..buf.get_width() {
            let o = buf.get_char((x, y));
            let n = if opt.layers.is_empty() { opt.get_char((x, y)) } else { opt.layers[0].get_char((x, y)) };
            let shape = shape_of(b, &o);
            if !normalize {
                // facts for the non-triviality rule, counted once
                if !o.is_visible() {
                    facts.invisible += 1;
                } else {
                    let pfg = prev.map_or(7, |p| p.attribute.get_foreground());
                    if shape == Some(Shape::Clear) && o.attribute.get_foreground() != 7 && pfg != o.attribute.get_foreground() {
                        facts.blank_rewritable += 1;
                    }
                    if shape == Some(Shape::Set) {
                        facts.solid += 1;
                    }
                }
                if let Some(page) = b.slot_page.get(o.get_font_page()) {
                    if *page != usize::MAX && fonts()[*page].font.size.height != fonts()[b.slot_page[0]].font.size.height {
                        facts.mixed_height = true;
                    }
                }
            }
            prev = Some(o);
            if o == n {
                continue;
            }
            facts.changed_cells += 1;
            let mut fields = Vec::new();
            if o.ch != n.ch {
                fields.push("char");
            }
            if o.attribute.get_foreground() != n.attribute.get_foreground() {
                fields.push("fg");
            }
            if o.attribute.get_background() != n.attribute.get_background() {
                fields.push("bg");
            }
            if o.attribute.attr != n.attribute.attr {
                fields.push("flags");
            }
            if o.get_font_page() != n.get_font_page() {
                fields.push("font_page");
            }
            let (class, _) = glyph_class_name(b, &o);
            let bad: Vec<&str> = match shape {
                Some(Shape::Clear) => {
                    let mut bad: Vec<&str> = fields.iter().copied().filter(|f| !matches!(*f, "fg" | "char")).collect();
                    if o.ch != n.ch && o.get_font_page() == n.get_font_page() && shape_of(b, &n) != Some(Shape::Clear) {
                        bad.push("char_not_blank");
                    }
                    bad
                }
                Some(Shape::Set) => fields.iter().copied().filter(|f| *f != "bg").collect(),
                _ => fields.clone(),
            };
            if !bad.is_empty() {
                let class = if class == "blank_space" || class == "blank_nonspace" { "blank" } else { class };
                return Err((
                    format!("changed_cell_not_invisible|glyph={class}|field={}", bad.join("+")),
                    format!("normalize_whitespaces={normalize}: cell ({x},{y}) was {o} (visible={}), optimiser wrote {n} (visible={}); changed {:?}", o.is_visible(), n.is_visible(), fields),
                ));
            }
        }
    }
    Ok(())
}

fn check_doc(d: &Doc) -> Verdict {
    let b = build(d);
    let mut facts = Facts::default();
    let off = run_once(&b, false, &mut facts);
    let on = run_once(&b, true, &mut facts);
    match (off, on) {
        (Ok(()), Ok(())) => {}
        (Err((k0, m0)), Err((k1, m1))) => {
            if k0 == k1 {
                return Verdict::fail(k0, m0);
            }
            // two different clauses: report the one without normalisation (the other gets its own turn when this one is known)
            return Verdict::fail(k0, format!("{m0} || with normalisation: [{k1}] {m1}"));
        }
        (Err((k, m)), Ok(())) => return Verdict::fail(format!("{k}|only_without_normalize"), m),
        (Ok(()), Err((k, m))) => return Verdict::fail(format!("{k}|only_with_normalize"), m),
    }
    let nontrivial = facts.blank_rewritable >= 1 && facts.solid >= 1;
    let visible_layers = d.layers.iter().filter(|l| l.visible).count();
    let class = if facts.changed_cells == 0 {
        "nothing_rewritten".to_string()
    } else {
        format!(
            "{}{}{}",
            if d.shape % icyv::shape::CODES != 0 { "shaped+" } else { "" },
            if visible_layers > 1 { "multi_layer" } else { "single_layer" },
            if facts.mixed_height {
                "+mixed_font_height"
            } else if facts.invisible > 0 {
                "+invisible_cells"
            } else {
                ""
            }
        )
    };
    Verdict::pass(nontrivial, class)
}

// ---------------------------------------------------------------------------------------------------------------
// generators
// ---------------------------------------------------------------------------------------------------------------

fn colour() -> BoxedStrategy<u8> {
    prop_oneof![
        3 => Just(7u8),
        3 => Just(0u8),
        3 => prop_oneof![Just(1u8), Just(4), Just(15), Just(8)],
        3 => 0u8..16,
        2 => 16u8..20,
    ]
    .boxed()
}

fn glyph() -> BoxedStrategy<G> {
    prop_oneof![
        3 => (0u8..4).prop_map(G::Special),
        3 => any::<u16>().prop_map(G::Clear),
        3 => any::<u16>().prop_map(G::Set),
        3 => any::<u8>().prop_map(G::Any),
    ]
    .boxed()
}

fn cell() -> BoxedStrategy<Cell> {
    (glyph(), colour(), colour(), prop::bool::weighted(0.3), 0u8..3, prop::bool::weighted(0.85))
        .prop_map(|(g, fg, bg, bold, font, vis)| Cell { g, fg, bg, bold, font, vis })
        .boxed()
}

fn layer(first: bool) -> BoxedStrategy<LayerM> {
    let geom = if first {
        // the bottom layer usually covers the document
        prop_oneof![3 => (Just(12u8), Just(6u8), Just(0i8), Just(0i8)), 1 => (1u8..=12, 1u8..=6, -3i8..=6, -2i8..=4)].boxed()
    } else {
        (1u8..=12, 1u8..=6, -3i8..=8, -2i8..=4).boxed()
    };
    (
        geom,
        prop::bool::weighted(if first { 0.25 } else { 0.7 }),
        prop::bool::weighted(0.85),
        prop_oneof![6 => Just(0u8), 1 => 0u8..3],
        prop::collection::vec(prop::collection::vec(cell(), 0..=12), 0..=6),
    )
        .prop_map(|((w, h, ox, oy), alpha, visible, dfp, rows)| LayerM { w, h, ox, oy, alpha, visible, dfp, rows })
        .boxed()
}

fn page() -> BoxedStrategy<u8> {
    prop_oneof![4 => Just(0u8), 1 => prop_oneof![Just(32u8), Just(33), Just(36)], 6 => 0u8..PAGES as u8].boxed()
}

fn docs() -> BoxedStrategy<Doc> {
    let layers = prop_oneof![
        3 => layer(true).prop_map(|l| vec![l]),
        2 => (layer(true), layer(false)).prop_map(|(a, b)| vec![a, b]),
        2 => (layer(true), layer(false), layer(false)).prop_map(|(a, b, c)| vec![a, b, c]),
        1 => (layer(true), layer(false), layer(false), layer(false)).prop_map(|(a, b, c, d)| vec![a, b, c, d]),
    ];
    (
        1u8..=12,
        1u8..=6,
        prop_oneof![5 => Just(0u8), 1 => page()],
        prop::collection::vec(page(), 0..=2),
        prop::bool::weighted(0.03),
        prop::collection::vec(any::<(u8, u8, u8)>(), 0..=4),
        layers,
        prop_oneof![3 => Just(0u8), 2 => 1u8..icyv::shape::CODES],
        prop_oneof![4 => Just(None), 1 => (1u8..=2).prop_map(Some)],
        prop_oneof![3 => Just(None), 1 => (prop_oneof![Just(0u16), Just(80), 1u16..=14, Just(2000)], prop_oneof![Just(0u16), Just(25), 1u16..=8], any::<u8>(), any::<bool>()).prop_map(Some)],
    )
        .prop_map(|(w, h, slot0_page, more, all_fonts, rgb, layers, shape, edited_clone, sauce)| {
            let mut slots = vec![0u8];
            slots.extend(more);
            Doc { w, h, slot0_page, slots, all_fonts, rgb, layers, shape, edited_clone, edited_space: false, sauce }
        })
        .boxed()
}

/// simpler candidates (tried greedily by the engine after proptest's own shrinking)
fn minimize(d: &Doc) -> Vec<Doc> {
    let mut out = Vec::new();
    if d.shape != 0 {
        out.push(Doc { shape: 0, ..d.clone() });
    }
    if d.edited_clone.is_some() {
        out.push(Doc { edited_clone: None, ..d.clone() });
    }
    if d.sauce.is_some() {
        out.push(Doc { sauce: None, ..d.clone() });
    }
    // fewer layers
    if d.layers.len() > 1 {
        for i in 0..d.layers.len() {
            let mut c = d.clone();
            c.layers.remove(i);
            out.push(c);
        }
    }
    // smaller document, simpler tables
    for (w, h) in [(1, 1), (d.w, 1), (1, d.h), (d.w.saturating_sub(1), d.h), (d.w, d.h.saturating_sub(1))] {
        if w >= 1 && h >= 1 && (w, h) != (d.w, d.h) {
            out.push(Doc { w, h, ..d.clone() });
        }
    }
    if d.all_fonts {
        out.push(Doc { all_fonts: false, ..d.clone() });
    }
    if !d.rgb.is_empty() {
        out.push(Doc { rgb: vec![], ..d.clone() });
    }
    if d.slot0_page != 0 {
        out.push(Doc { slot0_page: 0, ..d.clone() });
    }
    if d.slots.len() > 1 {
        for i in 1..d.slots.len() {
            let mut c = d.clone();
            c.slots.remove(i);
            out.push(c);
        }
    }
    // per layer
    for (li, l) in d.layers.iter().enumerate() {
        let with = |f: &dyn Fn(&mut LayerM)| {
            let mut c = d.clone();
            f(&mut c.layers[li]);
            c
        };
        if !l.rows.is_empty() {
            for r in 0..l.rows.len() {
                out.push(with(&|l| {
                    l.rows.remove(r);
                }));
                if !l.rows[r].is_empty() {
                    out.push(with(&|l| {
                        l.rows[r].pop();
                    }));
                    if l.rows[r].len() > 1 {
                        out.push(with(&|l| {
                            l.rows[r].remove(0);
                        }));
                    }
                }
            }
        }
        if (l.ox, l.oy) != (0, 0) {
            out.push(with(&|l| {
                l.ox = 0;
                l.oy = 0;
            }));
        }
        if l.alpha {
            out.push(with(&|l| l.alpha = false));
        }
        if !l.visible {
            out.push(with(&|l| l.visible = true));
        }
        if l.dfp != 0 {
            out.push(with(&|l| l.dfp = 0));
        }
        let (rw, rh) = (l.rows.iter().map(|r| r.len()).max().unwrap_or(0).max(1) as u8, l.rows.len().max(1) as u8);
        if (l.w, l.h) != (rw, rh) {
            out.push(with(&|l| {
                l.w = rw;
                l.h = rh;
            }));
        }
        // per cell: plain attributes
        for (y, row) in l.rows.iter().enumerate() {
            for (x, c) in row.iter().enumerate() {
                let cell = |f: &dyn Fn(&mut Cell)| {
                    let mut n = d.clone();
                    f(&mut n.layers[li].rows[y][x]);
                    n
                };
                if c.bold {
                    out.push(cell(&|c| c.bold = false));
                }
                if c.fg != 7 {
                    out.push(cell(&|c| c.fg = 7));
                }
                if c.bg != 0 {
                    out.push(cell(&|c| c.bg = 0));
                }
                if c.font != 0 {
                    out.push(cell(&|c| c.font = 0));
                }
                if !c.vis {
                    out.push(cell(&|c| c.vis = true));
                }
            }
        }
    }
    out.truncate(400);
    out
}

fn classify(d: &Doc) -> String {
    format!("layers={}", d.layers.len())
}

// ---------------------------------------------------------------------------------------------------------------
// exhaustive strips: font page x glyph x neighbour attribute x font placement
// ---------------------------------------------------------------------------------------------------------------

#[derive(Clone, Debug, Hash, Serialize, Deserialize)]
struct Strip {
    page: u8,
    glyph: u8,
    /// bit0: neighbour has another foreground, bit1: neighbour has another background, bit2: glyph under test is bold
    neighbour: u8,
    /// true: the page sits in slot 0 (whole document in that font); false: slot 0 = page 0, the page in its own slot
    in_slot0: bool,
}

const STRIPS: u64 = PAGES as u64 * 256 * 8 * 2;

fn strip(i: u64) -> Strip {
    Strip { in_slot0: i % 2 == 1, neighbour: ((i / 2) % 8) as u8, glyph: ((i / 16) % 256) as u8, page: (i / 4096) as u8 }
}

fn strip_doc(s: &Strip) -> Doc {
    let page = s.page as usize % PAGES;
    let fi = &fonts()[page];
    let mixed = *fi.mixed.first().unwrap_or(&65);
    let font = if s.in_slot0 || page == 0 { 0u8 } else { 1u8 };
    let bold = s.neighbour & 4 != 0;
    let nfg = if s.neighbour & 1 != 0 { 14 } else { 3 };
    let nbg = if s.neighbour & 2 != 0 { 1 } else { 5 };
    let n = |g: u8, fg: u8, bg: u8, bold: bool| Cell { g: G::Any(g), fg, bg, bold, font, vis: true };
    // row 0: neighbour, glyph under test, same glyph with a third attribute, mixed glyph, glyph under test at the line end
    // row 1: glyph under test first (its predecessor is the end of row 0), neighbour, glyph under test
    let rows = vec![
        vec![n(mixed, nfg, nbg, false), n(s.glyph, 3, 5, bold), n(s.glyph, 9, 2, bold), n(mixed, 16, 0, false), n(s.glyph, 3, 5, bold)],
        vec![n(s.glyph, 10, 4, bold), n(mixed, nfg, nbg, true), n(s.glyph, 3, 5, bold), n(s.glyph, 3, 5, !bold), n(mixed, 7, 0, false)],
    ];
    Doc {
        w: 5,
        h: 2,
        slot0_page: if s.in_slot0 { page as u8 } else { 0 },
        slots: if font == 0 { vec![0] } else { vec![0, page as u8] },
        all_fonts: false,
        rgb: vec![(1, 2, 3)],
        layers: vec![LayerM { w: 5, h: 2, ox: 0, oy: 0, alpha: false, visible: true, dfp: 0, rows }],
        shape: 0,
        edited_clone: None,
        edited_space: false,
        sauce: None,
    }
}

fn check_strip(s: &Strip) -> Verdict {
    let d = strip_doc(s);
    match check_doc(&d) {
        Verdict::Pass { .. } => {
            let shape = fonts()[s.page as usize % PAGES].shape[s.glyph as usize];
            let class = match shape {
                Shape::Clear => "blank_glyph",
                Shape::Set => "solid_glyph",
                Shape::Mixed => "mixed_glyph",
            };
            // non-trivial: the glyph under test is one the optimiser may rewrite and a neighbour attribute differs
            Verdict::pass(shape != Shape::Mixed && s.neighbour & 3 != 0, class)
        }
        v => v,
    }
}

// edited strips: page in slot 0, its edited clone (same stored checksum, other bitmaps) in another slot; every redrawn glyph is shown in both fonts
const EDITED_STRIPS: u64 = PAGES as u64 * EDITED_GLYPHS.len() as u64 * 8;

fn edited_strip(i: u64) -> Strip {
    Strip { in_slot0: true, neighbour: (i % 8) as u8, glyph: EDITED_GLYPHS[((i / 8) % EDITED_GLYPHS.len() as u64) as usize], page: (i / 8 / EDITED_GLYPHS.len() as u64) as u8 }
}

fn edited_strip_doc(s: &Strip) -> Doc {
    let mut d = strip_doc(s);
    let page = s.page as usize % PAGES;
    // the clone sits in a slot whose own page is another one
    let other = if page == 1 { 2u8 } else { 1u8 };
    d.slots = vec![0, other];
    d.edited_clone = Some(1);
    d.edited_space = true;
    // every second cell of the strip (and the whole second row's glyph cells) is shown in the clone
    for (y, row) in d.layers[0].rows.iter_mut().enumerate() {
        for (x, c) in row.iter_mut().enumerate() {
            if (x + y) % 2 == 1 {
                c.font = 1;
            }
        }
    }
    d
}

fn check_edited_strip(s: &Strip) -> Verdict {
    match check_doc(&edited_strip_doc(s)) {
        Verdict::Pass { .. } => Verdict::pass(s.neighbour & 3 != 0, "edited_clone"),
        v => v,
    }
}

fn main() {
    let mut eng = Engine::new("C12");
    eng.rule(
        "documents: 1..=12 x 1..=6 cells, 1..=4 Normal-mode layers (alpha channel, offset -3..8/-2..4, own size, hidden, default font page), cells = glyph (NUL/space/255/219, \
         every glyph the harness classifies all-clear or all-set in the cell's font, any of 0..=255) x fg/bg (16 palette colours, up to 4 RGB colours inserted into the palette) x bold x \
         font slot (up to 3 slots per document holding any of the 43 built-in pages, slot 0 may hold any page, so 8- and 16-row fonts mix) x visible/invisible cell x \
         attached SAUCE record with a stated size / font / ice flag that may contradict the document (25%, attached without resizing) x edited font clone (20%: one of the extra slots holds a clone of slot 0's font with ten glyphs redrawn in place and the cached checksum left stale) x \
         storage shape of layer 0 (40%: extra lines below, rows longer than the width, layer larger than the buffer, terminal size != buffer size, unallocated trailing cells). \
         strips (exhaustive): 43 pages x 256 glyphs x 8 neighbour attributes (other fg, other bg, bold) x {page in slot 0, page in its own slot}: a 5x2 document with the glyph under test \
         after a mixed glyph, after itself, at the line end and at the line start. edited_strips (exhaustive): 43 pages x the 10 redrawn glyphs x 8 neighbour attributes, the page in slot 0 and \
         its edited clone in another slot, the strip's cells alternating between both. Both normalize_whitespaces settings are evaluated for every case. \
         Non-trivial (documents): the composited picture has >= 1 all-clear glyph with foreground != 7 whose scan-order predecessor has another foreground AND >= 1 all-set glyph; \
         (strips): the glyph under test is all-clear or all-set and the neighbour differs in fg or bg. Distinct by case hash.",
    );
    eng.assume("Buffer::render_to_rgba is the reference renderer and Buffer::get_char the reference compositor (C13 checks compositing itself)");
    eng.assume("glyph bitmaps of the built-in pages are taken from BitFont::from_ansi_font_page (C17 checks fonts); all-clear / all-set is decided by the harness from those bitmaps");
    eng.assume("the font table holds every slot a cell or a layer default refers to (render_to_rgba unwraps the font); cells stay inside the font's glyph range 0..=255");
    eng.assume("secondary clause compares the composited document with layer 0 of the optimised buffer (flat_clone writes the composite there)");

    eng.enumerated(PartCfg::new("strips", 0, 0).exhaustive(true), STRIPS, strip, check_strip);
    eng.enumerated(PartCfg::new("edited_strips", 0, 0).exhaustive(true), EDITED_STRIPS, edited_strip, check_edited_strip);
    eng.generated_min(PartCfg::new("documents", 800_000, 12_000_000), || docs(), check_doc, classify, minimize);
    eng.run();
}
