//! C18 — 8-bit attribute and code-page codecs are exact inverses on their domain.
//!
//! Everything is finite and enumerated:
//!   attr_bytes   256 bytes x {blink, ice, unlimited}:   from_u8(b, m).as_u8(m) == b
//!   attr_tuples  16 fg x 16 bg x blink x bold x 3 modes: from_u8(t.as_u8(m), m) has the same foreground, background, blink
//!   codes        256 codes x 4 converters:              from_unicode(to_unicode(code)) == code  (claimed for CP437: all, ATASCII: 0..128)
//!   typed        63 letters/digits/space x 4 converters: to_unicode(from_unicode(ch)) == ch, and the code is the emulation's code
use icy_engine::{AttributedChar, IceMode, TextAttribute, UnicodeConverter};
use icyv::serde_json::json;
use icyv::{Engine, PartCfg, Verdict};
use serde::{Deserialize, Serialize};
use std::collections::BTreeMap;

#[derive(Clone, Copy, Debug, Hash, PartialEq, Eq, Serialize, Deserialize)]
enum Mode {
    Blink,
    Ice,
    Unlimited,
}
const MODES: [Mode; 3] = [Mode::Blink, Mode::Ice, Mode::Unlimited];

impl Mode {
    fn engine(self) -> IceMode {
        match self {
            Mode::Blink => IceMode::Blink,
            Mode::Ice => IceMode::Ice,
            Mode::Unlimited => IceMode::Unlimited,
        }
    }
    fn tag(self) -> &'static str {
        match self {
            Mode::Blink => "blink",
            Mode::Ice => "ice",
            Mode::Unlimited => "unlimited",
        }
    }
}

// ------------------------------------------------------------------------------------------------------------
// attribute bytes
// ------------------------------------------------------------------------------------------------------------

#[derive(Clone, Debug, Hash, Serialize, Deserialize)]
struct ByteCase {
    byte: u8,
    mode: Mode,
}

fn check_byte(c: &ByteCase) -> Verdict {
    let m = c.mode.engine();
    let a = TextAttribute::from_u8(c.byte, m);
    let back = a.as_u8(m);
    let bit7 = c.byte & 0x80 != 0;
    if back != c.byte {
        return Verdict::fail(
            format!("byte_roundtrip|mode={}|bit7={}", c.mode.tag(), u8::from(bit7)),
            format!(
                "from_u8({:#04x}, {:?}) = fg {} bg {} blink {} bold {}; as_u8({:?}) = {:#04x}",
                c.byte,
                c.mode,
                a.get_foreground(),
                a.get_background(),
                a.is_blinking(),
                a.is_bold(),
                c.mode,
                back
            ),
        );
    }
    Verdict::pass(c.byte != 0, format!("{}|bit7={}", c.mode.tag(), u8::from(bit7)))
}

// ------------------------------------------------------------------------------------------------------------
// attribute tuples
// ------------------------------------------------------------------------------------------------------------

#[derive(Clone, Debug, Hash, Serialize, Deserialize)]
struct TupleCase {
    fg: u8,
    bg: u8,
    blink: bool,
    bold: bool,
    mode: Mode,
}

/// Is (fg, bg, blink) something a byte can say in this mode?
/// Blink: bit 7 is the blink flag, so 8 backgrounds. Ice: bit 7 is background intensity, so 16 backgrounds and no blink.
/// Unlimited: the in-memory model allows both, a byte cannot hold both; the byte's meaning is whatever the decoder gives it,
/// so the expressible set is the decoder's image (computed, not assumed — it stays right whichever way the codec is made consistent).
fn expressible(fg: u8, bg: u8, blink: bool, mode: Mode) -> bool {
    match mode {
        Mode::Blink => bg < 8,
        Mode::Ice => !blink,
        Mode::Unlimited => (0..=255u8).any(|b| {
            let a = TextAttribute::from_u8(b, IceMode::Unlimited);
            a.get_foreground() == fg as u32 && a.get_background() == bg as u32 && a.is_blinking() == blink
        }),
    }
}

fn check_tuple(c: &TupleCase) -> Verdict {
    // a DOS attribute byte has no bold bit: bold is the intensity bit of the foreground, so a bold attribute with
    // foreground f < 8 is the attribute with foreground f + 8 (TextAttribute::from_color builds attributes that way)
    let eff_fg = c.fg | if c.bold { 8 } else { 0 };
    if !expressible(eff_fg, c.bg, c.blink, c.mode) {
        return Verdict::discard(format!("not expressible in {}", c.mode.tag()));
    }
    let m = c.mode.engine();
    let mut a = TextAttribute::new(c.fg as u32, c.bg as u32);
    a.set_is_blinking(c.blink);
    a.set_is_bold(c.bold);
    let byte = a.as_u8(m);
    let d = TextAttribute::from_u8(byte, m);
    let mode = c.mode.tag();
    let detail = || {
        format!(
            "fg {} bg {} blink {} bold {} --as_u8({:?})--> {:#04x} --from_u8--> fg {} bg {} blink {} bold {}",
            c.fg,
            c.bg,
            c.blink,
            c.bold,
            c.mode,
            byte,
            d.get_foreground(),
            d.get_background(),
            d.is_blinking(),
            d.is_bold()
        )
    };
    if d.is_blinking() != c.blink {
        return Verdict::fail(format!("attr_roundtrip.blink|mode={mode}|blink={}", c.blink), detail());
    }
    if d.get_background() != c.bg as u32 {
        return Verdict::fail(format!("attr_roundtrip.background|mode={mode}"), detail());
    }
    let fg_back = d.get_foreground() | if d.is_bold() { 8 } else { 0 };
    if fg_back != eff_fg as u32 {
        return Verdict::fail(format!("attr_roundtrip.foreground|mode={mode}|bold={}", c.bold), detail());
    }
    let class = format!("{mode}|{}", if c.bold && c.fg < 8 { "bold_folded_into_fg" } else if c.bold { "bold_on_bright_fg" } else { "plain" });
    Verdict::pass((c.fg, c.bg, c.blink, c.bold) != (0, 0, false, false), class)
}

/// Attribute flags a DOS attribute byte has no room for (and the font page): they must not change the byte.
/// One case = one tuple x one extra-flag set; the byte is compared with the byte of the same tuple without the extras.
#[derive(Clone, Debug, Hash, Serialize, Deserialize)]
struct FlagCase {
    t: TupleCase,
    /// bits of TextAttribute::attr other than BOLD, BLINK and the INVISIBLE / SHORT_DATA markers
    extra: u16,
    font_page: u8,
}

const EXTRA_BITS: [u16; 8] = [0x0002, 0x0004, 0x0010, 0x0020, 0x0040, 0x0080, 0x0100, 0x0200];
/// extra-flag sets: each single flag, all of them, none (with a font page)
const EXTRA_SETS: u64 = 10;

fn flag_case(i: u64) -> FlagCase {
    let t = tuple_case(i % 3072);
    let k = i / 3072;
    let (extra, font_page) = match k {
        0..=7 => (EXTRA_BITS[k as usize], 0),
        8 => (EXTRA_BITS.iter().fold(0, |a, b| a | b), 0),
        _ => (0, 3),
    };
    FlagCase { t, extra, font_page }
}

fn check_flags(c: &FlagCase) -> Verdict {
    let t = &c.t;
    let m = t.mode.engine();
    let mut plain = TextAttribute::new(t.fg as u32, t.bg as u32);
    plain.set_is_blinking(t.blink);
    plain.set_is_bold(t.bold);
    let mut decorated = plain;
    decorated.attr |= c.extra;
    decorated.set_font_page(c.font_page as usize);
    let (a, b) = (plain.as_u8(m), decorated.as_u8(m));
    let what = if c.extra == 0 { "font_page".to_string() } else if c.extra.count_ones() > 1 { "all_flags".to_string() } else { format!("flag_{:#06x}", c.extra) };
    if a != b {
        return Verdict::fail(
            format!("attr_byte_depends_on|{what}|mode={}", t.mode.tag()),
            format!("fg {} bg {} blink {} bold {}: as_u8({:?}) = {a:#04x}, with attr |= {:#06x} and font page {} it is {b:#04x}", t.fg, t.bg, t.blink, t.bold, t.mode, c.extra, c.font_page),
        );
    }
    Verdict::pass((t.fg, t.bg, t.blink, t.bold) != (0, 0, false, false), format!("{}|{what}", t.mode.tag()))
}

// ------------------------------------------------------------------------------------------------------------
// converters
// ------------------------------------------------------------------------------------------------------------

#[derive(Clone, Copy, Debug, Hash, PartialEq, Eq, Serialize, Deserialize)]
enum Conv {
    Cp437,
    Petscii,
    Atascii,
    Viewdata,
}
const CONVS: [Conv; 4] = [Conv::Cp437, Conv::Petscii, Conv::Atascii, Conv::Viewdata];

impl Conv {
    fn tag(self) -> &'static str {
        match self {
            Conv::Cp437 => "cp437",
            Conv::Petscii => "petscii",
            Conv::Atascii => "atascii",
            Conv::Viewdata => "viewdata",
        }
    }
    fn engine(self) -> Box<dyn UnicodeConverter> {
        match self {
            Conv::Cp437 => Box::<icy_engine::parsers::ascii::CP437Converter>::default(),
            Conv::Petscii => Box::<icy_engine::parsers::petscii::CharConverter>::default(),
            Conv::Atascii => Box::<icy_engine::parsers::atascii::CharConverter>::default(),
            Conv::Viewdata => Box::<icy_engine::parsers::viewdata::CharConverter>::default(),
        }
    }
    /// number of leading codes for which the statement claims code -> Unicode -> code
    fn claimed_codes(self) -> u32 {
        match self {
            Conv::Cp437 => 256,
            Conv::Atascii => 128,
            Conv::Petscii | Conv::Viewdata => 0,
        }
    }
}

#[derive(Clone, Debug, Hash, Serialize, Deserialize)]
struct CodeCase {
    code: u8,
    conv: Conv,
}

fn to_uni(conv: &dyn UnicodeConverter, code: u32) -> char {
    conv.convert_to_unicode(AttributedChar::new(char::from_u32(code).unwrap(), TextAttribute::default()))
}

fn check_code(c: &CodeCase) -> Verdict {
    let conv = c.conv.engine();
    let code = c.code as u32;
    let uni = to_uni(&*conv, code);
    let back = conv.convert_from_unicode(uni, 0) as u32;
    let claimed = code < c.conv.claimed_codes();
    let t = c.conv.tag();
    if !claimed {
        // ATASCII 128..=255 (inverse video repeats the glyphs), PETSCII and Viewdata codes: exercised, nothing claimed
        return Verdict::pass(false, format!("{t}|unclaimed|{}", if back == code { "returns" } else { "collapses" }));
    }
    if back != code {
        return Verdict::fail(
            format!("code_roundtrip|conv={t}"),
            format!("code {code:#04x} -> U+{:04X} -> code {back:#04x}", uni as u32),
        );
    }
    Verdict::pass(true, format!("{t}|{}", if uni as u32 == code { "same_scalar" } else { "table_mapped" }))
}

/// The cell's attribute is no part of a code: every claimed code and every typed character converts the same way under all
/// 16 x 16 colour pairs x {plain, bold, blink, every flag set}. One case = one code (or typed character) x one converter; the
/// 1024 attributes are walked inside.
#[derive(Clone, Debug, Hash, Serialize, Deserialize)]
struct ColouredCase {
    /// 0..=255: a code; 256..: index into typed_chars() + 256
    what: u16,
    conv: Conv,
}

fn coloured_case(i: u64) -> ColouredCase {
    ColouredCase { what: (i % (256 + 63)) as u16, conv: CONVS[(i / (256 + 63)) as usize] }
}

fn check_coloured(c: &ColouredCase) -> Verdict {
    let conv = c.conv.engine();
    let t = c.conv.tag();
    let code = if c.what < 256 {
        c.what as u32
    } else {
        let ch = typed_chars()[(c.what - 256) as usize];
        conv.convert_from_unicode(ch, 0) as u32
    };
    let claimed = c.what >= 256 || code < c.conv.claimed_codes();
    if code > 255 {
        return Verdict::pass(false, format!("{t}|no_code"));
    }
    let base = to_uni(&*conv, code);
    for fg in 0..16u32 {
        for bg in 0..16u32 {
            for flags in 0..4u8 {
                let mut a = TextAttribute::new(fg, bg);
                match flags {
                    1 => a.set_is_bold(true),
                    2 => a.set_is_blinking(true),
                    3 => a.attr |= 0x03FF,
                    _ => {}
                }
                let uni = conv.convert_to_unicode(AttributedChar::new(char::from_u32(code).unwrap(), a));
                if uni != base && claimed {
                    let inverse = if fg < bg { "dark_on_light" } else { "other" };
                    return Verdict::fail(
                        format!("code_depends_on_attribute|conv={t}|{inverse}"),
                        format!("code {code:#04x} is U+{:04X} with the default attribute and U+{:04X} with fg {fg} bg {bg} flag set {flags}", base as u32, uni as u32),
                    );
                }
                if claimed {
                    let back = conv.convert_from_unicode(uni, 0) as u32;
                    if back != code {
                        return Verdict::fail(format!("code_roundtrip_under_attribute|conv={t}"), format!("code {code:#04x} with fg {fg} bg {bg} -> U+{:04X} -> code {back:#04x}", uni as u32));
                    }
                }
            }
        }
    }
    // the font page is handed to both directions: under every page the round trip must close (nothing is asserted about whether
    // the page may influence the mapping, only that both directions agree)
    if claimed {
        for page in (0..=47usize).chain([63, 100, 255, 1000]) {
            let mut a = TextAttribute::default();
            a.set_font_page(page);
            if c.what < 256 {
                let uni = conv.convert_to_unicode(AttributedChar::new(char::from_u32(code).unwrap(), a));
                let back = conv.convert_from_unicode(uni, page) as u32;
                if back != code {
                    return Verdict::fail(format!("code_roundtrip_under_font_page|conv={t}"), format!("font page {page}: code {code:#04x} -> U+{:04X} -> code {back:#04x}", uni as u32));
                }
            } else {
                let ch = typed_chars()[(c.what - 256) as usize];
                let code_p = conv.convert_from_unicode(ch, page) as u32;
                let back = if code_p < 256 { Some(conv.convert_to_unicode(AttributedChar::new(char::from_u32(code_p).unwrap(), a))) } else { None };
                if back != Some(ch) {
                    return Verdict::fail(format!("typed_roundtrip_under_font_page|conv={t}"), format!("font page {page}: {ch:?} -> code {code_p:#04x} -> {back:?}"));
                }
            }
        }
    }
    Verdict::pass(claimed, format!("{t}|{}", if claimed { "claimed" } else { "unclaimed" }))
}

#[derive(Clone, Debug, Hash, Serialize, Deserialize)]
struct TypedCase {
    ch: char,
    conv: Conv,
}

fn typed_chars() -> Vec<char> {
    let mut v: Vec<char> = Vec::new();
    v.extend('a'..='z');
    v.extend('A'..='Z');
    v.extend('0'..='9');
    v.push(' ');
    v
}

/// the code a typed character has in the emulation: CP437, ATASCII and Viewdata keep ASCII for letters, digits and space;
/// PETSCII (the engine's tables are the shifted, lower/upper-case character set) has the two letter cases exchanged
fn emulation_code(conv: Conv, ch: char) -> u32 {
    match conv {
        Conv::Petscii if ch.is_ascii_lowercase() => ch.to_ascii_uppercase() as u32,
        Conv::Petscii if ch.is_ascii_uppercase() => ch.to_ascii_lowercase() as u32,
        _ => ch as u32,
    }
}

fn check_typed(c: &TypedCase) -> Verdict {
    let conv = c.conv.engine();
    let t = c.conv.tag();
    let kind = if c.ch.is_ascii_lowercase() {
        "lower"
    } else if c.ch.is_ascii_uppercase() {
        "upper"
    } else if c.ch.is_ascii_digit() {
        "digit"
    } else {
        "space"
    };
    let code = conv.convert_from_unicode(c.ch, 0) as u32;
    let back = if code < 256 { Some(to_uni(&*conv, code)) } else { None };
    if back != Some(c.ch) {
        return Verdict::fail(
            format!("typed_roundtrip|conv={t}"),
            format!("{:?} -> code {code:#04x} -> {:?}", c.ch, back),
        );
    }
    let want = emulation_code(c.conv, c.ch);
    if code != want {
        return Verdict::fail(
            format!("typed_code|conv={t}"),
            format!("{:?} converts to code {code:#04x}, the emulation's code is {want:#04x}", c.ch),
        );
    }
    // and from the code's side: the code of a typed character converts back to itself
    let again = conv.convert_from_unicode(to_uni(&*conv, code), 0) as u32;
    if again != code {
        return Verdict::fail(format!("typed_code_roundtrip|conv={t}"), format!("code {code:#04x} -> {:?} -> code {again:#04x}", to_uni(&*conv, code)));
    }
    Verdict::pass(true, format!("{t}|{kind}"))
}

// ------------------------------------------------------------------------------------------------------------

fn byte_case(i: u64) -> ByteCase {
    ByteCase { byte: (i % 256) as u8, mode: MODES[(i / 256) as usize] }
}
fn tuple_case(i: u64) -> TupleCase {
    TupleCase { fg: (i % 16) as u8, bg: ((i / 16) % 16) as u8, blink: (i / 256) % 2 == 1, bold: (i / 512) % 2 == 1, mode: MODES[(i / 1024) as usize] }
}
fn code_case(i: u64) -> CodeCase {
    CodeCase { code: (i % 256) as u8, conv: CONVS[(i / 256) as usize] }
}

/// The engine stops listing after one case per key; the complete list of failing cases per key goes into the evidence.
fn survey<C: std::fmt::Debug>(out: &mut BTreeMap<String, Vec<String>>, total: u64, make: impl Fn(u64) -> C, check: impl Fn(&C) -> Verdict, show: impl Fn(&C) -> String) {
    for i in 0..total {
        let c = make(i);
        let v = match icyv::panics::guarded(|| check(&c)) {
            Ok(v) => v,
            Err((sig, _)) => Verdict::fail(sig, ""),
        };
        if let Verdict::Fail { key, .. } = v {
            out.entry(key).or_default().push(show(&c));
        }
    }
}

fn main() {
    let mut eng = Engine::new("C18");
    eng.rule(
        "All four parts enumerate their finite domain once (exhaustive). attr_bytes: 256 bytes x {Blink, Ice, Unlimited}; non-trivial: byte != 0. \
         attr_tuples: fg 0..16 x bg 0..16 x blink x bold x 3 modes; a tuple outside what a byte can say in the mode (Blink: bg >= 8; Ice: blink; \
         Unlimited: not in the image of from_u8(., Unlimited)) is discarded; bold is the foreground intensity bit (expected foreground fg|8); non-trivial: \
         expressible and not the all-zero tuple. codes: 256 codes x {CP437, PETSCII, ATASCII, Viewdata}; the round trip is asserted for CP437 (256) and \
         ATASCII (0..128), the other 640 codes are only exercised (class '<conv>|unclaimed|returns/collapses', never non-trivial). typed: a-z, A-Z, 0-9, space x 4 converters; \
         every case non-trivial. attr_flags: every tuple x {each of the eight attribute flags a byte has no room for, all of them, font page 3}: the byte equals the byte of the plain tuple. \
         codes_under_attributes: every code and every typed character x 4 converters, each walked through 16 x 16 colour pairs x {plain, bold, blink, all flags}: same Unicode character as with the default attribute, and (claimed codes) back to the same code; and under every font page 0..=47, 63, 100, 255, 1000 handed to both directions the round trip closes.",
    );
    eng.assume("letters, digits and space have their ASCII code in CP437, ATASCII and Viewdata; in PETSCII (shifted character set) the two letter cases are exchanged, digits and space as ASCII");
    eng.assume("flags outside the attribute byte (faint, italic, underline, ... , font page) and a cell's colours are no part of the statement's domain description, so they must not influence either codec");
    eng.assume("a bold attribute with foreground f < 8 stands for foreground f + 8 in an attribute byte (no separate bold bit)");

    // complete failure lists (the domains are tiny)
    let mut failing: BTreeMap<String, Vec<String>> = BTreeMap::new();
    survey(&mut failing, 768, byte_case, check_byte, |c| format!("({:#04x},{})", c.byte, c.mode.tag()));
    survey(&mut failing, 3072, tuple_case, check_tuple, |c| format!("(fg{},bg{},blink{},bold{},{})", c.fg, c.bg, u8::from(c.blink), u8::from(c.bold), c.mode.tag()));
    survey(&mut failing, 1024, code_case, check_code, |c| format!("({:#04x},{})", c.code, c.conv.tag()));
    let tc = typed_chars();
    let n_typed = (tc.len() * CONVS.len()) as u64;
    {
        let tc = tc.clone();
        survey(&mut failing, n_typed, move |i| TypedCase { ch: tc[(i % 63) as usize], conv: CONVS[(i / 63) as usize] }, check_typed, |c| format!("({:?},{})", c.ch, c.conv.tag()));
    }
    let counts: BTreeMap<&String, usize> = failing.iter().map(|(k, v)| (k, v.len())).collect();
    eng.extra("failing_case_count_by_key", json!(counts));
    eng.extra("failing_cases_by_key", json!(failing));

    eng.enumerated(PartCfg::new("attr_bytes", 0, 0).exhaustive(true), 768, byte_case, check_byte);
    eng.enumerated(PartCfg::new("attr_tuples", 0, 0).exhaustive(true), 3072, tuple_case, check_tuple);
    eng.enumerated(PartCfg::new("attr_flags", 0, 0).exhaustive(true), 3072 * EXTRA_SETS, flag_case, check_flags);
    eng.enumerated(PartCfg::new("codes", 0, 0).exhaustive(true), 1024, code_case, check_code);
    eng.enumerated(PartCfg::new("codes_under_attributes", 0, 0).exhaustive(true), (256 + 63) * 4, coloured_case, check_coloured);
    eng.enumerated(
        PartCfg::new("typed", 0, 0).exhaustive(true),
        n_typed,
        move |i| TypedCase { ch: tc[(i % 63) as usize], conv: CONVS[(i / 63) as usize] },
        check_typed,
    );
    eng.run();
}
