//! Writes seed inputs for the libFuzzer targets: `mkseeds <dir>` creates <dir>/loader/* (golden files written by the
//! engine's own writers, prefixed with the selector byte of fuzz_targets/loader.rs).
use icy_engine::{AttributedChar, Buffer, IceMode, SaveOptions, TextAttribute};

const EXTS: [&str; 18] = ["ans", "icy", "idf", "bin", "xb", "tnd", "pcb", "avt", "asc", "adf", "msg", "an1", "seq", "ata", "diz", "ice", "xyz", "an9"];

fn doc(ice: bool) -> Buffer {
    let mut buf = Buffer::new((80, 5));
    for y in 0..5 {
        for x in 0..80 {
            let ch = AttributedChar::new((b'a' + ((x * 3 + y) % 23) as u8) as char, TextAttribute::from_u8(((x as u8) ^ (y as u8 * 31)) & if ice { 0xFF } else { 0x7F }, IceMode::Ice));
            buf.layers[0].set_char((x, y), ch);
        }
    }
    if ice {
        buf.ice_mode = IceMode::Ice;
    }
    buf
}

fn main() {
    let dir = std::env::args().nth(1).expect("usage: mkseeds <dir>");
    let ld = format!("{dir}/loader");
    std::fs::create_dir_all(&ld).unwrap();
    for (i, ext) in EXTS.iter().enumerate() {
        for sauce in [false, true] {
            let mut o = SaveOptions::new();
            o.lossles_output = true;
            o.save_sauce = sauce;
            let b = doc(matches!(*ext, "idf" | "adf"));
            if let Ok(bytes) = b.to_bytes(ext, &o) {
                let mut v = vec![i as u8];
                v.extend(bytes);
                std::fs::write(format!("{ld}/{ext}-{}", u8::from(sauce)), v).unwrap();
            }
        }
    }
    let n = EXTS.len() as u8;
    if let Ok(p) = icy_engine::BitFont::default().to_psf2_bytes() {
        let mut v = vec![n + 1];
        v.extend(p);
        std::fs::write(format!("{ld}/psf2"), v).unwrap();
    }
    let mut f = icy_engine::TheDrawFont::new("SEED", icy_engine::FontType::Color, 1);
    f.set_glyph('A', icy_engine::FontGlyph { size: (2, 2).into(), data: b"a\x1fb\x1e\rc\x1dd\x1c".to_vec() });
    if let Ok(t) = f.as_tdf_bytes() {
        let mut v = vec![n + 2];
        v.extend(t);
        std::fs::write(format!("{ld}/tdf"), v).unwrap();
    }
    let pal = icy_engine::Palette::dos_default();
    for (k, fmt) in [icy_engine::PaletteFormat::Hex, icy_engine::PaletteFormat::Pal, icy_engine::PaletteFormat::Gpl, icy_engine::PaletteFormat::Ice, icy_engine::PaletteFormat::Txt].iter().enumerate() {
        let mut v = vec![n + 3 + k as u8];
        v.extend(pal.export_palette(fmt));
        std::fs::write(format!("{ld}/pal{k}"), v).unwrap();
    }
    println!("seeds written to {dir}");
}
