//! C13 — layer compositing obeys the stacking laws.
//!
//! Six metamorphic laws on `Buffer::get_char` (DESIGN.md, section C13):
//!   L1 a hidden layer never influences the picture (insert / remove / replace a hidden layer);
//!   L2 removing a visible layer changes nothing outside its rectangle;
//!   L3 inserting an empty alpha layer (any mode, any index) changes nothing;
//!   L4 beneath an opaque (Normal mode, no alpha channel), visible layer anything may be replaced without a change inside
//!      its rectangle;
//!   L5 with all other layers hidden, moving a layer by d gives get'(p + d) = get(p);
//!   L6 translating every layer by d gives get'(p + d) = get(p).
//! Visible results are compared on char, fg, bg, attr and font page; invisible results as "invisible" only.
//! Domain restrictions (false-alarm discipline, DESIGN.md section 4): the same default_font_page on every layer, no overlay
//! layer, "opaque" = Normal mode without alpha channel; precedence between several Chars/Attributes layers is never asserted
//! (every law compares two stacks that contain the same Chars/Attributes layers in the same order at the compared position).
use icy_engine::{attribute, AttributedChar, Buffer, Layer, Mode, TextAttribute, TextPane};
use icyv::proptest::prelude::*;
use icyv::proptest::sample::select;
use icyv::{Engine, PartCfg, Verdict};
use serde::{Deserialize, Serialize};

const T: u32 = TextAttribute::TRANSPARENT_COLOR;
const HALF_TOP: char = '\u{DF}'; // 223
const HALF_BOTTOM: char = '\u{DC}'; // 220
const FULL: char = '\u{DB}'; // 219

// ---------------------------------------------------------------------------------------------------------------- model

/// content of one cell as given to `Layer::set_char`
#[derive(Clone, Copy, Debug, Hash, PartialEq, Eq, Serialize, Deserialize)]
struct CellV {
    ch: char,
    fg: u32,
    bg: u32,
    /// raw attribute bits (0x8000 = INVISIBLE)
    attr: u16,
    font: u8,
}

impl CellV {
    fn is_visible(&self) -> bool {
        self.attr & attribute::INVISIBLE == 0
    }
    fn has_transparent_colour(&self) -> bool {
        self.fg == T || self.bg == T
    }
    fn canonical_invisible() -> CellV {
        CellV { ch: ' ', fg: 7, bg: 0, attr: attribute::INVISIBLE, font: 0 }
    }
    fn to_engine(self) -> AttributedChar {
        let mut a = TextAttribute::new(self.fg, self.bg);
        a.attr = self.attr;
        a.set_font_page(self.font as usize);
        AttributedChar::new(self.ch, a)
    }
}

#[derive(Clone, Debug, Hash, Serialize, Deserialize)]
struct CellM {
    x: u8,
    y: u8,
    v: CellV,
}

#[derive(Clone, Debug, Hash, Serialize, Deserialize)]
struct LayerM {
    w: u8,
    h: u8,
    ox: i8,
    oy: i8,
    /// 0 Normal, 1 Chars, 2 Attributes
    mode: u8,
    alpha: bool,
    visible: bool,
    /// drop trailing invisible cells / empty rows after filling (exercises the "beyond the stored line" path of Layer::get_char)
    compact: bool,
    /// every position gets this cell first
    fill: Option<CellV>,
    /// sparse content, applied in order
    cells: Vec<CellM>,
    /// when set, (ox, oy) is a pending preview (drag) offset on top of this stored base offset: Layer::get_offset() reports (ox, oy)
    #[serde(default)]
    base: Option<(i8, i8)>,
    /// the layer was created (margin.0, margin.1) cells larger, the surplus filled with visible cells, and then shrunk with Layer::set_size:
    /// the storage keeps cells outside the layer's rectangle (what the editor leaves behind after a layer/canvas resize)
    #[serde(default)]
    margin: (u8, u8),
    /// layer attributes that are no stacking attributes and must not influence the picture, set after the content:
    /// bits 0-1 role (Normal, PastePreview, PasteImage, Image), bit 2 is_locked, bit 3 is_alpha_channel_locked, bit 4 title + colour tag
    #[serde(default)]
    extras: u8,
}

#[derive(Clone, Debug, Hash, Serialize, Deserialize)]
struct Case {
    /// default_font_page of every layer (equal on all layers: domain restriction)
    font_page: u8,
    /// Buffer::is_terminal_buffer (only with font_page 0)
    terminal: bool,
    /// bottom to top
    layers: Vec<LayerM>,
    /// auxiliary layer: inserted hidden / replaces a hidden layer (L1); gives geometry and cell positions of the empty alpha layer (L3)
    extra: LayerM,
    /// replacement for everything beneath an opaque layer (L4)
    alt: Vec<LayerM>,
    dx: i8,
    dy: i8,
}

fn mode_name(m: u8) -> &'static str {
    match m {
        0 => "normal",
        1 => "chars",
        _ => "attributes",
    }
}
fn lclass(l: &LayerM) -> String {
    format!("{}+{}", mode_name(l.mode), if l.alpha { "alpha" } else { "noalpha" })
}
fn is_opaque(l: &LayerM) -> bool {
    l.mode == 0 && !l.alpha
}

impl LayerM {
    fn covers(&self, x: i32, y: i32) -> bool {
        let (lx, ly) = (x - self.ox as i32, y - self.oy as i32);
        lx >= 0 && ly >= 0 && lx < self.w as i32 && ly < self.h as i32
    }
    fn intersects(&self, o: &LayerM) -> bool {
        let (ax0, ay0, ax1, ay1) = (self.ox as i32, self.oy as i32, self.ox as i32 + self.w as i32, self.oy as i32 + self.h as i32);
        let (bx0, by0, bx1, by1) = (o.ox as i32, o.oy as i32, o.ox as i32 + o.w as i32, o.oy as i32 + o.h as i32);
        ax0 < bx1 && bx0 < ax1 && ay0 < by1 && by0 < ay1
    }
    /// model of the layer's own cell at buffer position (x, y)
    fn cell_at(&self, x: i32, y: i32) -> Option<CellV> {
        if !self.covers(x, y) {
            return None;
        }
        let (lx, ly) = ((x - self.ox as i32) as u8, (y - self.oy as i32) as u8);
        self.cells.iter().rev().find(|c| c.x == lx && c.y == ly).map(|c| c.v).or(self.fill)
    }
    fn in_domain(&self) -> bool {
        (1..=12).contains(&self.w) && (1..=8).contains(&self.h) && (-4..=6).contains(&self.ox) && (-4..=6).contains(&self.oy) && self.mode <= 2
    }
}

fn build_layer(m: &LayerM, page: usize) -> Layer {
    let mut l = Layer::new("l", (m.w as i32 + m.margin.0 as i32, m.h as i32 + m.margin.1 as i32));
    l.properties.has_alpha_channel = m.alpha;
    l.properties.mode = match m.mode {
        0 => Mode::Normal,
        1 => Mode::Chars,
        _ => Mode::Attributes,
    };
    l.default_font_page = page;
    if let Some(f) = m.fill {
        for y in 0..m.h as i32 {
            for x in 0..m.w as i32 {
                l.set_char((x, y), f.to_engine());
            }
        }
    }
    for c in &m.cells {
        l.set_char((c.x as i32, c.y as i32), c.v.to_engine());
    }
    if m.margin != (0, 0) {
        let junk = CellV { ch: 'Z', fg: 12, bg: 4, attr: 0, font: 0 }.to_engine();
        for y in 0..m.h as i32 + m.margin.1 as i32 {
            for x in 0..m.w as i32 + m.margin.0 as i32 {
                if x >= m.w as i32 || y >= m.h as i32 {
                    l.set_char((x, y), junk);
                }
            }
        }
        l.set_size((m.w as i32, m.h as i32));
    }
    if m.compact {
        let inv = AttributedChar::invisible();
        for line in &mut l.lines {
            while line.chars.last().is_some_and(|c| *c == inv && c.get_font_page() == 0) {
                line.chars.pop();
            }
        }
        while l.lines.last().is_some_and(|ln| ln.chars.is_empty()) {
            l.lines.pop();
        }
    }
    match m.base {
        None => l.set_offset((m.ox as i32, m.oy as i32)),
        Some((bx, by)) => {
            l.set_offset((bx as i32, by as i32));
            l.set_preview_offset(Some(icy_engine::Position::new(m.ox as i32, m.oy as i32)));
        }
    }
    l.role = match m.extras & 3 {
        0 => icy_engine::Role::Normal,
        1 => icy_engine::Role::PastePreview,
        2 => icy_engine::Role::PasteImage,
        _ => icy_engine::Role::Image,
    };
    l.properties.is_locked = m.extras & 4 != 0;
    l.properties.is_alpha_channel_locked = m.extras & 8 != 0;
    if m.extras & 16 != 0 {
        l.properties.title = "Background".to_string();
        l.properties.color = Some(icy_engine::Color::new(200, 30, 30));
    }
    l.properties.is_visible = m.visible;
    l
}

// ------------------------------------------------------------------------------------------------------------ observing

#[derive(Clone, Copy, Debug, PartialEq)]
enum Obs {
    Invisible,
    Vis { ch: char, fg: u32, bg: u32, attr: u16, font: usize },
}

fn observe(buf: &Buffer, x: i32, y: i32) -> Obs {
    let c = buf.get_char((x, y));
    if c.is_visible() {
        Obs::Vis { ch: c.ch, fg: c.attribute.get_foreground(), bg: c.attribute.get_background(), attr: c.attribute.attr, font: c.get_font_page() }
    } else {
        Obs::Invisible
    }
}

#[derive(Clone, Copy, Debug)]
struct Win {
    x0: i32,
    y0: i32,
    x1: i32,
    y1: i32,
}

fn window(c: &Case) -> Win {
    let mut w = Win { x0: i32::MAX, y0: i32::MAX, x1: i32::MIN, y1: i32::MIN };
    for l in c.layers.iter().chain(std::iter::once(&c.extra)).chain(c.alt.iter()) {
        w.x0 = w.x0.min(l.ox as i32);
        w.y0 = w.y0.min(l.oy as i32);
        w.x1 = w.x1.max(l.ox as i32 + l.w as i32);
        w.y1 = w.y1.max(l.oy as i32 + l.h as i32);
    }
    Win { x0: w.x0 - 2, y0: w.y0 - 2, x1: w.x1 + 2, y1: w.y1 + 2 }
}

/// all positions p of the window, read at p + shift
fn snap(buf: &mut Buffer, stack: Vec<Layer>, win: Win, shift: (i32, i32)) -> Vec<Obs> {
    buf.layers = stack;
    let mut v = Vec::with_capacity(((win.x1 - win.x0) * (win.y1 - win.y0)) as usize);
    for y in win.y0..win.y1 {
        for x in win.x0..win.x1 {
            v.push(observe(buf, x + shift.0, y + shift.1));
        }
    }
    v
}

struct Diff {
    x: i32,
    y: i32,
    text: String,
}

/// first position (scan order) where the two snapshots differ and `at` selects the position
fn first_diff(a: &[Obs], b: &[Obs], win: Win, at: impl Fn(i32, i32) -> bool) -> Option<Diff> {
    let mut i = 0;
    for y in win.y0..win.y1 {
        for x in win.x0..win.x1 {
            if a[i] != b[i] && at(x, y) {
                let font_only = match (a[i], b[i]) {
                    (Obs::Vis { ch: c1, fg: f1, bg: b1, attr: a1, font: p1 }, Obs::Vis { ch: c2, fg: f2, bg: b2, attr: a2, font: p2 }) => {
                        c1 == c2 && f1 == f2 && b1 == b2 && a1 == a2 && p1 != p2
                    }
                    _ => false,
                };
                return Some(Diff { x, y, text: format!("at ({x},{y}): before {:?}, after {:?}{}", a[i], b[i], if font_only { " (font page only)" } else { "" }) });
            }
            i += 1;
        }
    }
    None
}

/// failure key = oracle clause + input class; the kind of difference (e.g. font page only) stays in the message, one defect shows
/// up with several kinds of difference
fn key(clause: &str, class: &str, _d: &Diff) -> String {
    format!("{clause}|{class}")
}

// ----------------------------------------------------------------------------------------------------------------- laws

#[derive(Clone, Copy)]
struct Laws {
    /// L1..L6 with empty / canonically invisible inserted layers
    main: bool,
    /// L3 with an inserted alpha layer whose cells are all invisible but carry arbitrary char / colours
    noncanonical: bool,
}

type Failure = (String, String);

fn with_inserted(built: &[Layer], k: usize, l: Layer) -> Vec<Layer> {
    let mut s = built.to_vec();
    s.insert(k, l);
    s
}

fn run_laws(c: &Case, laws: Laws) -> Result<(), Failure> {
    let page = c.font_page as usize;
    let n = c.layers.len();
    // hidden layers carry ANOTHER default font page than the visible ones: nothing of a hidden layer may reach the picture,
    // not even the page it would give to cells that fall through all visible layers
    let hidden_page = if page == 2 { 1 } else { 2 };
    let built: Vec<Layer> = c.layers.iter().map(|m| build_layer(m, if m.visible { page } else { hidden_page })).collect();
    let mut buf = Buffer::new((80, 25));
    buf.is_terminal_buffer = c.terminal;
    let win = window(c);
    let base = snap(&mut buf, built.clone(), win, (0, 0));
    let everywhere = |_: i32, _: i32| true;

    if laws.main {
        // ---- L1: hidden layers never influence the picture
        let hidden_extra = build_layer(&LayerM { visible: false, ..c.extra.clone() }, hidden_page);
        for k in 0..=n {
            let got = snap(&mut buf, with_inserted(&built, k, hidden_extra.clone()), win, (0, 0));
            if let Some(d) = first_diff(&base, &got, win, everywhere) {
                return Err((
                    key("L1.hidden_layer_influences", &format!("hidden={}", lclass(&c.extra)), &d),
                    format!("inserting the hidden layer `extra` at index {k} changed the picture {}", d.text),
                ));
            }
        }
        for i in 0..n {
            if c.layers[i].visible {
                continue;
            }
            let mut s = built.clone();
            s.remove(i);
            let got = snap(&mut buf, s, win, (0, 0));
            if let Some(d) = first_diff(&base, &got, win, everywhere) {
                return Err((
                    key("L1.hidden_layer_influences", &format!("hidden={}", lclass(&c.layers[i])), &d),
                    format!("removing hidden layer {i} changed the picture {}", d.text),
                ));
            }
            let mut s = built.clone();
            s[i] = hidden_extra.clone();
            let got = snap(&mut buf, s, win, (0, 0));
            if let Some(d) = first_diff(&base, &got, win, everywhere) {
                return Err((
                    key("L1.hidden_layer_influences", &format!("hidden={}", lclass(&c.extra)), &d),
                    format!("replacing hidden layer {i} ({}) by the hidden layer `extra` changed the picture {}", lclass(&c.layers[i]), d.text),
                ));
            }
        }

        // ---- L2: a layer that does not cover a position never influences it
        for i in 0..n {
            if !c.layers[i].visible {
                continue;
            }
            let mut s = built.clone();
            s.remove(i);
            let got = snap(&mut buf, s, win, (0, 0));
            let li = &c.layers[i];
            if let Some(d) = first_diff(&base, &got, win, |x, y| !li.covers(x, y)) {
                return Err((
                    key("L2.layer_influences_outside_rect", &format!("layer={}", lclass(li)), &d),
                    format!(
                        "removing layer {i} (rect x {}..{}, y {}..{}) changed a position outside its rectangle {}",
                        li.ox,
                        li.ox as i32 + li.w as i32,
                        li.oy,
                        li.oy as i32 + li.h as i32,
                        d.text
                    ),
                ));
            }
        }

        // ---- L3: inserting an empty alpha layer (any mode) at any index changes nothing
        for mode in 0..3u8 {
            for variant in 0..2 {
                let m = LayerM {
                    mode,
                    alpha: true,
                    visible: true,
                    fill: None,
                    cells: if variant == 0 {
                        Vec::new()
                    } else {
                        // explicitly stored canonical invisible cells (rows of different stored length)
                        c.extra.cells.iter().map(|cm| CellM { x: cm.x, y: cm.y, v: CellV::canonical_invisible() }).collect()
                    },
                    ..c.extra.clone()
                };
                if variant == 1 && m.cells.is_empty() {
                    continue;
                }
                let l = build_layer(&m, page);
                for k in 0..=n {
                    let got = snap(&mut buf, with_inserted(&built, k, l.clone()), win, (0, 0));
                    if let Some(d) = first_diff(&base, &got, win, everywhere) {
                        return Err((
                            key(
                                "L3.empty_alpha_layer_influences",
                                &format!("inserted={}+alpha,cells={}", mode_name(mode), if variant == 0 { "none" } else { "invisible_canonical" }),
                                &d,
                            ),
                            format!("inserting an empty visible alpha layer (geometry of `extra`, mode {}) at index {k} changed the picture {}", mode_name(mode), d.text),
                        ));
                    }
                }
            }
        }

        // ---- L4: an opaque layer hides everything beneath it inside its rectangle
        for i in 0..n {
            let li = &c.layers[i];
            if !(li.visible && is_opaque(li)) {
                continue;
            }
            let keep = n - i;
            let alt_n = c.alt.len().min(5usize.saturating_sub(keep));
            for variant in 0..2 {
                if variant == 0 && i == 0 {
                    continue; // nothing beneath to remove
                }
                if variant == 1 && alt_n == 0 {
                    continue;
                }
                let mut s: Vec<Layer> = if variant == 0 { Vec::new() } else { c.alt[..alt_n].iter().map(|m| build_layer(m, page)).collect() };
                s.extend_from_slice(&built[i..]);
                let got = snap(&mut buf, s, win, (0, 0));
                if let Some(d) = first_diff(&base, &got, win, |x, y| li.covers(x, y)) {
                    let cell = match li.cell_at(d.x, d.y) {
                        None => "invisible",
                        Some(v) if !v.is_visible() => "invisible",
                        Some(v) if v.has_transparent_colour() => "transparent_colour",
                        Some(_) => "visible",
                    };
                    return Err((
                        key("L4.beneath_opaque_influences", &format!("opaque_cell={cell}"), &d),
                        format!(
                            "{} the {i} layer(s) beneath the opaque visible Normal layer {i} changed a position inside its rectangle {}",
                            if variant == 0 { "removing" } else { "replacing (by `alt`)" },
                            d.text
                        ),
                    ));
                }
            }
        }

        // ---- L5: with all other layers hidden, moving a layer by d moves its contribution by d
        let d = (c.dx as i32, c.dy as i32);
        for i in 0..n {
            let mut s = built.clone();
            for (j, l) in s.iter_mut().enumerate() {
                l.properties.is_visible = j == i;
            }
            let before = snap(&mut buf, s.clone(), win, (0, 0));
            let off = s[i].get_offset();
            s[i].set_offset((off.x + d.0, off.y + d.1));
            let after = snap(&mut buf, s, win, d);
            if let Some(df) = first_diff(&before, &after, win, everywhere) {
                return Err((
                    key("L5.single_layer_move_mismatch", &format!("layer={}", lclass(&c.layers[i])), &df),
                    format!("only layer {i} visible, moved by ({},{}): get'(p+d) != get(p) for p {}", d.0, d.1, df.text),
                ));
            }
        }

        // ---- L6: translating the whole stack translates the picture
        let mut s = built.clone();
        for l in &mut s {
            let off = l.get_offset();
            l.set_offset((off.x + d.0, off.y + d.1));
        }
        let after = snap(&mut buf, s, win, d);
        if let Some(df) = first_diff(&base, &after, win, everywhere) {
            let top = c.layers.iter().rev().find(|l| l.visible && l.covers(df.x, df.y)).map(lclass).unwrap_or_else(|| "none".to_string());
            return Err((
                key("L6.stack_translation_mismatch", &format!("top={top}"), &df),
                format!("all layers moved by ({},{}): get'(p+d) != get(p) for p {}", d.0, d.1, df.text),
            ));
        }
    }

    if laws.noncanonical {
        // ---- L3': invisible cells of alpha layers never influence the picture, whatever char / colours they carry
        for mode in 0..3u8 {
            let m = LayerM {
                mode,
                alpha: true,
                visible: true,
                fill: c.extra.fill.map(|v| CellV { attr: v.attr | attribute::INVISIBLE, ..v }),
                cells: c.extra.cells.iter().map(|cm| CellM { x: cm.x, y: cm.y, v: CellV { attr: cm.v.attr | attribute::INVISIBLE, ..cm.v } }).collect(),
                ..c.extra.clone()
            };
            let l = build_layer(&m, page);
            for k in 0..=n {
                let got = snap(&mut buf, with_inserted(&built, k, l.clone()), win, (0, 0));
                if let Some(d) = first_diff(&base, &got, win, everywhere) {
                    return Err((
                        key("L3.invisible_cells_of_alpha_layer_influence", &format!("inserted={}+alpha,cells=invisible_noncanonical", mode_name(mode)), &d),
                        format!(
                            "inserting a visible alpha layer (mode {}) whose cells are all invisible (INVISIBLE attribute set on the cells of `extra`) at index {k} changed the picture {}",
                            mode_name(mode),
                            d.text
                        ),
                    ));
                }
            }
        }
    }
    Ok(())
}

/// (non-trivial, class)
fn classify(c: &Case) -> (bool, String) {
    let vis: Vec<&LayerM> = c.layers.iter().filter(|l| l.visible).collect();
    let mut overlap = false;
    let mut alpha_pair = false;
    let mut mode_pair = false;
    for (i, a) in vis.iter().enumerate() {
        for b in vis.iter().skip(i + 1) {
            if a.intersects(b) {
                overlap = true;
                if a.mode != 0 || b.mode != 0 {
                    mode_pair = true;
                } else if a.alpha || b.alpha {
                    alpha_pair = true;
                }
            }
        }
    }
    // a visible transparent-colour cell with another visible layer beneath it (transparent-colour resolution is exercised)
    let mut tc = false;
    for (i, l) in c.layers.iter().enumerate() {
        if !l.visible || l.mode != 0 {
            continue;
        }
        for y in 0..l.h as i32 {
            for x in 0..l.w as i32 {
                let (px, py) = (x + l.ox as i32, y + l.oy as i32);
                if l.cell_at(px, py).is_some_and(|v| v.is_visible() && v.has_transparent_colour()) && c.layers[..i].iter().any(|b| b.visible && b.covers(px, py)) {
                    tc = true;
                }
            }
        }
    }
    let cover = if mode_pair {
        "mode_stack"
    } else if alpha_pair {
        "alpha_stack"
    } else if overlap {
        "opaque_overlap"
    } else {
        "no_overlap"
    };
    (mode_pair || alpha_pair, format!("{cover}{}", if tc { "+transparent_colour" } else { "" }))
}

fn check(c: &Case, laws: Laws) -> Verdict {
    let ok = (1..=5).contains(&c.layers.len())
        && c.alt.len() <= 3
        && c.layers.iter().chain(std::iter::once(&c.extra)).chain(c.alt.iter()).all(|l| l.in_domain())
        && !(c.terminal && c.font_page != 0);
    if !ok {
        return Verdict::discard("outside the documented domain");
    }
    match run_laws(c, laws) {
        Err((k, m)) => Verdict::fail(k, m),
        Ok(()) => {
            let (nt, class) = classify(c);
            Verdict::pass(nt, class)
        }
    }
}

// ----------------------------------------------------------------------------------------------------------- generators

fn cell_value() -> BoxedStrategy<CellV> {
    let chars = vec!['A', ' ', 'b', HALF_TOP, HALF_BOTTOM, FULL, '\0', '\u{B0}', '#'];
    let colours = vec![7u32, 0, 1, 4, 15, 9];
    let attrs = vec![0u16, attribute::BOLD, attribute::BLINK, attribute::UNDERLINE, attribute::BOLD | attribute::BLINK, attribute::OVERLINE];
    let fonts = vec![0u8, 0, 1, 2];
    let plain = (select(chars.clone()), select(colours.clone()), select(colours.clone()), select(attrs.clone()), select(fonts.clone()))
        .prop_map(|(ch, fg, bg, attr, font)| CellV { ch, fg, bg, attr, font });
    // transparent-colour cells as the half-block painter produces them (and a few it does not)
    let transp = (select(vec![HALF_TOP, HALF_BOTTOM, FULL, ' ', 'A']), select(colours.clone()), 0u8..3, select(attrs), select(fonts.clone())).prop_map(|(ch, col, which, attr, font)| {
        let (fg, bg) = match which {
            0 => (col, T),
            1 => (T, col),
            _ => (T, T),
        };
        CellV { ch, fg, bg, attr, font }
    });
    let noncanonical = (select(chars), select(colours.clone()), select(colours), select(fonts)).prop_map(|(ch, fg, bg, font)| CellV { ch, fg, bg, attr: attribute::INVISIBLE, font });
    prop_oneof![10 => plain, 6 => transp, 2 => Just(CellV::canonical_invisible()), 2 => noncanonical].boxed()
}

fn layer(max_cells: usize) -> BoxedStrategy<LayerM> {
    let geometry = (prop_oneof![1 => 1u8..=12, 1 => 5u8..=12], prop_oneof![1 => 1u8..=8, 1 => 4u8..=8], -4i8..=6, -4i8..=6);
    let props = (prop_oneof![2 => Just(0u8), 1 => Just(1u8), 1 => Just(2u8)], prop::bool::weighted(0.55), prop::bool::weighted(0.85), any::<bool>());
    let fill = prop_oneof![3 => Just(None), 1 => cell_value().prop_map(Some)];
    let cells = prop::collection::vec((0u8..12, 0u8..8, cell_value()), 0..=max_cells);
    // 15% of the layers carry a pending preview offset: the stored base offset differs from the reported one by a small delta
    let base_delta = prop_oneof![17 => Just(None), 3 => (-3i8..=3, -3i8..=3).prop_map(Some)];
    // 20% of the layers were shrunk after drawing: their storage holds visible cells outside the rectangle
    let margin = prop_oneof![8 => Just((0u8, 0u8)), 1 => (1u8..=3, 0u8..=2), 1 => (0u8..=3, 1u8..=2)];
    // 30% of the layers carry non-default values of attributes that are no stacking attributes (role, locks, title, colour tag)
    let extras = prop_oneof![7 => Just(0u8), 3 => 1u8..32];
    (geometry, props, fill, cells, base_delta, margin, extras)
        .prop_map(|((w, h, ox, oy), (mode, alpha, visible, compact), fill, raw, bd, margin, extras)| LayerM {
            base: bd.map(|(a, b)| (ox + a, oy + b)),
            margin,
            extras,
            w,
            h,
            ox,
            oy,
            mode,
            alpha,
            visible,
            compact,
            fill,
            // monotone scaling of the raw coordinates into the layer
            cells: raw.into_iter().map(|(x, y, v)| CellM { x: (x as u16 * w as u16 / 12) as u8, y: (y as u16 * h as u16 / 8) as u8, v }).collect(),
        })
        .boxed()
}

fn cases() -> BoxedStrategy<Case> {
    (
        select(vec![0u8, 0, 1, 3]),
        prop::bool::weighted(0.2),
        prop_oneof![1 => prop::collection::vec(layer(14), 1..=5), 1 => prop::collection::vec(layer(14), 3..=5)],
        layer(14),
        prop::collection::vec(layer(8), 0..=3),
        -6i8..=6,
        -6i8..=6,
    )
        .prop_map(|(font_page, terminal, layers, extra, alt, dx, dy)| Case { font_page: if terminal { 0 } else { font_page }, terminal, layers, extra, alt, dx, dy })
        .boxed()
}

// ---- exhaustive part: three 1x1 layers on one position, every (mode, alpha, visible, cell kind) combination

const TINY_KINDS: u64 = 8;
const TINY_PER_LAYER: u64 = 3 * 2 * 2 * TINY_KINDS;

fn tiny_cell(kind: u64) -> Option<CellV> {
    let v = |ch, fg, bg, attr| Some(CellV { ch, fg, bg, attr, font: 0 });
    match kind {
        0 => None,
        1 => v('A', 7, 0, 0),
        2 => v(' ', 7, 0, 0),
        3 => v(' ', 7, 1, 0),
        4 => v(HALF_TOP, 4, T, 0),
        5 => v(HALF_BOTTOM, T, 2, 0),
        6 => v('B', T, T, attribute::BOLD),
        _ => v('Q', 3, 5, attribute::INVISIBLE),
    }
}

fn tiny_layer(code: u64) -> LayerM {
    let kind = code % TINY_KINDS;
    let rest = code / TINY_KINDS;
    let visible = rest % 2 == 0;
    let alpha = (rest / 2) % 2 == 0;
    let mode = (rest / 4) as u8;
    LayerM { w: 1, h: 1, ox: 0, oy: 0, mode, alpha, visible, compact: false, fill: None, cells: tiny_cell(kind).map(|v| CellM { x: 0, y: 0, v }).into_iter().collect(), base: None, margin: (0, 0), extras: 0 }
}

fn tiny_case(i: u64) -> Case {
    let layers = vec![tiny_layer(i % TINY_PER_LAYER), tiny_layer(i / TINY_PER_LAYER % TINY_PER_LAYER), tiny_layer(i / TINY_PER_LAYER / TINY_PER_LAYER)];
    let one = |ch, fg, bg, mode, alpha| LayerM { w: 1, h: 1, ox: 0, oy: 0, mode, alpha, visible: true, compact: false, fill: None, cells: vec![CellM { x: 0, y: 0, v: CellV { ch, fg, bg, attr: 0, font: 0 } }], base: None, margin: (0, 0), extras: 0 };
    Case { font_page: 0, terminal: false, layers, extra: one('E', 14, 6, 0, true), alt: vec![one('Z', 1, 3, 0, false)], dx: 1, dy: -1 }
}

fn main() {
    let mut eng = Engine::new("C13");
    eng.rule(
        "stacks: generated stacks of 1..=5 layers (bottom to top), each 1..=12 x 1..=8 at offsets -4..=6, mode Normal/Chars/Attributes, alpha or not, visible (85%) or hidden, \
         optional fill cell plus 0..=14 sparse cells (plain cells, transparent-colour half-block cells, canonical and non-canonical invisible cells, font pages 0..2), rows optionally \
         compacted, 20% of the layers shrunk with Layer::set_size after drawing (visible cells stay in the storage outside the rectangle), 30% with non-default role / lock flags / title / colour tag (no stacking attributes); the same default_font_page (0/1/3) on every visible layer and another one (2, or 1) on every hidden layer, no overlay layer, terminal-buffer flag in 20% (font page 0). Auxiliary inputs: `extra` (hidden layer for L1, \
         geometry of the empty alpha layer for L3), `alt` (0..=3 layers replacing everything beneath an opaque layer, L4), translation d in -6..=6 squared (L5, L6). All six laws are \
         evaluated on every case at every position of the bounding box of all layers involved plus a 2-cell border (insertion laws at every index, per-layer laws for every layer). \
         tiny_exhaustive: all 96^3 stacks of three 1x1 layers on one position (3 modes x alpha x visible x 8 cell kinds each) through the same six laws. \
         invisible_cells: same generator, law L3 only, inserted alpha layer carries the cells of `extra` with the INVISIBLE attribute set (non-canonical invisible cells). \
         Non-trivial: some position is covered by >= 2 visible layers of which one has an alpha channel or a non-Normal mode (two visible layers with intersecting rectangles, one of \
         them alpha or Chars/Attributes). Distinct by case hash. Classes: no_overlap / opaque_overlap / alpha_stack / mode_stack, '+transparent_colour' if a visible Normal layer holds a visible \
         transparent-colour cell above another visible layer.",
    );
    eng.assume(
        "laws are relations between two reads of Buffer::get_char; visible results compared on char, fg, bg, attr, font page, invisible results as invisible only; \
         'opaque' = Normal mode without alpha channel; 'empty' = no cell stored or only AttributedChar::invisible() stored; precedence between several Chars/Attributes layers is not asserted",
    );
    eng.assume("layers are built through the public API: Layer::new, pub properties, Layer::set_char, Layer::set_offset; Buffer::layers is replaced directly; Buffer::new's font table (page 0 only)");

    let main_laws = Laws { main: true, noncanonical: false };
    eng.generated(PartCfg::new("stacks", 500_000, 12_000_000), cases, move |c: &Case| check(c, main_laws));
    eng.enumerated(PartCfg::new("tiny_exhaustive", 0, 0).exhaustive(true), TINY_PER_LAYER * TINY_PER_LAYER * TINY_PER_LAYER, tiny_case, move |c: &Case| check(c, main_laws));
    eng.generated(PartCfg::new("invisible_cells", 50_000, 1_000_000), cases, |c: &Case| check(c, Laws { main: false, noncanonical: true }));
    eng.run();
}
