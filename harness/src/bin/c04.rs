//! C04 — ANSI files written by the engine parse back to the same picture.
//!
//! model buffer --Buffer::to_bytes("ans", opts)--> bytes --Buffer::from_bytes("x.ans")--> loaded buffer;
//! every cell of the original rectangle must show the same glyph, displayed foreground, background and blink state.
use icy_engine::{AttributedChar, Buffer, Color, ControlCharHandling, IceMode, SaveOptions, ScreenPreperation, TextAttribute, TextPane, DOS_DEFAULT_PALETTE, XTERM_256_PALETTE};
use icyv::proptest::prelude::*;
use icyv::proptest::strategy::{NewTree, ValueTree};
use icyv::proptest::test_runner::TestRunner;
use icyv::{Engine, PartCfg, Verdict};
use serde::{Deserialize, Serialize};
use std::path::Path;
use std::sync::atomic::{AtomicU64, Ordering};

// ------------------------------------------------------------------------------------------------ model

/// colour of a cell: D = entry 0..=15 of the DOS palette, X = xterm-256 entry, R = arbitrary RGB (both inserted into the
/// buffer palette when first used), P(k) = entry 16+k of a large palette (Case::pal colours pre-inserted before any cell)
#[derive(Clone, Copy, Debug, Hash, PartialEq, Eq, Serialize, Deserialize)]
enum Col {
    D(u8),
    X(u8),
    R(u8, u8, u8),
    P(u16),
}

/// colour k of the large palette: pairwise distinct, different from every DOS and xterm-256 colour (blue is 0x11), so
/// that `Palette::insert_color` appends them and P(k) sits at palette index 16+k exactly
fn pre_rgb(k: u16) -> (u8, u8, u8) {
    (1 + (k % 250) as u8, 3 + 7 * (k / 250) as u8, 0x11)
}
const PAL_MAX: u16 = 520;
/// large-palette entries next to the interesting palette indices 15/16, 255/256/257, 511/512/513 (and the last ones)
fn special_entries(n: u16) -> Vec<u16> {
    let mut v: Vec<u16> = [16u16, 17, 254, 255, 256, 257, 258, 510, 511, 512, 513, 514].iter().map(|i| i - 16).filter(|k| *k < n).collect();
    v.push(n - 1);
    v.push(n.saturating_sub(2));
    v
}

const F_BOLD: u8 = 1;
const F_BLINK: u8 = 2;
const F_UNDERLINE: u8 = 4;
const F_CROSSED: u8 = 8;
const F_ITALIC: u8 = 16;
const F_FAINT: u8 = 32;
const F_DUNDER: u8 = 64;
const F_CONCEAL: u8 = 128;

/// (character code, foreground, background, flag bits F_*)
#[derive(Clone, Copy, Debug, Hash, PartialEq, Eq, Serialize, Deserialize)]
struct Cell(u8, Col, Col, u8);

const BLANK: Cell = Cell(b' ', Col::D(7), Col::D(0), 0);

/// (length, cell): `length` equal cells
#[derive(Clone, Copy, Debug, Hash, Serialize, Deserialize)]
struct Run(u8, Cell);

/// runs laid out from the left margin (cut at the right margin); the rest of the row is filled with `fill`
#[derive(Clone, Debug, Hash, Serialize, Deserialize)]
struct Row {
    runs: Vec<Run>,
    fill: Cell,
}

/// the option vector: 8 boolean save options x screen preparation x control-char handling x buffer ice mode
#[derive(Clone, Copy, Debug, Hash, PartialEq, Eq, Serialize, Deserialize)]
struct Opts {
    compress: bool,
    cuf: bool,
    rep: bool,
    preserve: bool,
    longer: bool,
    extcol: bool,
    sauce: bool,
    lossless: bool,
    /// 0 None, 1 ClearScreen, 2 Home
    prep: u8,
    /// 0 Ignore, 1 IcyTerm, 2 FilterOut
    ctrl: u8,
    /// 0 Unlimited, 1 Blink, 2 Ice
    ice: u8,
}

const N_OPTS: u64 = 256 * 27;

impl Opts {
    /// "nothing switched on": the vector towards which shrinking and key attribution move
    const BASE: Opts = Opts { compress: false, cuf: false, rep: false, preserve: false, longer: false, extcol: false, sauce: false, lossless: true, prep: 0, ctrl: 0, ice: 0 };

    fn from_index(i: u64) -> Opts {
        let b = (i % 256) as u8;
        let r = i / 256;
        Opts {
            compress: b & 1 != 0,
            cuf: b & 2 != 0,
            rep: b & 4 != 0,
            preserve: b & 8 != 0,
            longer: b & 16 != 0,
            extcol: b & 32 != 0,
            sauce: b & 64 != 0,
            lossless: b & 128 != 0,
            prep: (r % 3) as u8,
            ctrl: ((r / 3) % 3) as u8,
            ice: ((r / 9) % 3) as u8,
        }
    }
    fn bools(&self) -> u8 {
        (self.compress as u8) | (self.cuf as u8) << 1 | (self.rep as u8) << 2 | (self.preserve as u8) << 3 | (self.longer as u8) << 4 | (self.extcol as u8) << 5 | (self.sauce as u8) << 6 | (self.lossless as u8) << 7
    }
    /// compact tag: two hex digits of the boolean options (bit0 compress .. bit7 lossles_output) + prep + ctrl + ice digits
    fn tag(&self) -> String {
        format!("{:02x}{}{}{}", self.bools(), self.prep, self.ctrl, self.ice)
    }
    fn is_default(&self) -> bool {
        // SaveOptions::default() on a Buffer::new buffer (ice mode Unlimited)
        self.compress && self.cuf && !self.rep && !self.preserve && !self.longer && self.extcol && !self.sauce && !self.lossless && self.prep == 0 && self.ctrl == 0 && self.ice == 0
    }
    fn get(&self, i: usize) -> u8 {
        match i {
            0 => self.lossless as u8,
            1 => self.sauce as u8,
            2 => self.longer as u8,
            3 => self.preserve as u8,
            4 => self.rep as u8,
            5 => self.cuf as u8,
            6 => self.compress as u8,
            7 => self.extcol as u8,
            8 => self.prep,
            9 => self.ctrl,
            _ => self.ice,
        }
    }
    fn set(&mut self, i: usize, v: u8) {
        match i {
            0 => self.lossless = v != 0,
            1 => self.sauce = v != 0,
            2 => self.longer = v != 0,
            3 => self.preserve = v != 0,
            4 => self.rep = v != 0,
            5 => self.cuf = v != 0,
            6 => self.compress = v != 0,
            7 => self.extcol = v != 0,
            8 => self.prep = v,
            9 => self.ctrl = v,
            _ => self.ice = v,
        }
    }
    /// name of component i at value v as it appears in failure keys
    fn name(i: usize, v: u8) -> String {
        match i {
            0 => if v != 0 { "lossless".into() } else { "optimizer".into() },
            1 => "sauce".into(),
            2 => "longer_terminal".into(),
            3 => "preserve_len".into(),
            4 => "rep".into(),
            5 => "cuf".into(),
            6 => "compress".into(),
            7 => "extcolors".into(),
            8 => ["prep_none", "prep_cls", "prep_home"][v as usize % 3].into(),
            9 => ["ctrl_ignore", "ctrl_icyterm", "ctrl_filter"][v as usize % 3].into(),
            _ => ["ice_unlimited", "ice_blink", "ice_ice"][v as usize % 3].into(),
        }
    }
    fn save_options(&self) -> SaveOptions {
        let mut o = SaveOptions::new();
        o.compress = self.compress;
        o.use_cursor_forward = self.cuf;
        o.use_repeat_sequences = self.rep;
        o.preserve_line_length = self.preserve;
        o.longer_terminal_output = self.longer;
        o.use_extended_colors = self.extcol;
        o.save_sauce = self.sauce;
        o.lossles_output = self.lossless;
        o.modern_terminal_output = false;
        o.output_line_length = None;
        o.screen_preparation = match self.prep {
            0 => ScreenPreperation::None,
            1 => ScreenPreperation::ClearScreen,
            _ => ScreenPreperation::Home,
        };
        o.control_char_handling = match self.ctrl {
            0 => ControlCharHandling::Ignore,
            1 => ControlCharHandling::IcyTerm,
            _ => ControlCharHandling::FilterOut,
        };
        o
    }
}

#[derive(Clone, Debug, Hash, Serialize, Deserialize)]
struct Case {
    opts: Opts,
    /// buffer width when SAUCE carries it (opts.sauce); 80 otherwise
    w: u8,
    /// flag bits that may occur in this buffer (cell flags are ANDed with it)
    mask: u8,
    /// picture starts with the CP437 characters EF BB BF on default colours, rest of the picture 7-bit
    bom: bool,
    rows: Vec<Row>,
    /// the generator removed the trigger of an open known finding from this buffer (see `steer`)
    #[serde(default)]
    steered: bool,
    /// 0, or the number (250..=520) of distinct colours inserted into the palette before the cells are set ("large
    /// palette"); arbitrary RGB colours of the cells are then taken from the entries next to index 16, 256, 512 and the end
    #[serde(default)]
    pal: u16,
    /// storage shape of the saved buffer (icyv::shape::perturb code, 0 = as built)
    #[serde(default)]
    shape: u8,
    /// edited low palette slots: (slot 0..=15, r, g, b) applied to the DOS palette before anything else; Col::D(i) in a
    /// cell then means "palette slot i", whatever colour it holds
    #[serde(default)]
    slots: Vec<(u8, u8, u8, u8)>,
    /// picture starts with the CP437 characters EF BB BF on default colours followed by 0xB0 (so the file is not valid
    /// UTF-8); high characters of the picture are kept (box / shade art)
    #[serde(default)]
    bom_hi: bool,
}

// ------------------------------------------------------------------------------------------------ normal form (the grid actually saved)

#[derive(Clone, Debug)]
struct Norm {
    opts: Opts,
    w: usize,
    grid: Vec<Vec<Cell>>,
    pal: u16,
    shape: u8,
    /// RGB held by the 16 low palette slots
    slots: Slots,
}

type Slots = [(u8, u8, u8); 16];

fn dos_rgb(i: u8) -> (u8, u8, u8) {
    DOS_DEFAULT_PALETTE[i as usize & 15].get_rgb()
}
fn dos_slots() -> Slots {
    let mut s = [(0, 0, 0); 16];
    for (i, e) in s.iter_mut().enumerate() {
        *e = dos_rgb(i as u8);
    }
    s
}
fn col_rgb(c: Col, slots: &Slots) -> (u8, u8, u8) {
    match c {
        Col::D(i) => slots[i as usize & 15],
        Col::X(i) => XTERM_256_PALETTE[i as usize].1.get_rgb(),
        Col::R(r, g, b) => (r, g, b),
        Col::P(k) => pre_rgb(k),
    }
}
/// colours that are the same palette entry after `Palette::insert_color` get one spelling
fn canon(c: Col, pal: u16, slots: &Slots) -> Col {
    match c {
        Col::D(i) => Col::D(i & 15),
        Col::P(k) if pal > 0 => Col::P(k % pal),
        Col::P(k) => {
            let (r, g, b) = pre_rgb(k % PAL_MAX);
            Col::R(r, g, b)
        }
        Col::R(r, g, b) if pal > 0 && !slots.contains(&(r, g, b)) => {
            // with a large palette the arbitrary colours are its entries around the interesting indices
            let s = special_entries(pal);
            Col::P(s[(r as usize + 3 * g as usize + 7 * b as usize) % s.len()])
        }
        other => {
            // (insert_color returns the first palette entry with that RGB)
            let rgb = col_rgb(other, slots);
            for i in 0..16u8 {
                if slots[i as usize] == rgb {
                    return Col::D(i);
                }
            }
            Col::R(rgb.0, rgb.1, rgb.2)
        }
    }
}

const CTRL8: [u8; 8] = [0x1B, 0x07, 0x08, 0x09, 0x0C, 0x7F, 0x0D, 0x0A];

fn encodable(ch: u8, ctrl: u8) -> bool {
    match ctrl {
        0 => !matches!(ch, 0x1B | 0x07 | 0x0C | 0x7F | 0x0D | 0x0A), // BS and TAB are printed by the file loader
        1 => true,
        _ => !CTRL8.contains(&ch),
    }
}

/// make a cell legal for the ice mode / control-char handling (construction instead of discarding)
fn legal_cell(c: Cell, o: &Opts, mask: u8, pal: u16, slots: &Slots) -> Cell {
    let Cell(mut ch, fg, bg, fl) = c;
    let mut fl = fl & mask;
    let fg = canon(fg, pal, slots);
    let mut bg = canon(bg, pal, slots);
    match o.ice {
        1 => {
            // blink mode: no high-intensity background entries
            if let Col::D(i) = bg {
                if i > 7 {
                    bg = Col::D(i - 8);
                }
            }
        }
        2 => fl &= !F_BLINK, // ice mode: no blinking cells
        _ => {}
    }
    if !encodable(ch, o.ctrl) {
        ch = b'a' + (ch & 15);
    }
    Cell(ch, fg, bg, fl)
}

fn normalize(c: &Case) -> Norm {
    let w = if c.opts.sauce { (c.w as usize).clamp(1, 132) } else { 80 };
    let h = c.rows.len().clamp(1, 60);
    let pal = if c.pal == 0 { 0 } else { c.pal.clamp(2, PAL_MAX) };
    let mut slots = dos_slots();
    for (k, r, g, b) in &c.slots {
        // (blue 0x11 is reserved for the large-palette colours)
        slots[*k as usize & 15] = (*r, *g, if *b == 0x11 { 0x12 } else { *b });
    }
    let bom_any = c.bom || c.bom_hi;
    let mut grid = Vec::with_capacity(h);
    for y in 0..h {
        let mut line = Vec::with_capacity(w);
        if let Some(row) = c.rows.get(y) {
            'runs: for Run(n, cell) in &row.runs {
                for _ in 0..(*n).max(1) {
                    if line.len() >= w {
                        break 'runs;
                    }
                    line.push(*cell);
                }
            }
            while line.len() < w {
                line.push(row.fill);
            }
        } else {
            line.resize(w, BLANK);
        }
        for cell in line.iter_mut() {
            *cell = legal_cell(*cell, &c.opts, c.mask, pal, &slots);
            if c.bom && !c.bom_hi && cell.0 >= 0x80 {
                cell.0 = b'a' + (cell.0 & 15);
            }
        }
        grid.push(line);
    }
    if bom_any && w >= 3 {
        for (i, b) in [0xEFu8, 0xBB, 0xBF].iter().enumerate() {
            grid[0][i] = Cell(*b, Col::D(7), Col::D(0), 0);
        }
        if c.bom_hi && w >= 4 {
            grid[0][3] = Cell(0xB0, Col::D(7), Col::D(0), 0); // a lone continuation byte: the file is not UTF-8
        }
    }
    Norm { opts: c.opts, w, grid, pal, shape: c.shape % icyv::shape::CODES, slots }
}

/// re-establish legality after an option of a normal form was changed
fn relegalize(n: &mut Norm) {
    let o = n.opts;
    let pal = n.pal;
    let slots = n.slots;
    for row in n.grid.iter_mut() {
        for c in row.iter_mut() {
            *c = legal_cell(*c, &o, 0xFF, pal, &slots);
        }
    }
}

// ------------------------------------------------------------------------------------------------ engine round trip

fn pal_index(buf: &mut Buffer, cache: &mut std::collections::HashMap<Col, u32>, c: Col, slots: &Slots) -> u32 {
    match c {
        Col::D(i) => i as u32,
        Col::P(k) => 16 + k as u32,
        other => *cache.entry(other).or_insert_with(|| {
            let (r, g, b) = col_rgb(other, slots);
            buf.palette.insert_color(Color::new(r, g, b))
        }),
    }
}

fn build(n: &Norm) -> Buffer {
    let h = n.grid.len();
    let mut buf = Buffer::new((n.w as i32, h as i32));
    buf.ice_mode = match n.opts.ice {
        0 => IceMode::Unlimited,
        1 => IceMode::Blink,
        _ => IceMode::Ice,
    };
    for (i, (r, g, b)) in n.slots.iter().enumerate() {
        if (*r, *g, *b) != dos_rgb(i as u8) {
            buf.palette.set_color(i as u32, Color::new(*r, *g, *b)); // the user edited this palette entry
        }
    }
    for k in 0..n.pal {
        let (r, g, b) = pre_rgb(k);
        let idx = buf.palette.insert_color(Color::new(r, g, b));
        assert_eq!(idx, 16 + k as u32, "large palette entry must be appended");
    }
    let mut cache = std::collections::HashMap::new();
    for (y, row) in n.grid.iter().enumerate() {
        for (x, Cell(ch, fg, bg, fl)) in row.iter().enumerate() {
            let f = pal_index(&mut buf, &mut cache, *fg, &n.slots);
            let b = pal_index(&mut buf, &mut cache, *bg, &n.slots);
            let mut a = TextAttribute::new(f, b);
            a.set_is_bold(fl & F_BOLD != 0);
            a.set_is_blinking(fl & F_BLINK != 0);
            a.set_is_underlined(fl & F_UNDERLINE != 0);
            a.set_is_crossed_out(fl & F_CROSSED != 0);
            a.set_is_italic(fl & F_ITALIC != 0);
            a.set_is_faint(fl & F_FAINT != 0);
            a.set_is_double_underlined(fl & F_DUNDER != 0);
            a.set_is_concealed(fl & F_CONCEAL != 0);
            buf.layers[0].set_char((x as i32, y as i32), AttributedChar::new(*ch as char, a));
        }
    }
    // same picture, stored differently (extra lines, longer rows, larger layer, other terminal size ...)
    icyv::shape::perturb(&mut buf, n.shape);
    buf
}

/// what a cell shows: glyph, displayed foreground, background, blink
#[derive(Clone, Copy, Debug, PartialEq, Eq)]
struct Shown {
    ch: u32,
    fg: (u8, u8, u8),
    bg: (u8, u8, u8),
    blink: bool,
}

const NOTHING: Shown = Shown { ch: 32, fg: (0xAA, 0xAA, 0xAA), bg: (0, 0, 0), blink: false };

fn is_blank(ch: u32) -> bool {
    ch == 0 || ch == 32 || ch == 255
}

/// what the saved model cell shows: the RGB values held by its palette entries (bold on slot 0..=7 shows slot+8, as
/// Buffer::render_to_rgba does)
fn shown_model(c: &Cell, slots: &Slots) -> Shown {
    let fg = match c.1 {
        Col::D(i) if i < 8 && c.3 & F_BOLD != 0 => slots[i as usize + 8],
        other => col_rgb(other, slots),
    };
    Shown { ch: c.0 as u32, fg, bg: col_rgb(c.2, slots), blink: c.3 & F_BLINK != 0 }
}

fn shown_loaded(buf: &Buffer, x: i32, y: i32) -> Shown {
    if x >= buf.get_width() || y >= buf.get_height() {
        return NOTHING;
    }
    let c = buf.get_char((x, y));
    if !c.is_visible() {
        return NOTHING;
    }
    let a = c.attribute;
    let mut f = a.get_foreground();
    if a.is_bold() && f < 8 {
        f += 8;
    }
    Shown { ch: c.ch as u32, fg: buf.palette.get_rgb(f), bg: buf.palette.get_rgb(a.get_background()), blink: a.is_blinking() }
}

/// clauses in the order in which a case with several violated clauses is keyed
const CLAUSES: [&str; 5] = ["size", "char", "blink", "bg", "fg"];

#[derive(Clone, Debug)]
struct Mis {
    clause: &'static str,
    x: usize,
    y: usize,
    msg: String,
}

enum Outcome {
    Same,
    /// first mismatch per violated clause, in CLAUSES order; the saved bytes
    /// (.., the saved file belongs to the class of the open finding c04.utf8_bom_prefix)
    Differs(Vec<Mis>, Vec<u8>, bool),
    SaveError(String),
    LoadError(String),
    Panic(String, String),
}

/// compare one cell; returns the violated clauses as (clause index, message)
fn cell_mismatches(n: &Norm, loaded: &Buffer, x: usize, y: usize, out: &mut Vec<(usize, String)>) {
    let want = shown_model(&n.grid[y][x], &n.slots);
    let got = shown_loaded(loaded, x as i32, y as i32);
    let wb = is_blank(want.ch);
    if (wb != is_blank(got.ch)) || (!wb && want.ch != got.ch) {
        out.push((1, format!("({x},{y}) char: saved {:#04x}, loaded {:#04x}", want.ch, got.ch)));
    }
    if want.blink != got.blink {
        out.push((2, format!("({x},{y}) blink: saved {}, loaded {} (char {:#04x})", want.blink, got.blink, want.ch)));
    }
    // without lossles_output the colour optimiser may change the background of the solid block (C12 owns that)
    let bg_free = !n.opts.lossless && want.ch == 0xDB;
    if !bg_free && want.bg != got.bg {
        out.push((3, format!("({x},{y}) bg: saved {:?}, loaded {:?} (char {:#04x})", want.bg, got.bg, want.ch)));
    }
    if !wb && want.fg != got.fg {
        out.push((4, format!("({x},{y}) fg: saved {:?}, loaded {:?} (char {:#04x})", want.fg, got.fg, want.ch)));
    }
}

/// `probe`: only look for this clause in the cells up to (x, y) in reading order — used by the key attribution
fn roundtrip(n: &Norm, probe: Option<(&'static str, usize, usize)>) -> Outcome {
    match icyv::panics::guarded(|| roundtrip_inner(n, probe)) {
        Ok(o) => o,
        Err((sig, msg)) => Outcome::Panic(sig, msg),
    }
}

/// The class of the open finding c04.utf8_bom_prefix: the picture data of the file (without SAUCE) starts with the bytes
/// EF BB BF and is valid UTF-8 as a whole, so the loader takes it for UTF-8 text.
fn utf8_bom_class(n: &Norm, bytes: &[u8]) -> bool {
    let data = if n.opts.sauce && bytes.len() >= 129 { &bytes[..bytes.len() - 129] } else { bytes };
    data.starts_with(&[0xEF, 0xBB, 0xBF]) && std::str::from_utf8(data).is_ok()
}

fn roundtrip_inner(n: &Norm, probe: Option<(&'static str, usize, usize)>) -> Outcome {
    let orig = build(n);
    let bytes = match orig.to_bytes("ans", &n.opts.save_options()) {
        Ok(b) => b,
        Err(e) => return Outcome::SaveError(e.to_string()),
    };
    let loaded = match Buffer::from_bytes(Path::new("x.ans"), true, &bytes) {
        Ok(b) => b,
        Err(e) => return Outcome::LoadError(e.to_string()),
    };
    let h = n.grid.len();
    let bom_class = utf8_bom_class(n, &bytes);
    let mut tmp = Vec::new();
    if let Some((clause, x, y)) = probe {
        if clause != "size" {
            // first cell in reading order, up to and including (x,y), that violates the clause
            for cy in 0..=y.min(h - 1) {
                let end = if cy == y { (x + 1).min(n.w) } else { n.w };
                for cx in 0..end {
                    tmp.clear();
                    cell_mismatches(n, &loaded, cx, cy, &mut tmp);
                    if let Some((k, msg)) = tmp.drain(..).find(|(k, _)| CLAUSES[*k] == clause) {
                        return Outcome::Differs(vec![Mis { clause: CLAUSES[k], x: cx, y: cy, msg }], Vec::new(), bom_class);
                    }
                }
            }
            return Outcome::Same;
        }
    }
    let mut first: [Option<Mis>; 5] = [None, None, None, None, None];
    if loaded.get_width() != n.w as i32 {
        first[0] = Some(Mis { clause: "size", x: 0, y: 0, msg: format!("loaded width {} != saved width {}", loaded.get_width(), n.w) });
    }
    // nothing invented below the saved rectangle
    'extra: for y in h as i32..loaded.get_height() {
        for x in 0..loaded.get_width() {
            let s = shown_loaded(&loaded, x, y);
            if !is_blank(s.ch) || s.bg != (0, 0, 0) || s.blink {
                if first[0].is_none() {
                    first[0] = Some(Mis { clause: "size", x: x as usize, y: y as usize, msg: format!("loaded buffer has {} rows, saved {h}; extra cell ({x},{y}) shows {s:?}", loaded.get_height()) });
                }
                break 'extra;
            }
        }
    }
    if probe.is_none() {
        for y in 0..h {
            for x in 0..n.w {
                tmp.clear();
                cell_mismatches(n, &loaded, x, y, &mut tmp);
                for (k, msg) in tmp.drain(..) {
                    if first[k].is_none() {
                        first[k] = Some(Mis { clause: CLAUSES[k], x, y, msg });
                    }
                }
            }
        }
    }
    let v: Vec<Mis> = first.into_iter().flatten().collect();
    if v.is_empty() {
        Outcome::Same
    } else {
        Outcome::Differs(v, bytes, bom_class)
    }
}

// ------------------------------------------------------------------------------------------------ key attribution

/// what "the same failure" means while a failing case is simplified: the clause is violated at this cell or at an
/// earlier one in reading order (the probe then moves there)
#[derive(Clone, Copy)]
struct Probe {
    clause: &'static str,
    x: usize,
    y: usize,
}

/// is the clause still violated at the probe cell or before it (reading order)? returns the message and the cell
fn still(n: &Norm, p: &Probe) -> Option<(String, usize, usize, bool)> {
    match p.clause {
        "save_error" => match roundtrip(n, None) {
            Outcome::SaveError(e) => Some((e, 0, 0, false)),
            _ => None,
        },
        "load_error" => match roundtrip(n, None) {
            Outcome::LoadError(e) => Some((e, 0, 0, false)),
            _ => None,
        },
        _ => match roundtrip(n, Some((p.clause, p.x, p.y))) {
            Outcome::Differs(v, _, bc) => v.into_iter().find(|m| m.clause == p.clause).map(|m| (m.msg, m.x, m.y, bc)),
            _ => None,
        },
    }
}

type CellMap = fn(Cell, &Opts) -> Cell;

fn clear_flag<const F: u8>(c: Cell, _o: &Opts) -> Cell {
    Cell(c.0, c.1, c.2, c.3 & !F)
}
/// background the writer cannot express by SGR 40..47 (+blink in ice mode): inserted colours, entries 8..15 outside ice mode
fn is_ext_bg(c: Col, o: &Opts) -> bool {
    match c {
        Col::D(i) => i > 7 && o.ice != 2,
        _ => true,
    }
}

/// Feature removals, tried in this order. A feature is named in the key when its removal makes the probe pass.
const FEATURES: [(&str, CellMap); 19] = [
    ("conceal", clear_flag::<F_CONCEAL>),
    ("dunderline", clear_flag::<F_DUNDER>),
    ("faint", clear_flag::<F_FAINT>),
    ("italic", clear_flag::<F_ITALIC>),
    ("crossedout", clear_flag::<F_CROSSED>),
    ("underline", clear_flag::<F_UNDERLINE>),
    ("blink", clear_flag::<F_BLINK>),
    ("bold", clear_flag::<F_BOLD>),
    ("ext_fg", |c, _| if matches!(c.1, Col::D(_)) { c } else { Cell(c.0, Col::D(7), c.2, c.3) }),
    ("high_fg", |c, _| if let Col::D(i) = c.1 { Cell(c.0, Col::D(i & 7), c.2, c.3) } else { c }),
    ("fg_color", |c, _| if matches!(c.1, Col::D(i) if i < 7) { Cell(c.0, Col::D(7), c.2, c.3) } else { c }),
    ("ext_bg", |c, o| if is_ext_bg(c.2, o) { Cell(c.0, c.1, Col::D(0), c.3) } else { c }),
    ("high_bg", |c, o| if let (Col::D(i), 2) = (c.2, o.ice) { Cell(c.0, c.1, Col::D(i & 7), c.3) } else { c }),
    ("bg_color", |c, _| if matches!(c.2, Col::D(i) if i > 0 && i < 8) { Cell(c.0, c.1, Col::D(0), c.3) } else { c }),
    ("ctrl_char", |c, _| if c.0 < 0x20 && c.0 != 0 || c.0 == 0x7F { Cell(b'A', c.1, c.2, c.3) } else { c }),
    ("nul_or_ff_blank", |c, _| if c.0 == 0 || c.0 == 0xFF { Cell(b' ', c.1, c.2, c.3) } else { c }),
    ("solid_block", |c, _| if c.0 == 0xDB { Cell(b'A', c.1, c.2, c.3) } else { c }),
    ("high_char", |c, _| if c.0 >= 0x80 && c.0 != 0xFF && c.0 != 0xDB { Cell(b'A', c.1, c.2, c.3) } else { c }),
    ("blank_cells", |c, _| if c.0 == b' ' { Cell(b'A', c.1, c.2, c.3) } else { c }),
];

const FILL_A: Cell = Cell(b'A', Col::D(7), Col::D(0), 0);

fn has_bom(n: &Norm) -> bool {
    n.w >= 3 && n.grid[0][0].0 == 0xEF && n.grid[0][1].0 == 0xBB && n.grid[0][2].0 == 0xBF
}

/// one simplification step of the attribution
#[derive(Clone, Copy, Debug)]
enum Step {
    /// storage shape 0 (buffer as built)
    Shape,
    /// no large palette (its colours become ordinary RGB colours inserted on first use)
    Palette,
    /// low palette slots hold the DOS colours again (all at once, else one by one)
    Slots,
    /// smallest window of rows around the failing row
    Window,
    /// two rows joined into one (right half of the upper, left half of the lower)
    Join,
    /// every run of equal cells replaced by 'A' on default colours, else by default blanks
    Runs,
    /// width 80 instead of the SAUCE width
    Width,
    /// first cell of the UTF-8 byte order mark replaced
    Bom,
    /// rows that start with a neutral cell and end in a blank are rotated left by one cell (moves runs off the right margin)
    Unmargin,
    /// last cell of every row gets a non-blank glyph (same colours)
    Trailing,
    Feature(usize),
    /// every option at its base value at once
    AllOpts,
    Opt(usize),
}

struct Attr {
    n: Norm,
    p: Probe,
    msg: String,
    positional: bool,
    protect_bom: bool,
    /// the failing file starts with EF BB BF but is NOT valid UTF-8 (not the class of the open finding): simplifications
    /// that would turn it into that class are refused, so that the key keeps saying what is new
    guard_bom: bool,
}

impl Attr {
    fn keep_if_fails(&mut self, cand: Norm, pr: Probe) -> bool {
        if let Some((m, x, y, bom_class)) = still(&cand, &pr) {
            if self.guard_bom && bom_class {
                return false;
            }
            self.n = cand;
            self.p = Probe { x, y, ..pr };
            self.msg = m;
            true
        } else {
            false
        }
    }

    /// A colour/blink mismatch caused by displaced output becomes a character mismatch once every coloured or blinking
    /// blank carries a glyph: such cases are keyed by the character clause.
    fn try_upgrade(&mut self) -> bool {
        if !matches!(self.p.clause, "blink" | "bg") {
            return false;
        }
        for skip_failing_row in [false, true] {
            let mut c = self.n.clone();
            for (y, row) in c.grid.iter_mut().enumerate() {
                if skip_failing_row && y == self.p.y {
                    continue;
                }
                for cell in row.iter_mut() {
                    if is_blank(cell.0 as u32) && (cell.2 != Col::D(0) || cell.3 & F_BLINK != 0) {
                        cell.0 = b'A';
                    }
                }
            }
            if c.grid == self.n.grid {
                continue;
            }
            if let Outcome::Differs(v, _, bc) = roundtrip(&c, None) {
                if self.guard_bom && bc {
                    continue;
                }
                if let Some(m) = v.iter().find(|m| m.clause == "char") {
                    self.n = c;
                    self.p = Probe { clause: "char", x: m.x, y: m.y };
                    self.msg = m.msg.clone();
                    return true;
                }
            }
        }
        false
    }

    /// ddmin-style: neutralise as many of `runs` as possible ('A' on default colours; single runs also as default blanks)
    fn neutralise(&mut self, runs: &[(usize, usize, usize)]) {
        if runs.is_empty() {
            return;
        }
        let mut c = self.n.clone();
        for (y, x, e) in runs {
            for k in *x..*e {
                c.grid[*y][k] = FILL_A;
            }
        }
        let pr = self.p;
        if self.keep_if_fails(c, pr) {
            return;
        }
        if runs.len() == 1 {
            let (y, x, e) = runs[0];
            if self.n.grid[y][x] != BLANK {
                let mut c = self.n.clone();
                for k in x..e {
                    c.grid[y][k] = BLANK;
                }
                self.keep_if_fails(c, pr);
            }
            return;
        }
        let (l, r) = runs.split_at(runs.len() / 2);
        self.neutralise(l);
        self.neutralise(r);
    }

    /// returns (something was simplified, the step could not be applied although it would change the case)
    fn apply(&mut self, s: Step) -> (bool, bool) {
        let (n, p) = (self.n.clone(), self.p);
        match s {
            Step::Shape => {
                if n.shape == 0 {
                    return (false, false);
                }
                let mut c = n.clone();
                c.shape = 0;
                if self.keep_if_fails(c, p) {
                    return (true, false);
                }
                // the combined shape: is one of its parts enough?
                if shape_name(n.shape) == "combined" {
                    for part in 1..icyv::shape::CODES {
                        if part != n.shape {
                            let mut c = n.clone();
                            c.shape = part;
                            if self.keep_if_fails(c, p) {
                                return (true, true);
                            }
                        }
                    }
                }
                (false, true)
            }
            Step::Palette => {
                if n.pal == 0 {
                    return (false, false);
                }
                let mut c = n.clone();
                c.pal = 0;
                relegalize(&mut c);
                let kept = self.keep_if_fails(c, p);
                (kept, !kept)
            }
            Step::Slots => {
                let dos = dos_slots();
                if n.slots == dos {
                    return (false, false);
                }
                let mut c = n.clone();
                c.slots = dos;
                relegalize(&mut c);
                if self.keep_if_fails(c, p) {
                    return (true, false);
                }
                let mut any = false;
                for i in 0..16 {
                    if self.n.slots[i] != dos[i] {
                        let mut c = self.n.clone();
                        c.slots[i] = dos[i];
                        relegalize(&mut c);
                        let pr = self.p;
                        any |= self.keep_if_fails(c, pr);
                    }
                }
                (any, true)
            }
            Step::Window => {
                let h = n.grid.len();
                if !self.positional || h < 2 {
                    return (false, false);
                }
                let y = p.y.min(h - 1);
                let lo = y.saturating_sub(1);
                let hi = (y + 1).min(h - 1);
                for (a, b) in [(y, y), (y, hi), (lo, y), (lo, hi), (0, hi), (lo, h - 1)] {
                    if b - a + 1 >= h {
                        continue;
                    }
                    let mut c = n.clone();
                    c.grid = n.grid[a..=b].to_vec();
                    if self.keep_if_fails(c, Probe { y: p.y - a, ..p }) {
                        return (true, false);
                    }
                }
                (false, true)
            }
            Step::Join => {
                if !self.positional || n.grid.len() != 2 || n.w < 2 {
                    return (false, false);
                }
                let k = n.w / 2;
                let nx = if p.y == 0 && p.x >= n.w - k {
                    p.x - (n.w - k)
                } else if p.y == 1 && p.x < n.w - k {
                    p.x + k
                } else {
                    return (false, false);
                };
                let mut c = n.clone();
                let mut row: Vec<Cell> = n.grid[0][n.w - k..].to_vec();
                row.extend_from_slice(&n.grid[1][..n.w - k]);
                c.grid = vec![row];
                (self.keep_if_fails(c, Probe { x: nx, y: 0, ..p }), false)
            }
            Step::Runs => {
                if !self.positional {
                    return (false, false);
                }
                // all maximal runs of equal cells that are not neutral yet
                let mut runs: Vec<(usize, usize, usize)> = Vec::new();
                for y in 0..n.grid.len() {
                    let mut x = 0;
                    while x < n.w {
                        let cell = n.grid[y][x];
                        let mut e = x + 1;
                        while e < n.w && n.grid[y][e] == cell {
                            e += 1;
                        }
                        let is_bom = has_bom(&n) && y == 0 && x < 3;
                        if cell != FILL_A && !is_bom {
                            runs.push((y, x, e));
                        }
                        x = e;
                    }
                }
                let before = self.n.grid.clone();
                self.neutralise(&runs);
                (self.n.grid != before, false)
            }
            Step::Width => {
                if n.w == 80 {
                    return (false, false);
                }
                let w = n.w;
                if !self.positional {
                    return (false, true);
                }
                // cut columns out of (wide) or stretch a column of (narrow) every row, keeping both margins
                let d = if w > 80 { w - 80 } else { 80 - w };
                let cands: Vec<usize> = if w > 80 { vec![(w - d) / 2, 1, w - d - 1, 0] } else { vec![w / 2, w - 1, 0, 1.min(w - 1)] };
                for at in cands {
                    let nx = if w > 80 {
                        if p.x < at {
                            p.x
                        } else if p.x >= at + d {
                            p.x - d
                        } else {
                            continue;
                        }
                    } else if p.x <= at {
                        p.x
                    } else {
                        p.x + d
                    };
                    let mut c = n.clone();
                    c.w = 80;
                    for row in c.grid.iter_mut() {
                        if w > 80 {
                            row.drain(at..at + d);
                        } else {
                            let cell = row[at];
                            for _ in 0..d {
                                row.insert(at, cell);
                            }
                        }
                    }
                    if self.keep_if_fails(c, Probe { x: nx, ..p }) {
                        return (true, false);
                    }
                }
                {
                    // re-flow the cell stream at width 80 (keeps everything that does not depend on the margins)
                    let mut stream: Vec<Cell> = n.grid.iter().flatten().copied().collect();
                    let idx = p.y * w + p.x;
                    while stream.len() % 80 != 0 {
                        stream.push(FILL_A);
                    }
                    if stream.len() / 80 <= 60 {
                        let mut c = n.clone();
                        c.w = 80;
                        c.grid = stream.chunks(80).map(|r| r.to_vec()).collect();
                        if self.keep_if_fails(c, Probe { x: idx % 80, y: idx / 80, ..p }) {
                            return (true, false);
                        }
                    }
                }
                (false, true)
            }
            Step::Bom => {
                if !has_bom(&n) {
                    self.protect_bom = false;
                    return (false, false);
                }
                let mut c = n.clone();
                c.grid[0][0].0 = b'A';
                let kept = self.keep_if_fails(c, p);
                self.protect_bom = !kept;
                (kept, !kept)
            }
            Step::Unmargin => {
                if !self.positional || n.w < 2 {
                    return (false, false);
                }
                let mut c = n.clone();
                let mut pr = p;
                let mut changed = false;
                for (y, row) in c.grid.iter_mut().enumerate() {
                    if row[0] == FILL_A && is_blank(row[n.w - 1].0 as u32) && !(y == p.y && p.x == 0) {
                        row.remove(0);
                        row.push(FILL_A);
                        if y == p.y {
                            pr.x -= 1;
                        }
                        changed = true;
                    }
                }
                if !changed {
                    return (false, false);
                }
                (self.keep_if_fails(c, pr), false)
            }
            Step::Trailing => {
                let mut c = n.clone();
                let mut changed = false;
                for row in c.grid.iter_mut() {
                    if let Some(l) = row.last_mut() {
                        if is_blank(l.0 as u32) {
                            l.0 = b'A';
                            changed = true;
                        }
                    }
                }
                if !changed {
                    return (false, false);
                }
                let kept = self.keep_if_fails(c, p);
                (kept, !kept)
            }
            Step::Feature(i) => {
                let f = FEATURES[i].1;
                let mut c = n.clone();
                let mut changed = false;
                let o = c.opts;
                for (y, row) in c.grid.iter_mut().enumerate() {
                    for (x, cell) in row.iter_mut().enumerate() {
                        if self.protect_bom && y == 0 && x < 3 {
                            continue;
                        }
                        let m = f(*cell, &o);
                        if m != *cell {
                            *cell = m;
                            changed = true;
                        }
                    }
                }
                if !changed {
                    return (false, false);
                }
                relegalize(&mut c);
                let kept = self.keep_if_fails(c, p);
                (kept, !kept)
            }
            Step::AllOpts => {
                if n.w != 80 || n.opts == Opts::BASE {
                    return (false, false);
                }
                let mut c = n.clone();
                c.opts = Opts::BASE;
                if c.grid.iter().flatten().any(|cell| !encodable(cell.0, 0)) {
                    c.opts.ctrl = n.opts.ctrl;
                }
                relegalize(&mut c);
                if c.grid != n.grid {
                    return (false, false);
                }
                (self.keep_if_fails(c, p), false)
            }
            Step::Opt(i) => {
                let v = n.opts.get(i);
                let b = Opts::BASE.get(i);
                if v == b {
                    return (false, false);
                }
                if i == 1 && n.w != 80 {
                    return (false, false); // forced by the width; named through narrow / wide
                }
                let mut c = n.clone();
                c.opts.set(i, b);
                if i == 9 && c.grid.iter().flatten().any(|cell| !encodable(cell.0, b)) {
                    return (false, true); // the needed characters exist only under this handling
                }
                relegalize(&mut c);
                if c.grid != n.grid {
                    return (false, true); // the simpler mode cannot hold these cells
                }
                let kept = self.keep_if_fails(c, p);
                (kept, !kept)
            }
        }
    }
}

/// Greedy attribution to a fixpoint. The failing normal form is simplified step by step (clause upgrade once, then row
/// window, joining rows, neutralising runs, width 80, feature removals, options towards Opts::BASE, repeated until no
/// step applies); a step is kept when the same clause is still violated at the same cell. The key names the clause and
/// the options / features whose removal from the final reduced case makes it pass.
fn attribute(n0: &Norm, first: &Mis, bom_class: bool) -> (String, String) {
    let mut a = Attr {
        n: n0.clone(),
        p: Probe { clause: first.clause, x: first.x, y: first.y },
        msg: first.msg.clone(),
        positional: matches!(first.clause, "char" | "blink" | "bg" | "fg"),
        protect_bom: false,
        guard_bom: has_bom(n0) && !bom_class,
    };

    a.try_upgrade();

    let mut steps: Vec<Step> = vec![Step::Shape, Step::Palette, Step::Slots, Step::Window, Step::Join, Step::Runs, Step::Width, Step::Window, Step::Join, Step::Runs, Step::Bom, Step::Unmargin, Step::Trailing];
    steps.extend((0..FEATURES.len()).map(Step::Feature));
    steps.push(Step::AllOpts);
    steps.extend((0..11).map(Step::Opt));

    // first pass: every step; further passes: only the steps that were blocked (their removal made the case pass) are
    // tried again on the further reduced case, until none of them can be dropped
    let mut needed: Vec<Step> = Vec::new();
    for round in 0..2 {
        needed.clear();
        for s in &steps {
            let (_, blocked) = a.apply(*s);
            if blocked {
                needed.push(*s);
            }
        }
        // the reduction may have moved the probe to the origin of a displacement: try the clause upgrade once more
        if round == 1 || !a.try_upgrade() {
            break;
        }
    }
    for _pass in 0..4 {
        let mut changed = false;
        let mut still_needed = Vec::new();
        // (feature steps are all retried: an option change can make another feature applicable)
        let retry: Vec<Step> = steps.iter().filter(|s| matches!(s, Step::Feature(_)) || needed.iter().any(|m| format!("{m:?}") == format!("{s:?}"))).copied().collect();
        for s in &retry {
            let (simplified, blocked) = a.apply(*s);
            changed |= simplified;
            if blocked && !still_needed.iter().any(|m: &Step| format!("{m:?}") == format!("{s:?}")) {
                still_needed.push(*s);
            }
        }
        needed = still_needed;
        if !changed {
            break;
        }
    }

    // features in order of specificity (flags, colours, glyph classes, then structure), options alphabetically
    let mut feats: Vec<String> = Vec::new();
    let mut opts: Vec<String> = Vec::new();
    if needed.iter().any(|s| matches!(s, Step::Shape)) {
        feats.push(format!("shape_{}", shape_name(a.n.shape)));
    }
    if needed.iter().any(|s| matches!(s, Step::Palette)) {
        feats.push("large_palette".into());
    }
    if needed.iter().any(|s| matches!(s, Step::Slots)) {
        let dos = dos_slots();
        let ed = |r: std::ops::Range<usize>| r.into_iter().any(|i| a.n.slots[i] != dos[i]);
        feats.push(if ed(0..1) && !ed(1..16) { "edited_slot0".into() } else { "edited_palette_slot".into() });
    }
    for s in &needed {
        if let Step::Feature(i) = s {
            feats.push(FEATURES[*i].0.into());
        }
    }
    for s in &needed {
        match s {
            Step::Bom => feats.push(if a.guard_bom { "bom_start_non_utf8_rest".into() } else { "utf8_bom_prefix".into() }),
            Step::Trailing => feats.push("trailing_blank".into()),
            Step::Opt(i) => opts.push(Opts::name(*i, a.n.opts.get(*i))),
            _ => {}
        }
    }
    if a.n.grid.len() > 1 {
        feats.push("multirow".into());
    }
    if needed.iter().any(|s| matches!(s, Step::Width)) {
        feats.push(if a.n.w < 80 { "narrow".into() } else { "wide".into() });
    }
    // a failure in Unlimited mode: does the same grid pass in Blink mode?
    if a.n.opts.ice == 0 {
        let mut c = a.n.clone();
        c.opts.ice = 1;
        relegalize(&mut c);
        if c.grid == a.n.grid && still(&c, &a.p).is_none() {
            opts.push(Opts::name(10, 0));
        }
    }
    opts.sort();
    let key = format!(
        "{}|in={}|opts={}",
        a.p.clause,
        if feats.is_empty() { "-".to_string() } else { feats.join("+") },
        if opts.is_empty() { "-".to_string() } else { opts.join("+") }
    );
    let dos = dos_slots();
    let edits: Vec<String> = (0..16).filter(|i| a.n.slots[*i] != dos[*i]).map(|i| format!("{i}:{:?}", a.n.slots[i])).collect();
    let reduced = format!(
        "reduced witness: opts={} w={} shape={} palette+{} edited_slots=[{}] rows={} -> {}",
        a.n.opts.tag(),
        a.n.w,
        shape_name(a.n.shape),
        a.n.pal,
        edits.join(" "),
        compact_rows(&a.n.grid),
        a.msg
    );
    (key, reduced)
}

/// names of the storage shapes, as icyv::shape::perturb reports them
fn shape_name(code: u8) -> &'static str {
    static NAMES: std::sync::OnceLock<Vec<&'static str>> = std::sync::OnceLock::new();
    NAMES.get_or_init(|| (0..icyv::shape::CODES).map(|c| icyv::shape::perturb(&mut Buffer::new((2, 2)), c)).collect())[(code % icyv::shape::CODES) as usize]
}

fn compact_rows(g: &[Vec<Cell>]) -> String {
    let mut s = String::from("[");
    for row in g {
        s.push('[');
        let mut i = 0;
        while i < row.len() {
            let mut e = i + 1;
            while e < row.len() && row[e] == row[i] {
                e += 1;
            }
            let c = row[i];
            s.push_str(&format!("{}x({:#04x},{:?},{:?},{:#04x}) ", e - i, c.0, c.1, c.2, c.3));
            i = e;
        }
        s.push(']');
    }
    s.push(']');
    s
}

// ------------------------------------------------------------------------------------------------ the check

fn nontrivial(n: &Norm) -> bool {
    let mut changes = 0;
    let mut prev: Option<(Col, Col, u8)> = None;
    let mut compressible = false;
    for row in &n.grid {
        let mut run = 0usize;
        let mut last: Option<Cell> = None;
        for c in row {
            let a = (c.1, c.2, c.3);
            if let Some(p) = prev {
                if p != a {
                    changes += 1;
                }
            }
            prev = Some(a);
            if last == Some(*c) {
                run += 1;
                if run >= 5 {
                    compressible = true;
                }
            } else {
                run = 1;
                last = Some(*c);
            }
        }
        let tail = row.iter().rev().take_while(|c| is_blank(c.0 as u32) && c.2 == Col::D(0)).count();
        if tail >= 2 {
            compressible = true;
        }
    }
    changes >= 2 && compressible && !n.opts.is_default()
}

fn check(c: &Case) -> Verdict {
    let n = normalize(c);
    match roundtrip(&n, None) {
        Outcome::Same => {
            // one dimension per case (the product would be tens of thousands of classes): BOM-looking start, storage
            // shape, large palette, edited palette slots; the option tag for all other buffers
            let class = if has_bom(&n) {
                "bom_start_ok".to_string()
            } else if c.steered && n.w >= 3 && n.grid[0][0].0 == b'A' && n.grid[0][1].0 == 0xBB && n.grid[0][2].0 == 0xBF {
                "bom_steered_away".to_string()
            } else if n.shape != 0 {
                format!("shape/{}", shape_name(n.shape))
            } else if n.pal != 0 {
                "large_palette".to_string()
            } else if n.slots != dos_slots() {
                "edited_palette_slots".to_string()
            } else if c.steered {
                format!("{}~", n.opts.tag())
            } else {
                n.opts.tag()
            };
            Verdict::pass(nontrivial(&n), class)
        }
        Outcome::Panic(sig, msg) => Verdict::fail(sig, format!("opts={} {msg}", n.opts.tag())),
        Outcome::SaveError(e) => {
            let m = Mis { clause: "save_error", x: 0, y: 0, msg: e };
            let (key, red) = attribute(&n, &m, false);
            Verdict::fail(key, format!("to_bytes(\"ans\") failed: {}; {red}", m.msg))
        }
        Outcome::LoadError(e) => {
            let m = Mis { clause: "load_error", x: 0, y: 0, msg: e };
            let (key, red) = attribute(&n, &m, false);
            Verdict::fail(key, format!("from_bytes(\"x.ans\") failed on the engine's own output: {}; {red}", m.msg))
        }
        Outcome::Differs(v, bytes, bom_class) => {
            // key by the earliest violated cell in reading order (where the damage starts); size first, ties by clause order
            let first = v.iter().find(|m| m.clause == "size").unwrap_or_else(|| v.iter().min_by_key(|m| (m.y, m.x)).unwrap());
            let (key, red) = attribute(&n, first, bom_class);
            let cut = bytes.len().min(200);
            Verdict::fail(
                key,
                format!(
                    "opts={} shape={} palette+{} {}x{}: {} [clauses violated: {}]; file[..{cut}]=\"{}\"; {red}",
                    n.opts.tag(),
                    shape_name(n.shape),
                    n.pal,
                    n.w,
                    n.grid.len(),
                    first.msg,
                    v.iter().map(|m| m.clause).collect::<Vec<_>>().join(","),
                    icyv::util::escape(&bytes[..cut])
                ),
            )
        }
    }
}

// ------------------------------------------------------------------------------------------------ generators

/// Strategy that walks through all 6912 option vectors in order (one per generated case, per shard), so that a shard of
/// 6912 cases covers the option space exactly once. Shrinks component-wise towards Opts::BASE.
#[derive(Debug)]
struct OptSeq {
    next: AtomicU64,
}

struct OptTree {
    cur: Opts,
    idx: usize,
    last: Option<(usize, u8)>,
}

impl ValueTree for OptTree {
    type Value = Opts;
    fn current(&self) -> Opts {
        self.cur
    }
    fn simplify(&mut self) -> bool {
        while self.idx < 11 {
            let i = self.idx;
            self.idx += 1;
            let (v, b) = (self.cur.get(i), Opts::BASE.get(i));
            if v != b {
                self.last = Some((i, v));
                self.cur.set(i, b);
                return true;
            }
        }
        false
    }
    fn complicate(&mut self) -> bool {
        match self.last.take() {
            Some((i, v)) => {
                self.cur.set(i, v);
                true
            }
            None => false,
        }
    }
}

impl Strategy for OptSeq {
    type Tree = OptTree;
    type Value = Opts;
    fn new_tree(&self, _runner: &mut TestRunner) -> NewTree<Self> {
        let i = self.next.fetch_add(1, Ordering::Relaxed) % N_OPTS;
        Ok(OptTree { cur: Opts::from_index(i), idx: 0, last: None })
    }
}

fn comp() -> BoxedStrategy<u8> {
    prop_oneof![2 => Just(0u8), 2 => Just(0x55), 2 => Just(0xAA), 2 => Just(0xFF), 1 => Just(0x5F), 2 => any::<u8>()].boxed()
}
fn rgb() -> BoxedStrategy<Col> {
    (comp(), comp(), comp()).prop_map(|(r, g, b)| Col::R(r, g, b)).boxed()
}
/// entry of the large palette (an ordinary RGB colour in buffers without one), weighted towards the entries whose palette
/// index is next to 16, 256, 512
fn pcol() -> BoxedStrategy<Col> {
    prop_oneof![3 => proptest::sample::select(special_entries(PAL_MAX)).prop_map(Col::P), 1 => (0u16..PAL_MAX).prop_map(Col::P)].boxed()
}
fn fg_col() -> BoxedStrategy<Col> {
    prop_oneof![10 => Just(Col::D(7)), 10 => (0u8..16).prop_map(Col::D), 2 => any::<u8>().prop_map(Col::X), 2 => rgb(), 1 => pcol()].boxed()
}
fn bg_col() -> BoxedStrategy<Col> {
    prop_oneof![12 => Just(Col::D(0)), 8 => (0u8..16).prop_map(Col::D), 2 => any::<u8>().prop_map(Col::X), 2 => rgb(), 1 => pcol()].boxed()
}
fn flags() -> BoxedStrategy<u8> {
    let b = |p: f64| proptest::bool::weighted(p);
    (b(0.3), b(0.3), b(0.25), b(0.25), b(0.25), b(0.25), b(0.25), b(0.25))
        .prop_map(|(a, bl, u, c, i, f, d, k)| {
            (a as u8) * F_BOLD | (bl as u8) * F_BLINK | (u as u8) * F_UNDERLINE | (c as u8) * F_CROSSED | (i as u8) * F_ITALIC | (f as u8) * F_FAINT | (d as u8) * F_DUNDER | (k as u8) * F_CONCEAL
        })
        .boxed()
}
/// which flags may occur in a buffer at all (keeps most buffers free of any single flag)
fn mask() -> BoxedStrategy<u8> {
    let b = |p: f64| proptest::bool::weighted(p);
    (b(0.3), b(0.5), b(0.15), b(0.12), b(0.12), b(0.12), b(0.12), b(0.15))
        .prop_map(|(a, bl, u, c, i, f, d, k)| {
            (a as u8) * F_BOLD | (bl as u8) * F_BLINK | (u as u8) * F_UNDERLINE | (c as u8) * F_CROSSED | (i as u8) * F_ITALIC | (f as u8) * F_FAINT | (d as u8) * F_DUNDER | (k as u8) * F_CONCEAL
        })
        .boxed()
}
fn glyph() -> BoxedStrategy<u8> {
    prop_oneof![
        30 => Just(b' '),
        4 => Just(0u8),
        4 => Just(0xFFu8),
        8 => Just(0xDBu8),
        30 => 0x21u8..=0x7E,
        12 => 0x80u8..=0xFE,
        6 => proptest::sample::select(CTRL8.to_vec()),
        3 => 1u8..=0x1F,
        1 => Just(0x1Au8),
        2 => any::<u8>(),
    ]
    .boxed()
}
fn cell() -> BoxedStrategy<Cell> {
    (glyph(), fg_col(), bg_col(), flags()).prop_map(|(c, f, b, fl)| Cell(c, f, b, fl)).boxed()
}
fn blank_cell() -> BoxedStrategy<Cell> {
    (prop_oneof![6 => Just(b' '), 1 => Just(0u8), 1 => Just(0xFFu8)], fg_col(), bg_col(), flags()).prop_map(|(c, f, b, fl)| Cell(c, f, b, fl)).boxed()
}
fn run() -> BoxedStrategy<Run> {
    let len = prop_oneof![5 => 1u8..=3, 3 => 4u8..=12, 1 => 13u8..=80, 1 => Just(132u8)];
    (len, prop_oneof![4 => cell(), 1 => blank_cell()]).prop_map(|(n, c)| Run(n, c)).boxed()
}
fn row() -> BoxedStrategy<Row> {
    let fill = prop_oneof![6 => Just(BLANK), 2 => blank_cell(), 2 => cell()];
    let runs = prop_oneof![1 => proptest::collection::vec(run(), 0..=2), 4 => proptest::collection::vec(run(), 1..=14)];
    (runs, fill).prop_map(|(runs, fill)| Row { runs, fill }).boxed()
}
fn rows() -> BoxedStrategy<Vec<Row>> {
    prop_oneof![
        6 => proptest::collection::vec(row(), 1..=4),
        3 => proptest::collection::vec(row(), 5..=25),
        1 => proptest::collection::vec(row(), 26..=60),
    ]
    .boxed()
}
/// Known findings (ids in known_findings.json, optionally with suffix .1 ... .5) whose triggers the generator avoids
/// while they are open, so that the bulk of the cases exercises everything else.
#[derive(Clone, Copy, Debug, Default)]
struct Steer {
    bold_low_fg: bool,
    conceal: bool,
    trailing_blink: bool,
    cuf_ext_bg: bool,
    cuf_margin: bool,
    bom: bool,
}

const STEER_IDS: [&str; 6] = [
    "c04.bold_low_fg_lost",
    "c04.conceal_sets_blink_state",
    "c04.trailing_blink_blank_trimmed",
    "c04.cuf_over_extcolor_bg",
    "c04.cuf_run_at_right_margin",
    "c04.utf8_bom_prefix",
];

impl Steer {
    fn from_engine(eng: &Engine) -> Steer {
        let open = |id: &str| eng.finding_open(id) || (1..=5).any(|k| eng.finding_open(&format!("{id}.{k}")));
        Steer {
            bold_low_fg: open(STEER_IDS[0]),
            conceal: open(STEER_IDS[1]),
            trailing_blink: open(STEER_IDS[2]),
            cuf_ext_bg: open(STEER_IDS[3]),
            cuf_margin: open(STEER_IDS[4]),
            bom: open(STEER_IDS[5]),
        }
    }
    fn any(&self) -> bool {
        self.bold_low_fg || self.conceal || self.trailing_blink || self.cuf_ext_bg || self.cuf_margin || self.bom
    }
}

/// remove the triggers of the open known findings from a normal form; true when something was changed
fn steer(n: &mut Norm, s: &Steer) -> bool {
    let o = n.opts;
    let w = n.w;
    let h = n.grid.len();
    let before = n.grid.clone();
    for (y, row) in n.grid.iter_mut().enumerate() {
        for c in row.iter_mut() {
            if s.bold_low_fg && c.3 & F_BOLD != 0 && matches!(c.1, Col::D(i) if i < 8) {
                c.3 &= !F_BOLD; // bold on a dark DOS entry is written without bold
            }
            if s.conceal {
                c.3 &= !F_CONCEAL; // SGR 8 corrupts the writer's blink state
            }
        }
        if s.trailing_blink && o.compress && !o.preserve {
            // trailing blinking blanks on black are trimmed
            for c in row.iter_mut().rev() {
                if is_blank(c.0 as u32) && c.2 == Col::D(0) {
                    c.3 &= !F_BLINK;
                } else {
                    break;
                }
            }
        }
        if s.cuf_ext_bg && o.compress && o.cuf && o.extcol {
            // runs of >= 5 spaces on a background written as 48;5;n are replaced by cursor-forward
            let mut x = 0;
            while x < w {
                let cell = row[x];
                let mut e = x + 1;
                while e < w && row[e] == cell {
                    e += 1;
                }
                if e - x >= 5 && cell.0 == b' ' && is_ext_bg(cell.2, &o) {
                    for c in row[x..e].iter_mut() {
                        c.0 = 0xB0;
                    }
                }
                x = e;
            }
        }
        if s.cuf_margin && o.compress && o.cuf && !o.longer && y + 1 < h && w >= 5 {
            // a cursor-forward run that ends at the right margin does not wrap
            let last = row[w - 1];
            let tail_uniform = row[w - 5..].iter().all(|c| *c == last);
            let cufable = last.0 == b' ' && last.2 == Col::D(0) && last.3 & F_BLINK == 0;
            if tail_uniform && cufable {
                let trimmed = !o.preserve && {
                    // the writer trims trailing blanks that carry the attribute of the last cell
                    let same = row.iter().rev().take_while(|c| is_blank(c.0 as u32) && (c.1, c.2, c.3) == (last.1, last.2, last.3)).count();
                    let blanks = row.iter().rev().take_while(|c| is_blank(c.0 as u32)).count();
                    same == blanks && o.lossless
                };
                if !trimmed {
                    row[w - 1].0 = 0xB0;
                }
            }
        }
    }
    if s.bom && has_bom(n) {
        // exactly the class of the open finding: nothing written in front of EF BB BF and the whole file valid UTF-8
        // (decided on the bytes the writer produces); every other picture that starts with EF BB BF stays
        let in_class = match icyv::panics::guarded(|| build(n).to_bytes("ans", &n.opts.save_options())) {
            Ok(Ok(bytes)) => utf8_bom_class(n, &bytes),
            _ => false,
        };
        if in_class {
            n.grid[0][0].0 = b'A';
        }
    }
    n.grid != before
}

fn encode(n: &Norm) -> Vec<Row> {
    n.grid
        .iter()
        .map(|row| {
            let mut runs: Vec<Run> = Vec::new();
            for c in row {
                match runs.last_mut() {
                    Some(Run(k, l)) if l == c && *k < 255 => *k += 1,
                    _ => runs.push(Run(1, *c)),
                }
            }
            Row { runs, fill: BLANK }
        })
        .collect()
}

fn cases(st: Steer) -> BoxedStrategy<Case> {
    let w = prop_oneof![4 => Just(80u8), 1 => Just(1u8), 1 => Just(132u8), 1 => 2u8..=40, 3 => 1u8..=132];
    // ~10% of the buffers carry a large palette: 250..=520 colours inserted before the cells (so that cell colours sit at
    // palette indices beyond 255 / 511); ~40% are stored in one of the perturbed shapes
    let pal = prop_oneof![36 => Just(0u16), 1 => Just(250u16), 1 => Just(520u16), 2 => 250u16..=520];
    let shape = prop_oneof![6 => Just(0u8), 4 => 1u8..icyv::shape::CODES];
    // edited low palette slots (~20% of the buffers): one, a few or most of the 16 slots hold another colour
    let slot = prop_oneof![4 => 1u8..=7, 1 => Just(0u8), 3 => 8u8..16];
    let content = prop_oneof![
        3 => (comp(), comp(), comp()),
        2 => (0u8..16).prop_map(dos_rgb),                                  // the colour of another DOS entry (swap / duplicate)
        1 => any::<u8>().prop_map(|i| XTERM_256_PALETTE[i as usize].1.get_rgb()),
    ];
    let edit = (slot, content).prop_map(|(k, (r, g, b))| (k, r, g, b));
    let slots = prop_oneof![
        16 => Just(Vec::new()),
        2 => proptest::collection::vec(edit.clone(), 1),
        1 => proptest::collection::vec(edit.clone(), 2..=4),
        1 => proptest::collection::vec(edit, 8..=16),
    ];
    // (bom, bom_hi): 1.2% BOM-looking start with a 7-bit rest, 4% BOM-looking start with high-byte art
    let bom = prop_oneof![948 => Just((false, false)), 12 => Just((true, false)), 40 => Just((false, true))];
    (OptSeq { next: AtomicU64::new(0) }, w, mask(), bom, rows(), pal, shape, slots)
        .prop_map(move |(opts, w, mask, (bom, bom_hi), rows, pal, shape, slots)| {
            let c = Case { opts, w, mask, bom, rows, steered: false, pal, shape, slots, bom_hi };
            if !st.any() {
                return c;
            }
            let mut n = normalize(&c);
            if steer(&mut n, &st) {
                // the steered grid, spelled out (normalize() of it is the grid itself)
                Case { opts, w: n.w as u8, mask: 0xFF, bom: false, rows: encode(&n), steered: true, pal, shape, slots: c.slots.clone(), bom_hi: false }
            } else {
                c
            }
        })
        .boxed()
}

fn minimize(c: &Case) -> Vec<Case> {
    let mut out = Vec::new();
    if c.rows.len() > 1 {
        for i in 0..c.rows.len() {
            let mut d = c.clone();
            d.rows.remove(i);
            out.push(d);
        }
    }
    for (y, r) in c.rows.iter().enumerate() {
        for i in 0..r.runs.len() {
            let mut d = c.clone();
            d.rows[y].runs.remove(i);
            out.push(d);
        }
        if r.fill != BLANK {
            let mut d = c.clone();
            d.rows[y].fill = BLANK;
            out.push(d);
        }
        for (i, Run(n, cell)) in r.runs.iter().enumerate() {
            if *n > 1 {
                for m in [1, *n / 2, *n - 1] {
                    if m >= 1 && m < *n {
                        let mut d = c.clone();
                        d.rows[y].runs[i].0 = m;
                        out.push(d);
                    }
                }
            }
            let simpler = [
                BLANK,
                Cell(cell.0, Col::D(7), Col::D(0), 0),
                Cell(cell.0, cell.1, cell.2, 0),
                Cell(cell.0, Col::D(7), cell.2, cell.3),
                Cell(cell.0, cell.1, Col::D(0), cell.3),
                Cell(if is_blank(cell.0 as u32) { b' ' } else { b'A' }, cell.1, cell.2, cell.3),
            ];
            for s in simpler {
                if s != *cell {
                    let mut d = c.clone();
                    d.rows[y].runs[i].1 = s;
                    out.push(d);
                }
            }
        }
    }
    if c.opts.sauce && c.w != 80 {
        out.push(Case { w: 80, ..c.clone() });
    }
    if c.shape != 0 {
        out.push(Case { shape: 0, ..c.clone() });
    }
    if !c.slots.is_empty() {
        out.push(Case { slots: Vec::new(), ..c.clone() });
        for i in 0..c.slots.len() {
            let mut d = c.clone();
            d.slots.remove(i);
            out.push(d);
        }
    }
    if c.bom_hi {
        out.push(Case { bom_hi: false, ..c.clone() });
    }
    if c.pal != 0 {
        out.push(Case { pal: 0, ..c.clone() });
        if c.pal > 250 {
            out.push(Case { pal: 250, ..c.clone() });
        }
    }
    for i in 0..11 {
        if c.opts.get(i) != Opts::BASE.get(i) {
            let mut d = c.clone();
            d.opts.set(i, Opts::BASE.get(i));
            out.push(d);
        }
    }
    if c.mask != 0xFF {
        out.push(Case { mask: 0xFF, ..c.clone() }); // makes the stored flags self-explaining
    }
    out.truncate(4000);
    out
}

fn main() {
    let mut eng = Engine::new("C04");
    eng.rule(
        "buffers: single-layer buffers, width 80 (1..=132 when save_sauce), height 1..=60, rows = run-structured cell lists (runs of 1..=width equal cells, cut at the right margin, \
         rest of the row filled with default blanks / coloured blanks / a run that reaches the margin); characters: full CP437 range incl. NUL, 0xFF, 0xDB, 0x1A and the eight control codes, \
         made encodable for the chosen control_char_handling by construction (Ignore: ESC BEL FF DEL CR LF replaced; FilterOut: all eight replaced; IcyTerm: all kept); colours: 16x16 DOS pairs, \
         xterm-256 entries and arbitrary RGB inserted into the palette; about 10% of the buffers have a large palette (250..=520 distinct colours inserted before the cells; their arbitrary colours are then the \
         entries next to palette index 16, 256, 512 and the last one, as foreground and as background of blank runs); about 20% have edited low palette slots (one, a few or most of the 16 entries hold another colour: \
         arbitrary RGB, the colour of another DOS entry, an xterm colour; a cell colour D(i) means palette slot i and the expected picture is computed from the RGB values the slots hold); about 40% of the buffers are saved in a perturbed storage shape (icyv::shape: extra lines below, rows longer than \
         the width, layer larger than the buffer, terminal size larger/smaller than the buffer, unallocated trailing cells, combined) that leaves the picture inside the buffer rectangle unchanged; flags bold/blink/underline/crossed-out/italic/faint/double-underline/concealed gated by a per-buffer mask; cells made legal \
         for the ice mode by construction (Blink: background entries 8..15 folded to 0..7; Ice: no blink flag). Option vector = 8 booleans {compress,use_cursor_forward,use_repeat_sequences,\
         preserve_line_length,longer_terminal_output,use_extended_colors,save_sauce,lossles_output} x 3 screen preparations x 3 control-char modes x 3 ice modes = 6912 vectors; every shard of 6912 \
         consecutive cases walks through all of them in order (16 shards in the quick tier: each vector 16 times), each with its own generated buffer; modern_terminal_output=false, output_line_length=None. \
         Class tag = 2 hex digits of the booleans (bit0 compress, 1 cursor_forward, 2 repeat, 3 preserve_line_length, 4 longer_terminal, 5 extended_colors, 6 save_sauce, 7 lossles_output) followed by the \
         digits prep(0 None,1 ClearScreen,2 Home) ctrl(0 Ignore,1 IcyTerm,2 FilterOut) ice(0 Unlimited,1 Blink,2 Ice), . The class histogram has ONE dimension per case: bom_start_ok (picture starts with EF BB BF and loads correctly) / bom_steered_away, else shape/<storage shape>, else large_palette, else edited_palette_slots, else the option tag \
         (so the tag counts only show the buffers without any of those; every option vector is generated 16 times per quick run by construction). \
         Non-trivial: >= 2 attribute changes between consecutive cells AND >= 1 compressible run (>= 5 equal cells in a row or >= 2 trailing black blanks) AND option vector != (SaveOptions::default(), Unlimited); \
         distinct by hash of the case. While a known finding with one of the ids listed under coverage.steering is open, the generator removes its trigger from the buffers \
         (bold on dark DOS foregrounds / concealed flag / trailing blinking blanks under compress / >=5 spaces on a 48;5;n background under compress+cursor_forward+extended_colors / \
         a cursor-forward run ending at the right margin); such cases carry a ~ after the class tag. For c04.utf8_bom_prefix only the exact class of the finding is steered away: file starts with the bytes EF BB BF (nothing written in front) \
         AND the whole picture data is valid UTF-8, decided on the bytes the writer produces (class bom_steered_away); 1.2% of the buffers start with EF BB BF + a 7-bit rest, 4% with EF BB BF B0 + high-byte art (not valid UTF-8; class bom_start_ok). Failure key = oracle clause | input features whose removal makes the reduced case pass | options that must differ from the all-off vector (greedy reduction to a fixpoint, fixed order).",
    );
    eng.assume("what a cell shows is computed as Buffer::render_to_rgba does: palette RGB of the foreground (entry+8 when bold and entry<8) and of the background; NUL, space and 0xFF are one blank class; foreground of blanks is not compared");
    eng.assume("rows or cells missing from the loaded buffer count as blank on black, not blinking; rows below the saved rectangle must be blank on black");
    eng.assume("with lossles_output=false the background of the solid block 0xDB is not compared (colour optimiser, owned by C12); underline/italic/faint/crossed-out/concealed are generated but not compared (not part of the statement)");
    eng.assume("unset (invisible) cells are outside the domain: every cell of the saved buffer holds a character");
    // 16 shards x 6912 = each option vector 16 times (quick); x20 in the thorough tier
    let st = Steer::from_engine(&eng);
    eng.extra(
        "steering",
        icyv::serde_json::json!({
            "what": "while one of these known findings is open the generator removes its trigger from the generated buffers (class tag ends in ~ when a buffer was changed)",
            "ids": STEER_IDS,
            "active": format!("{st:?}"),
        }),
    );
    eng.generated_min(PartCfg::new("buffers", 16 * N_OPTS, 16 * N_OPTS * 20).threads(16).shrink_budget(1200), move || cases(st), check, |c: &Case| c.opts.tag(), minimize);
    eng.run();
}
