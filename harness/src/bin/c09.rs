//! C09 — cursor and fixed-grid geometry stay consistent under any stream.
use icy_engine::{Buffer, Caret, TextPane};
use icyv::proptest::prelude::*;
use icyv::stream::{self, Piece, Sym, Tok, EMUS};
use icyv::util::Bytes;
use icyv::{panics, Engine, PartCfg, Verdict};
use serde::{Deserialize, Serialize};

#[derive(Clone, Debug, Hash, Serialize, Deserialize)]
struct Case {
    emu: u8,
    w: u8,
    h: u8,
    shape: u8,
    data: Bytes,
}

// ---------------------------------------------------------------------------------------- every control function on prepared screens
const AF_INTERS: [&str; 8] = ["", " ", "$", "*", "?", "=", "!", "<"];
const AF_STATES: u64 = 10;
const AF_SIZES: [(u8, u8); 2] = [(80, 25), (5, 3)];

fn af_state(k: u64, w: i32, h: i32) -> Vec<u8> {
    let row = |n: i32| vec![b'y'; n.max(0) as usize];
    let mut v = Vec::new();
    match k {
        0 => {}
        1 => v.extend(row(w)),
        2 => {
            // cursor moved back into a row that is filled up to the last column
            v.extend(row(w));
            v.extend_from_slice(b"\x1b[A");
        }
        3 => v.extend_from_slice(format!("\x1b[{h};{w}H").as_bytes()),
        4 => v.extend(vec![b'\n'; (h + 7) as usize]),
        5 => v.extend_from_slice(format!("\x1b[2;{}r\x1b[2;2H", (h - 1).max(2)).as_bytes()),
        6 => v.extend_from_slice(format!("\x1b[2;{}r\x1b[?6h", (h - 1).max(2)).as_bytes()),
        7 => {
            v.extend_from_slice(b"\x1b[?7l");
            v.extend(row(w + 5));
        }
        8 => v.extend_from_slice(format!("\x1b[?69h\x1b[2;{}s\x1b[1;{}H", (w - 1).max(2), w).as_bytes()),
        _ => {
            for _ in 0..3 {
                v.extend(row(w));
            }
            v.extend_from_slice(format!("\x1b[2;{w}H\x1b[4h").as_bytes());
        }
    }
    v
}

fn af_lists(w: u32, h: u32) -> Vec<Vec<u32>> {
    let mut out: Vec<Vec<u32>> = vec![vec![]];
    for p in 0..=8u32 {
        out.push(vec![p]);
    }
    for p in [w, w + 1, h, h + 1, 9999] {
        out.push(vec![p]);
    }
    for (a, b) in [(1, 1), (h + 1, w + 1), (0, 9999), (9999, 0), (2, 9999), (4, 4)] {
        out.push(vec![a, b]);
    }
    out.push(vec![1, 1, 1]);
    out.push(vec![9999, 9999, 9999]);
    out.push(vec![h + 1, 1, 1]);
    out
}

const AF_LISTS: u64 = 24;

fn af_case(idx: u64) -> Case {
    let (w, h) = AF_SIZES[(idx % 2) as usize];
    let r = idx / 2;
    let state = r % AF_STATES;
    let r = r / AF_STATES;
    let lists = af_lists(w as u32, h as u32);
    debug_assert_eq!(lists.len() as u64, AF_LISTS);
    let ps = &lists[(r % AF_LISTS) as usize];
    let r = r / AF_LISTS;
    let inter = AF_INTERS[(r % 8) as usize];
    let fin = 0x40 + (r / 8) as u8;
    let mut v = af_state(state, w as i32, h as i32);
    v.extend_from_slice(b"\x1b[");
    let (pre, mid) = match inter {
        "?" | "=" | "!" | "<" => (inter, ""),
        o => ("", o),
    };
    v.extend_from_slice(pre.as_bytes());
    for (i, p) in ps.iter().enumerate() {
        if i > 0 {
            v.push(b';');
        }
        v.extend_from_slice(p.to_string().as_bytes());
    }
    v.extend_from_slice(mid.as_bytes());
    v.push(fin);
    v.extend_from_slice(b"Z\x1b[C!");
    Case { emu: 0, w, h, shape: 1, data: Bytes(v) }
}

const SIZES: [(u8, u8); 5] = [(80, 25), (1, 1), (2, 2), (132, 60), (40, 24)];

/// label of what ended at byte index `i` (a root-cause class for the failure key)
fn label(emu: u8, d: &[u8], i: usize) -> (String, bool) {
    // returns (label, emulation-specific?) — sequences handled by the shared ANSI fallback get one key for all ANSI-family emulations
    let b = d[i];
    // form feed reaches Caret::ff through several wrappers (avatar ^L, avatar ^Y ^L n, ascii ESC ^L): one family
    if (b == 0x0C && (emu == 5 || emu == 13)) || (emu == 5 && i >= 2 && d[i - 2] == 0x19 && d[i - 1] == 0x0C) {
        return ("C0:0x0c".into(), false);
    }
    if emu == 5 {
        // avatar: ^V cmd [args] — the cursor commands (3..6, 8 y x) are one family
        for back in 1..=3usize {
            if i >= back && d[i - back] == 0x16 {
                return ("AVT^V".into(), true);
            }
        }
        if i >= 2 && d[i - 2] == 0x19 {
            return ("AVT^Y".into(), true);
        }
    }
    if emu == 7 && i >= 1 && d[i - 1] == 1 {
        return (format!("CTRLA{}", if b >= 128 { "hi".to_string() } else { (b as char).to_string() }), true);
    }
    // control sequence ending here?
    let lo = i.saturating_sub(48);
    if let Some(p) = d[lo..i].iter().rposition(|x| *x == 0x1B) {
        let s = lo + p;
        let body = &d[s + 1..=i];
        if body.first() == Some(&b'[') && body.len() >= 2 {
            let mid = &body[1..body.len() - 1];
            if mid.iter().all(|c| c.is_ascii_digit() || b";?=!< $*".contains(c)) && (0x40..=0x7E).contains(&b) {
                let inter: String = mid.iter().filter(|c| !c.is_ascii_digit() && **c != b';').map(|c| *c as char).collect();
                return (format!("CSI{}{}", inter.replace(' ', "SP"), b as char), emu >= 9);
            }
        } else if body.len() == 1 {
            return (format!("ESC{}", if (0x20..0x7F).contains(&b) { (b as char).to_string() } else { format!("0x{b:02x}") }), emu >= 9);
        }
    }
    let l = match b {
        0..=0x1F | 0x7F => format!("C0:0x{b:02x}"),
        0x20..=0x7E => "printable".into(),
        0x80..=0x9F => {
            if emu >= 9 {
                format!("C1:0x{b:02x}")
            } else {
                "high".into()
            }
        }
        _ => "high".into(),
    };
    (l, emu >= 9)
}

fn emu_group(emu: u8) -> &'static str {
    match emu {
        0..=4 => "ansi",
        _ => EMUS[emu as usize],
    }
}

struct Geo {
    w: i32,
    h: i32,
}

fn violated(c: &Case, geo: &Geo, buf: &Buffer, caret: &Caret) -> Option<(&'static str, String)> {
    let p = caret.get_position();
    let tw = buf.terminal_state.get_width();
    let th = buf.terminal_state.get_height();
    if p.x < 0 || p.x >= tw {
        return Some((if p.x < 0 { "cursor.x<0" } else { "cursor.x>=width" }, format!("x={} terminal width={}", p.x, tw)));
    }
    let first = buf.get_first_visible_line();
    if p.y < first || p.y >= first + th {
        return Some((
            if p.y < first { "cursor.y<first_visible" } else { "cursor.y>=first_visible+height" },
            format!("y={} first_visible={} terminal height={} buffer height={}", p.y, first, th, buf.get_height()),
        ));
    }
    if c.emu == stream::EMU_VIEWDATA || c.emu == stream::EMU_MODE7 {
        let bs = buf.get_size();
        if bs.width != geo.w || bs.height != geo.h {
            return Some(("fixed_grid.buffer_size", format!("buffer size {bs} != {}x{}", geo.w, geo.h)));
        }
        let ls = buf.layers[0].get_size();
        if ls.width != geo.w || ls.height != geo.h {
            return Some(("fixed_grid.layer_size", format!("layer size {ls} != {}x{}", geo.w, geo.h)));
        }
        if tw != geo.w || th != geo.h {
            return Some(("fixed_grid.terminal_size", format!("terminal size {tw}x{th} != {}x{}", geo.w, geo.h)));
        }
    }
    None
}

fn is_resize_request(d: &[u8], i: usize) -> bool {
    // CSI 8;h;w t ends at i
    if d[i] != b't' {
        return false;
    }
    let lo = i.saturating_sub(24);
    if let Some(p) = d[lo..i].iter().rposition(|x| *x == 0x1B) {
        let body = &d[lo + p + 1..i];
        return body.starts_with(b"[8;") && body.iter().filter(|c| **c == b';').count() == 2;
    }
    false
}

fn check(c: &Case) -> Verdict {
    let geo = Geo { w: c.w as i32, h: c.h as i32 };
    let (mut buf, mut caret) = stream::make_terminal(geo.w, geo.h, c.shape);
    let mut parser = stream::make_parser(c.emu);
    let mut moved = false;
    let mut scrolled = false;
    let d: &[u8] = &c.data;
    for i in 0..d.len() {
        let before_h = buf.get_height();
        let before_y = caret.get_position().y;
        let before_size = (buf.terminal_state.get_width(), buf.terminal_state.get_height());
        let r = panics::guarded(|| {
            let _ = parser.print_char(&mut buf, 0, &mut caret, d[i] as char);
        });
        if r.is_err() {
            // a panic is C01's subject; the history ends here
            return Verdict::pass(false, "ended_by_panic(C01)");
        }
        if is_resize_request(d, i) || (d[i] == b't' && before_size != (buf.terminal_state.get_width(), buf.terminal_state.get_height())) {
            // the statement excludes streams that request a text-area resize; the request is recognised by its spelling and by its effect
            // (the parser also accepts spellings such as `CSI ;8;;t`)
            return Verdict::discard("resize request in stream");
        }
        if let Some((clause, msg)) = violated(c, &geo, &buf, &caret) {
            let (lab, specific) = label(c.emu, d, i);
            let fam = if specific { emu_group(c.emu) } else { "ansi-family" };
            return Verdict::fail(format!("{clause}|emu={fam}|after={lab}"), format!("emulation {}, after byte {i} (0x{:02x}): {msg}", EMUS[c.emu as usize], d[i]));
        }
        let p = caret.get_position();
        if p.x != 0 || p.y != 0 {
            moved = true;
        }
        if buf.get_height() != before_h || (p.y < before_y && d[i] >= 0x20) || p.y + 1 == buf.get_first_visible_line() + buf.terminal_state.get_height() {
            scrolled = true;
        }
    }
    while let Some(h) = buf.sixel_threads.pop_front() {
        let _ = h.join();
    }
    Verdict::pass(moved && scrolled, emu_group(c.emu))
}

fn fixed_sizes(emu: u8) -> BoxedStrategy<(u8, u8)> {
    if emu == stream::EMU_VIEWDATA {
        Just((40u8, 24u8)).boxed()
    } else if emu == stream::EMU_MODE7 {
        prop_oneof![Just((40u8, 24u8)), Just((40u8, 25u8))].boxed()
    } else {
        prop_oneof![3 => Just((80u8, 25u8)), 1 => Just((1, 1)), 1 => Just((2, 2)), 1 => Just((132, 60)), 1 => Just((40, 24)), 4 => (1u8..=132, 1u8..=60)].boxed()
    }
}

fn random_cases(max_tokens: usize) -> BoxedStrategy<Case> {
    let per_emu: Vec<BoxedStrategy<Case>> = (0..EMUS.len() as u8)
        .map(|emu| {
            // newline-heavy filler so that the scrollback fills
            let filler = prop_oneof![
                3 => stream::token(emu, false),
                1 => (1usize..=70).prop_map(|n| vec![Piece::Lit(b"ab\r\n".repeat(n))]),
                1 => (1usize..=30).prop_map(|n| vec![Piece::Lit(vec![b'\n'; n])]),
            ];
            (0u8..=2, fixed_sizes(emu), proptest::collection::vec(filler, 0..=max_tokens))
                .prop_map(move |(shape, (w, h), toks)| {
                    let mut data = stream::render(&toks, w as i32, h as i32, 9999);
                    data.truncate(4096);
                    Case { emu, w, h, shape, data: Bytes(data) }
                })
                .boxed()
        })
        .collect();
    proptest::strategy::Union::new(per_emu).boxed()
}

fn minimize(c: &Case) -> Vec<Case> {
    let mut out: Vec<Case> = icyv::util::bytes_candidates(&c.data).into_iter().map(|d| Case { data: Bytes(d), ..c.clone() }).collect();
    if c.emu != stream::EMU_VIEWDATA && c.emu != stream::EMU_MODE7 && (c.w, c.h) != (80, 25) {
        out.push(Case { w: 80, h: 25, ..c.clone() });
    }
    if c.shape != 0 {
        out.push(Case { shape: 0, ..c.clone() });
    }
    out
}

fn main() {
    let mut eng = Engine::new("C09");
    eng.rule(
        "exhaustive: every sequence of 1..=3 tokens over the 80-token ANSI alphabet (printables incl. width-1 and width runs, C0, ESC 7/8/c/D/M/E/H, cursor/tab/margin/scroll/ \
         insert/delete/erase/save-restore/reset/origin/wrap functions with parameters from {none,0,1,mid,size,size+1,9999}) on 80x25, 1x1, 2x2, 132x60, 40x24; \
         random: token streams <= 4 KiB with newline filler (scrollback fills) for all 14 emulation configurations, Viewdata on 40x24, Mode 7 on 40x24 and 40x25. \
         After every byte: 0 <= x < terminal width, first_visible <= y < first_visible + terminal height; Viewdata/Mode7: buffer, layer and terminal size unchanged. \
         all_finals (exhaustive): every CSI final 0x40..0x7E x 8 intermediates x 24 parameter lists (none, 0..=8, width, width+1, height, height+1, 9999, six pairs, three triples) on ten prepared screens \
         (fresh; full row; cursor moved back into a full row; cursor at the bottom right; scrollback; margins; origin mode; no-wrap run past the margin; left/right margins; insert mode in a full row) for 80x25 and 5x3, followed by a printable, CUF and a printable. \
         Non-trivial: the cursor left the home position AND a scroll/wrap happened (buffer height grew, cursor wrapped upward, or cursor reached the last visible row); distinct by case hash.",
    );
    eng.assume("a sequence ends at its first violation; a panic or abort ends the history (C01's subject; random streams run in worker processes so that an abort cannot take the check down); streams containing the resize request CSI 8;h;w t are outside the statement (discarded)");

    let alpha = stream::alphabet();
    let n = alpha.len() as u64;
    eng.extra("alphabet_tokens", icyv::serde_json::json!(n));
    // quick: all 1- and 2-token sequences on the five sizes, all 3-token sequences on 80x25 and 2x2; thorough: 3 tokens on all five
    let thorough = eng.is_thorough();
    let short = n + n * n;
    let a2 = alpha.clone();
    eng.enumerated(
        PartCfg::new("exhaustive_2_tokens", 0, 0).exhaustive(true),
        short * SIZES.len() as u64,
        move |idx| {
            let (w, h) = SIZES[(idx / short) as usize];
            let k = idx % short;
            let toks: Vec<Tok> = if k < n { vec![a2[k as usize].clone()] } else { vec![a2[((k - n) / n) as usize].clone(), a2[((k - n) % n) as usize].clone()] };
            Case { emu: 0, w, h, shape: 2, data: Bytes(stream::render(&toks, w as i32, h as i32, 9999)) }
        },
        check,
    );
    // every control function (63 finals x 8 intermediates) with selector-like and boundary parameters on ten prepared screens
    eng.enumerated(PartCfg::new("all_finals", 0, 0).exhaustive(true), 2 * AF_STATES * AF_LISTS * 8 * 63, af_case, check);
    let sizes3: Vec<(u8, u8)> = if thorough { SIZES.to_vec() } else { vec![(80, 25), (2, 2)] };
    let a3 = alpha.clone();
    let cube = n * n * n;
    eng.enumerated(
        PartCfg::new("exhaustive_3_tokens", 0, 0).exhaustive(true),
        cube * sizes3.len() as u64,
        move |idx| {
            let (w, h) = sizes3[(idx / cube) as usize];
            let k = idx % cube;
            let toks: Vec<Tok> = vec![a3[(k / (n * n)) as usize].clone(), a3[((k / n) % n) as usize].clone(), a3[(k % n) as usize].clone()];
            Case { emu: 0, w, h, shape: if k % 2 == 0 { 2 } else { 1 }, data: Bytes(stream::render(&toks, w as i32, h as i32, 9999)) }
        },
        check,
    );
    eng.generated_min(PartCfg::new("random_streams", 150_000, 4_000_000).isolated().crash_is_violation(false).heapcap_is_violation(false).timeout_ms(30_000), || random_cases(60), check, |_| "-".into(), minimize);
    if eng.is_thorough() {
        // 4-token sequences over a 25-token core alphabet on 80x25 and 2x2
        let core: Vec<Tok> = alpha.iter().step_by(3).take(25).cloned().collect();
        let m = core.len() as u64;
        eng.enumerated(
            PartCfg::new("exhaustive_4_core_tokens", 0, 0).exhaustive(true),
            m * m * m * m * 2,
            move |idx| {
                let (w, h) = if idx / (m * m * m * m) == 0 { (80u8, 25u8) } else { (2, 2) };
                let k = idx % (m * m * m * m);
                let toks: Vec<Tok> = vec![
                    core[(k / (m * m * m)) as usize].clone(),
                    core[((k / (m * m)) % m) as usize].clone(),
                    core[((k / m) % m) as usize].clone(),
                    core[(k % m) as usize].clone(),
                ];
                Case { emu: 0, w, h, shape: 1, data: Bytes(stream::render(&toks, w as i32, h as i32, 9999)) }
            },
            check,
        );
    }
    eng.run();
}
