//! C10 — stored text is always valid Unicode.
//!
//! Every part runs in worker processes: a materialised invalid `char` / `String` is undefined behaviour and may crash later.
//! Observation is done on raw memory (volatile reads), never through `char`/`str` operations the optimiser may fold.
use icy_engine::{ansi, BitFont, Buffer, BufferParser, Layer, SaveOptions, TextPane};
use icyv::proptest::collection::vec;
use icyv::proptest::prelude::*;
use icyv::stream;
use icyv::util::{escape, pick, Bytes};
use icyv::{Engine, PartCfg, Verdict};
use serde::{Deserialize, Serialize};
use std::path::Path;
use std::sync::OnceLock;

// ------------------------------------------------------------------------------------------------
// observation
// ------------------------------------------------------------------------------------------------

/// the 32 bits stored in a `char` slot, read so that the optimiser cannot assume the `char` validity range
#[inline(never)]
fn raw(ch: &char) -> u32 {
    unsafe { std::ptr::read_volatile(ch as *const char as *const u32) }
}

fn is_scalar(v: u32) -> bool {
    v <= 0xD7FF || (0xE000..=0x10_FFFF).contains(&v)
}

/// copy the bytes of a string volatile and validate the copy
#[inline(never)]
fn utf8_err(s: &str) -> Option<String> {
    let p = s.as_ptr();
    let n = s.len();
    let mut v: Vec<u8> = Vec::with_capacity(n);
    for i in 0..n {
        v.push(unsafe { std::ptr::read_volatile(p.add(i)) });
    }
    match std::str::from_utf8(&v) {
        Ok(_) => None,
        Err(e) => Some(format!("{e}; bytes = \"{}\"", escape(&v[..v.len().min(48)]))),
    }
}

#[derive(Clone, Debug)]
struct BadCell {
    layer: usize,
    x: i32,
    y: i32,
    value: u32,
    how: &'static str,
}

impl BadCell {
    fn describe(&self) -> String {
        format!("layer {} cell ({},{}) {} holds {:#x}, which is not a Unicode scalar value", self.layer, self.x, self.y, self.how, self.value)
    }
}

/// every stored cell of a layer (raw line storage) and every cell the layer returns through `get_char`
fn scan_layer(layer: &Layer, li: usize, out: &mut Vec<BadCell>) {
    for (y, line) in layer.lines.iter().enumerate() {
        for (x, cell) in line.chars.iter().enumerate() {
            let v = raw(&cell.ch);
            if !is_scalar(v) && out.len() < 16 {
                out.push(BadCell { layer: li, x: x as i32, y: y as i32, value: v, how: "(stored)" });
            }
        }
    }
    let (w, h) = (layer.get_width().clamp(0, 200), layer.get_height().clamp(0, 200));
    for y in 0..h {
        for x in 0..w {
            let c = layer.get_char((x, y));
            let v = raw(&c.ch);
            if !is_scalar(v) && out.len() < 16 {
                out.push(BadCell { layer: li, x, y, value: v, how: "(returned by Layer::get_char)" });
            }
        }
    }
}

fn scan_buffer_cells(buf: &Buffer) -> Vec<BadCell> {
    let mut out = Vec::new();
    for (li, l) in buf.layers.iter().enumerate() {
        scan_layer(l, li, &mut out);
    }
    let (w, h) = (buf.get_width().clamp(0, 200), buf.get_line_count().max(buf.get_height()).clamp(0, 400));
    for y in 0..h {
        for x in 0..w {
            let c = buf.get_char((x, y));
            let v = raw(&c.ch);
            if !is_scalar(v) && out.len() < 16 {
                out.push(BadCell { layer: usize::MAX, x, y, value: v, how: "(returned by Buffer::get_char)" });
            }
        }
    }
    out
}

/// glyph keys of a font that are not scalar values: (count, first)
fn scan_font(font: &BitFont) -> Option<(usize, u32)> {
    let mut n = 0;
    let mut first = None;
    for k in font.glyphs.keys() {
        let v = raw(k);
        if !is_scalar(v) {
            n += 1;
            first = Some(first.map_or(v, |f: u32| f.min(v)));
        }
    }
    first.map(|f| (n, f))
}

/// strings of a buffer: (which, error)
fn scan_buffer_strings(buf: &Buffer) -> Vec<(&'static str, String)> {
    let mut out = Vec::new();
    for l in &buf.layers {
        if let Some(e) = utf8_err(&l.properties.title) {
            out.push(("layer_title", e));
        }
    }
    let mut fonts: Vec<(&usize, &BitFont)> = buf.font_iter().collect();
    fonts.sort_by_key(|(k, _)| **k);
    for (_, f) in fonts {
        if let Some(e) = utf8_err(&f.name) {
            out.push(("font_name", e));
        }
    }
    if let Some(s) = buf.get_sauce() {
        let mut strs = vec![s.title.to_string(), s.author.to_string(), s.group.to_string()];
        strs.extend(s.comments.iter().map(|c| c.to_string()));
        if let Some(f) = &s.font_opt {
            strs.push(f.clone());
        }
        for st in &strs {
            if let Some(e) = utf8_err(st) {
                out.push(("sauce", e));
            }
        }
    }
    out
}

fn feed(parser: &mut dyn BufferParser, buf: &mut Buffer, caret: &mut icy_engine::Caret, data: &[u8]) -> u32 {
    let mut errs = 0;
    for b in data {
        if parser.print_char(buf, 0, caret, *b as char).is_err() {
            errs += 1;
        }
    }
    errs
}

/// like `feed`, but a panic of the engine is caught and described (file:line message) instead of unwinding
fn feed_caught(parser: &mut dyn BufferParser, buf: &mut Buffer, caret: &mut icy_engine::Caret, data: &[u8]) -> Result<u32, String> {
    match std::panic::catch_unwind(std::panic::AssertUnwindSafe(|| feed(parser, buf, caret, data))) {
        Ok(e) => Ok(e),
        Err(_) => {
            let rec = icyv::panics::take().unwrap_or_default();
            Err(format!("panic \"{}\" at {}:{}", rec.msg, rec.file, rec.line))
        }
    }
}

fn cp_class(v: u64) -> &'static str {
    if v > 0x7FFF_FFFF {
        "over_i32"
    } else if v > 0x10_FFFF {
        "above_max"
    } else if (0xD800..=0xDFFF).contains(&v) {
        "surrogate"
    } else {
        "scalar"
    }
}

// ------------------------------------------------------------------------------------------------
// code point strategies
// ------------------------------------------------------------------------------------------------

const EDGE_POINTS: &[u32] = &[0, 0x7F, 0xFF, 0x100, 0xD7FF, 0xD800, 0xDBFF, 0xDC00, 0xDFFF, 0xE000, 0xFFFF, 0x1_0000, 0x10_FFFF, 0x11_0000, 0x7FFF_FFFF];

/// numbers 0..=2^31-1 with weight on the two validity boundaries
fn code_point31() -> BoxedStrategy<u32> {
    prop_oneof![
        3 => 0x20u32..=0x7E,
        2 => 0u32..=0xFF,
        2 => 0x100u32..=0xD7FF,
        4 => 0xD800u32..=0xDFFF,
        2 => 0xE000u32..=0x10_FFFF,
        3 => 0x11_0000u32..=0x11_FFFF,
        2 => 0x11_0000u32..=0x7FFF_FFFF,
        3 => prop::sample::select(EDGE_POINTS.to_vec()),
    ]
    .boxed()
}

fn code_point32() -> BoxedStrategy<u32> {
    prop_oneof![
        12 => code_point31(),
        2 => 0x8000_0000u32..=0xFFFF_FFFF,
        1 => prop::sample::select(vec![0x8000_0000u32, 0xFFFF_FFFF, 0xFFFF_D800, 0x8000_0041]),
    ]
    .boxed()
}

/// closed-open windows of an enumerated number table; index -> value
fn window_total(ws: &[(u64, u64)]) -> u64 {
    ws.iter().map(|(a, b)| b - a).sum()
}
fn window_value(ws: &[(u64, u64)], mut i: u64) -> u64 {
    for (a, b) in ws {
        if i < b - a {
            return a + i;
        }
        i -= b - a;
    }
    ws.last().map(|w| w.1 - 1).unwrap_or(0)
}

// ------------------------------------------------------------------------------------------------
// terminal state in front of a sequence under test (stream-driven parts)
// ------------------------------------------------------------------------------------------------

/// What the terminal looks like when the sequence under test arrives. A state can change which code path turns a number
/// into a `char` (e.g. a font-relative interpretation of a character code), so the number tables are repeated per state.
#[derive(Clone, Debug, Default, PartialEq, Eq, Hash, Serialize, Deserialize)]
struct TermState {
    /// font slot the custom font goes to; a slot > 0 is then selected with `CSI 0;slot SP D` (slot 0 is what a fresh caret uses)
    slot: u8,
    /// index into STATE_FONTS; 0 = no custom font (a selected slot then gets the engine's built-in page of that number)
    font: u8,
    /// the font arrives as a CTerm font DCS instead of Buffer::set_font
    dcs: bool,
    /// bit 0 ice colours (CSI ?33h), 1 insert mode (CSI 4h), 2 top/bottom margins (CSI 3;20r), 3 left/right margins (CSI ?69h, CSI 5;60s),
    /// 4 origin mode (CSI ?6h), 5 buffer type Unicode
    modes: u8,
}

/// (format as in FontCase::fmt, glyph count, glyph height, psf1 mode)
const STATE_FONTS: &[(u8, u32, u8, u8)] = &[
    (3, 256, 16, 0), // index 0 is "none"; entry unused
    (3, 256, 16, 0),
    (0, 512, 8, 1),
    (1, 512, 8, 0),
    (1, 0xD801, 1, 0),
    (1, 0xDC00, 1, 0),
    (1, 0xE000, 1, 0),
    (1, 0x1_0000, 1, 0),
    (1, 0x2_0000, 1, 0),
];

fn state_font_idx(st: &TermState) -> usize {
    st.font as usize % STATE_FONTS.len()
}

fn state_slot(st: &TermState) -> usize {
    (st.slot % 4) as usize
}

/// glyph count (`BitFont::length`) of the custom font the caret points at, 0 if none
fn state_font_len(st: &TermState) -> u32 {
    match state_font_idx(st) {
        0 => 0,
        f => STATE_FONTS[f].1,
    }
}

fn state_class(st: &TermState) -> &'static str {
    if state_font_len(st) > 0xD800 {
        "big_font"
    } else if state_font_idx(st) != 0 || state_slot(st) != 0 {
        "font"
    } else if st.modes & 0x3F != 0 {
        "modes"
    } else {
        "fresh"
    }
}

/// suffix of failure keys / abort classes: only a font whose glyph numbers reach the surrogate range is a different input class
fn state_key(st: &TermState) -> &'static str {
    if state_font_len(st) > 0xD800 {
        "|state=big_font"
    } else {
        ""
    }
}

fn state_font_bytes(f: usize) -> &'static [u8] {
    static B: OnceLock<Vec<Vec<u8>>> = OnceLock::new();
    &B.get_or_init(|| STATE_FONTS.iter().map(|&(fmt, glyphs, height, psf1_mode)| font_bytes(&FontCase { fmt, glyphs, height, via: 0, mul: 5, add: 3, psf1_mode })).collect())[f]
}

thread_local! {
    /// parsed state fonts are handed from one case to the next (building 2^17 glyph entries per case would dominate the run)
    static FONT_POOL: std::cell::RefCell<std::collections::HashMap<usize, BitFont>> = std::cell::RefCell::new(std::collections::HashMap::new());
}

fn state_mode_bytes(st: &TermState) -> Vec<u8> {
    let mut v = Vec::new();
    let slot = state_slot(st);
    if slot != 0 {
        v.extend(format!("\x1b[0;{slot} D").into_bytes());
    }
    for (bit, seq) in [(1u8, &b"\x1b[?33h"[..]), (2, b"\x1b[4h"), (4, b"\x1b[3;20r"), (8, b"\x1b[?69h\x1b[5;60s"), (16, b"\x1b[?6h")] {
        if st.modes & bit != 0 {
            v.extend(seq);
        }
    }
    v
}

/// bring a fresh terminal into the state; returns a description of what was done
fn state_apply(st: &TermState, parser: &mut ansi::Parser, buf: &mut Buffer, caret: &mut icy_engine::Caret) -> String {
    let mut how = String::new();
    if st.modes & 32 != 0 {
        buf.buffer_type = icy_engine::BufferType::Unicode;
        how.push_str("buffer type Unicode; ");
    }
    let f = state_font_idx(st);
    let slot = state_slot(st);
    if f != 0 {
        let (fmt, glyphs, height, _) = STATE_FONTS[f];
        if st.dcs {
            let mut d = format!("\x1bPCTerm:Font:{slot}:").into_bytes();
            d.extend(stream::b64(state_font_bytes(f)));
            d.extend(b"\x1b\\");
            feed(parser, buf, caret, &d);
            how.push_str(&format!("{} font of {glyphs} glyphs (height {height}) sent as `ESC P CTerm:Font:{slot}:<base64> ESC \\`; ", FONT_FMT[fmt as usize]));
        } else {
            let font = FONT_POOL.with(|p| p.borrow_mut().remove(&f)).or_else(|| BitFont::from_bytes("state font", state_font_bytes(f)).ok());
            if let Some(font) = font {
                buf.set_font(slot, font);
            }
            how.push_str(&format!("{} font of {glyphs} glyphs (height {height}) put into slot {slot} with Buffer::set_font; ", FONT_FMT[fmt as usize]));
        }
    }
    let m = state_mode_bytes(st);
    if !m.is_empty() {
        feed(parser, buf, caret, &m);
        how.push_str(&format!("then \"{}\"; ", escape(&m)));
    }
    how
}

/// hand the parsed font back for the next case (only if it is still the one that was put there)
fn state_release(st: &TermState, buf: &mut Buffer) {
    let f = state_font_idx(st);
    if f != 0 && !st.dcs {
        if let Some(font) = buf.remove_font(state_slot(st)) {
            if font.length as u32 == STATE_FONTS[f].1 && font.name == "state font" {
                FONT_POOL.with(|p| p.borrow_mut().insert(f, font));
            }
        }
    }
}

fn term_state(fresh_weight: u32) -> BoxedStrategy<TermState> {
    let font = prop_oneof![3 => Just(0u8), 2 => 1u8..=3, 5 => 4u8..=8];
    prop_oneof![
        fresh_weight => Just(TermState::default()),
        6 => (0u8..=3, font, prop::bool::weighted(0.012), prop_oneof![2 => Just(0u8), 2 => 0u8..64, 1 => Just(63u8)]).prop_map(|(slot, font, dcs, modes)| TermState { slot, font, dcs, modes }),
    ]
    .boxed()
}

const STATE_WINDOWS: &[(u64, u64)] = &[(0xF8, 0x108), (0x1F8, 0x208), (0xD700, 0xE100), (0xFFF8, 0x1_0008), (0x1_FFF8, 0x2_0008), (0x10_FFF8, 0x11_0008)];
/// boundaries only (states that differ from an enumerated one just by a larger font)
const STATE_WINDOWS_EDGES: &[(u64, u64)] = &[(0xF8, 0x108), (0x1F8, 0x208), (0xD7F0, 0xD810), (0xDBF8, 0xDC08), (0xDFF0, 0xE010), (0xFFF8, 0x1_0008), (0x1_FFF8, 0x2_0008), (0x10_FFF8, 0x11_0008)];
/// the DCS route costs ~100 KB of stream per case: narrow windows
const STATE_WINDOWS_DCS: &[(u64, u64)] = &[(0xD7F8, 0xD808), (0xDBF8, 0xDC08), (0xDFF8, 0xE008)];

/// states of the enumerated tables, each with the number windows it is combined with
fn table_states() -> Vec<(TermState, &'static [(u64, u64)])> {
    let st = |slot, font, dcs, modes| TermState { slot, font, dcs, modes };
    vec![
        (st(1, 0, false, 0), STATE_WINDOWS),        // built-in page 1 selected
        (st(2, 1, false, 0), STATE_WINDOWS),        // 256-glyph custom font selected
        (st(1, 2, false, 0), STATE_WINDOWS),        // 512-glyph PSF1
        (st(3, 3, false, 1), STATE_WINDOWS),        // 512-glyph PSF2, ice colours
        (st(1, 4, false, 0), STATE_WINDOWS),        // 0xD801 glyphs
        (st(1, 6, false, 6), STATE_WINDOWS),        // 0xE000 glyphs, insert mode + margins
        (st(2, 7, false, 56), STATE_WINDOWS_EDGES), // 0x10000 glyphs, left/right margins + origin mode + Unicode buffer
        (st(0, 8, false, 0), STATE_WINDOWS_EDGES),  // 0x20000 glyphs in slot 0 (what a fresh caret uses), nothing selected
        (st(0, 0, false, 63), STATE_WINDOWS),       // no font, every mode
        (st(1, 5, true, 0), STATE_WINDOWS_DCS),     // 0xDC00 glyphs sent as a CTerm font DCS
    ]
}

// ------------------------------------------------------------------------------------------------
// (i) DECFRA
// ------------------------------------------------------------------------------------------------

#[derive(Clone, Debug, Hash, Serialize, Deserialize)]
struct Decfra {
    /// fill character parameter (decimal in the stream); values above 2^31-1 only exercise the saturation of the number reader
    pc: u64,
    pt: u16,
    pl: u16,
    pb: u16,
    pr: u16,
    /// 0 = Buffer::new, 1 = Buffer::create
    shape: u8,
    /// what precedes / follows the control function (index into PRE / POST)
    pre: u8,
    post: u8,
    #[serde(default)]
    state: TermState,
}

const PRE: &[&[u8]] = &[b"", b"\x1b[1;33;44m", b"abc\r\ndef", b"\x1b[5;10H\x1b[4h", b"\x1b[38;2;1;2;3m\x1b[0;40 D"];
const POST: &[&[u8]] = &[b"", b"xyz", b"\x1b[1S", b"\x1b[1;1H\x1b[2@", b"\x1b[1T\x1b[2;2H\x1b[1P", b"\x1b[1;1;2;2;1;5;5;1$v"];

/// (prelude + control function, suffix)
fn decfra_stream(c: &Decfra) -> (Vec<u8>, &'static [u8]) {
    let mut v = PRE[c.pre as usize % PRE.len()].to_vec();
    v.extend(format!("\x1b[{};{};{};{};{}$x", c.pc, c.pt, c.pl, c.pb, c.pr).into_bytes());
    (v, POST[c.post as usize % POST.len()])
}

fn decfra_windows(thorough: bool) -> Vec<(u64, u64)> {
    let mut ws: Vec<(u64, u64)> = if thorough {
        vec![(0, 0x11_0101)]
    } else {
        vec![(0, 0x100), (0xD700, 0xE100), (0xFFF0, 0x1_0010), (0x10_FF00, 0x11_0100)]
    };
    for k in 21..31u32 {
        ws.push(((1u64 << k) - 2, (1u64 << k) + 2));
    }
    ws.push((0x7FFF_FF00, 0x8000_0002));
    ws.push((0xFFFF_FFFE, 0x1_0000_0002));
    ws
}

fn decfra_strategy() -> BoxedStrategy<Decfra> {
    let pc = prop_oneof![20 => code_point31().prop_map(|v| v as u64), 1 => 0x8000_0000u64..=99_999_999_999];
    let row = prop_oneof![5 => 1u16..=25, 1 => 0u16..=30, 1 => Just(9999u16)];
    let col = prop_oneof![5 => 1u16..=80, 1 => 0u16..=90, 1 => Just(9999u16)];
    // edges are ordered (top <= bottom, left <= right) unless `swapped`
    (pc, row.clone(), col.clone(), row, col, prop::bool::weighted(0.1), 0u8..=1, prop_oneof![3 => Just(0u8), 2 => 1u8..PRE.len() as u8], prop_oneof![3 => Just(0u8), 2 => 1u8..POST.len() as u8], term_state(5))
        .prop_map(|(pc, r1, c1, r2, c2, swapped, shape, pre, post, state)| {
            let (pt, pb) = if (r1 <= r2) != swapped { (r1, r2) } else { (r2, r1) };
            let (pl, pr) = if (c1 <= c2) != swapped { (c1, c2) } else { (c2, c1) };
            Decfra { pc, pt, pl, pb, pr, shape, pre, post, state }
        })
        .boxed()
}

fn check_decfra(c: &Decfra) -> Verdict {
    let (mut buf, mut caret) = stream::make_terminal(80, 25, c.shape);
    let mut parser = ansi::Parser::default();
    let how = state_apply(&c.state, &mut parser, &mut buf, &mut caret);
    let v = check_decfra_in(c, &how, &mut parser, &mut buf, &mut caret);
    state_release(&c.state, &mut buf);
    v
}

fn check_decfra_in(c: &Decfra, how: &str, parser: &mut ansi::Parser, buf: &mut Buffer, caret: &mut icy_engine::Caret) -> Verdict {
    let key_state = state_key(&c.state);
    let how = if how.is_empty() { String::new() } else { format!(" [terminal state: {how}]") };
    if let Some(b) = scan_buffer_cells(buf).first() {
        return Verdict::fail(format!("invalid_char.cell|source=term_state{key_state}"), format!("after setting up the terminal state{how}: {}", b.describe()));
    }
    let (data, post) = decfra_stream(c);
    let mut errs = feed(parser, buf, caret, &data);
    let bad = scan_buffer_cells(buf);
    if let Some(b) = bad.first() {
        // what the invalid value does to later, harmless input (message only; the key is the stored value)
        let after = match feed_caught(parser, buf, caret, post) {
            Err(p) if !post.is_empty() => format!("; feeding \"{}\" afterwards: {p}", escape(post)),
            _ => String::new(),
        };
        return Verdict::fail(
            format!("invalid_char.cell|source=decfra{key_state}"),
            format!("after the stream \"{}\" on an 80x25 terminal{how}: {} ({} such cells seen; fill parameter {} = {:#x}){after}", escape(&data), b.describe(), bad.len(), c.pc, c.pc),
        );
    }
    errs += feed(parser, buf, caret, post);
    if let Some(b) = scan_buffer_cells(buf).first() {
        return Verdict::fail(format!("invalid_char.cell|source=decfra{key_state}"), format!("after the stream \"{}{}\" on an 80x25 terminal{how}: {}", escape(&data), escape(post), b.describe()));
    }
    for (which, s) in [("parse_string", &parser.parse_string), ("macro_dcs", &parser.macro_dcs)] {
        if let Some(e) = utf8_err(s) {
            return Verdict::fail(format!("invalid_utf8.{which}|source=decfra{key_state}"), format!("after the stream \"{}\"{how}: parser.{which} is not UTF-8: {e}", escape(&data)));
        }
    }
    // own model of the addressed rectangle (the engine clamps each edge into 1..=25 / 1..=80)
    let (t, b) = (c.pt.clamp(1, 25), c.pb.clamp(1, 25));
    let (l, r) = (c.pl.clamp(1, 80), c.pr.clamp(1, 80));
    let nonempty = t <= b && l <= r;
    let class = cp_class(c.pc);
    let filled = if class == "scalar" && nonempty && c.post == 0 {
        let got = raw(&buf.get_char((l as i32 - 1, t as i32 - 1)).ch);
        if got as u64 == c.pc {
            "+filled"
        } else {
            "+not_filled"
        }
    } else {
        ""
    };
    Verdict::pass(
        class != "scalar" && nonempty,
        format!("decfra:{}:{class}{}{filled}{}", state_class(&c.state), if nonempty { "" } else { "+empty_rect" }, if errs > 0 { "+err" } else { "" }),
    )
}

// ------------------------------------------------------------------------------------------------
// (ii) clipboard records
// ------------------------------------------------------------------------------------------------

#[derive(Clone, Debug, Hash, Serialize, Deserialize)]
struct ClipCell {
    ch: u16,
    attr: u16,
    page: u16,
    bg: u32,
    fg: u32,
}

#[derive(Clone, Debug, Hash, Serialize, Deserialize)]
struct Clip {
    x: i32,
    y: i32,
    w: u8,
    h: u8,
    /// row-major; padded with blanks / cut to w*h
    cells: Vec<ClipCell>,
}

/// record layout (layer.rs): 0u8, x i32, y i32, width u32, height u32, then per cell ch u16, attr u16, font page u16, bg u32, fg u32 (all LE)
fn clip_record(c: &Clip) -> Vec<u8> {
    let mut v = vec![0u8];
    v.extend(c.x.to_le_bytes());
    v.extend(c.y.to_le_bytes());
    v.extend((c.w as u32).to_le_bytes());
    v.extend((c.h as u32).to_le_bytes());
    let blank = ClipCell { ch: 0x20, attr: 0, page: 0, bg: 0, fg: 7 };
    for i in 0..(c.w as usize * c.h as usize) {
        let cell = c.cells.get(i).unwrap_or(&blank);
        v.extend(cell.ch.to_le_bytes());
        v.extend(cell.attr.to_le_bytes());
        v.extend(cell.page.to_le_bytes());
        v.extend(cell.bg.to_le_bytes());
        v.extend(cell.fg.to_le_bytes());
    }
    v
}

fn clip_cell() -> BoxedStrategy<ClipCell> {
    let ch = prop_oneof![3 => 0x20u16..=0x7E, 2 => any::<u16>(), 3 => 0xD800u16..=0xDFFF, 1 => prop::sample::select(vec![0xD7FFu16, 0xD800, 0xDBFF, 0xDC00, 0xDFFF, 0xE000, 0xFFFF, 0])];
    let attr = prop_oneof![3 => Just(0u16), 1 => any::<u16>(), 1 => Just(0x8000u16)];
    let col = prop_oneof![3 => 0u32..=15, 1 => any::<u32>()];
    (ch, attr, prop_oneof![3 => Just(0u16), 1 => any::<u16>()], col.clone(), col).prop_map(|(ch, attr, page, bg, fg)| ClipCell { ch, attr, page, bg, fg }).boxed()
}

fn clip_strategy() -> BoxedStrategy<Clip> {
    (prop_oneof![2 => Just(0i32), 1 => -5i32..=90, 1 => any::<i32>()], prop_oneof![2 => Just(0i32), 1 => -5i32..=30, 1 => any::<i32>()], 0u8..=8, 0u8..=5, vec(clip_cell(), 0..=40))
        .prop_map(|(x, y, w, h, cells)| Clip { x, y, w, h, cells })
        .boxed()
}

fn clip_enumerated(i: u64) -> Clip {
    let v = i as u16;
    let a = ClipCell { ch: b'a' as u16, attr: 0, page: 0, bg: 0, fg: 7 };
    let t = ClipCell { ch: v, attr: if i & 1 == 0 { 0 } else { 1 }, page: 0, bg: 1, fg: 14 };
    let mut cells = vec![a.clone(), a.clone(), a.clone(), a.clone(), a.clone(), a];
    cells[pick((i as u16).wrapping_mul(40503), 6)] = t;
    Clip { x: 0, y: 0, w: 3, h: 2, cells }
}

fn check_clip(c: &Clip) -> Verdict {
    let rec = clip_record(c);
    let n = c.w as usize * c.h as usize;
    let sur = c.cells.iter().take(n).filter(|x| (0xD800..=0xDFFF).contains(&x.ch)).count();
    let Some(layer) = Layer::from_clipboard_data(&rec) else {
        return Verdict::pass(false, "clipboard:rejected");
    };
    let mut bad = Vec::new();
    scan_layer(&layer, 0, &mut bad);
    if let Some(b) = bad.first() {
        return Verdict::fail(
            "invalid_char.cell|source=clipboard",
            format!("Layer::from_clipboard_data of a {}x{} record ({} bytes): {} ({} surrogate values in the record)", c.w, c.h, rec.len(), b.describe(), sur),
        );
    }
    if let Some(e) = utf8_err(&layer.properties.title) {
        return Verdict::fail("invalid_utf8.layer_title|source=clipboard", format!("pasted layer title is not UTF-8: {e}"));
    }
    Verdict::pass(sur > 0, if sur > 0 { "clipboard:surrogate" } else if n == 0 { "clipboard:empty" } else { "clipboard:scalar" })
}

// ------------------------------------------------------------------------------------------------
// (iii) IcyDraw files
// ------------------------------------------------------------------------------------------------

#[derive(Clone, Debug, Hash, Serialize, Deserialize)]
struct IcyCell {
    /// 0 = invisible, 1 = short form (all fields one byte), 2 = long form (char u32, fg u32, bg u32, page u16)
    kind: u8,
    attr: u16,
    ch: u32,
    fg: u32,
    bg: u32,
    page: u16,
}

#[derive(Clone, Debug, Hash, Serialize, Deserialize)]
struct SauceModel {
    title: Bytes,
    author: Bytes,
    group: Bytes,
    tinfos: Bytes,
    comments: Vec<Bytes>,
    data_type: u8,
    file_type: u8,
}

#[derive(Clone, Debug, Hash, Serialize, Deserialize)]
struct IcyCase {
    title: Bytes,
    /// Some(name bytes): a FONT_1 chunk with that name and a valid PSF2 font
    font_name: Option<Bytes>,
    /// layer width is max(min_w, longest row); rows shorter than the width end with the end-of-line marker
    min_w: u8,
    rows: Vec<Vec<IcyCell>>,
    /// rows in the LAYER_0 chunk = pick(split, rows+1); the rest goes to continuation chunks LAYER_0~k of `cont_rows` rows each (0 = one chunk)
    split: u16,
    cont_rows: u8,
    flags: u8,
    mode: u8,
    sauce: Option<SauceModel>,
    /// FONT_n chunks placed in front of the layer chunks: (slot n, index into STATE_FONTS); the state a cell's font page can refer to
    #[serde(default)]
    fonts: Vec<(u8, u8)>,
}

const ATTR_INVISIBLE: u16 = 0x8000;
const ATTR_SHORT: u16 = 0x4000;
const ATTR_EOL: u16 = 0xC000;
const FLAG_VISIBLE: u8 = 1;
const FLAG_EDIT_LOCK: u8 = 4;
const FLAG_HAS_ALPHA: u8 = 8;
const FLAG_ALPHA_LOCKED: u8 = 16;

fn icy_width(c: &IcyCase) -> usize {
    c.rows.iter().map(|r| r.len()).max().unwrap_or(0).max(c.min_w as usize)
}

/// row encoding from doc/FileFormats/ICEDFormat.md
fn icy_rows(rows: &[Vec<IcyCell>], width: usize, out: &mut Vec<u8>) {
    for row in rows {
        for cell in row {
            match cell.kind {
                0 => out.extend(ATTR_INVISIBLE.to_le_bytes()),
                1 => {
                    out.extend(((cell.attr & 0x3FFF) | ATTR_SHORT).to_le_bytes());
                    out.extend([cell.ch as u8, cell.fg as u8, cell.bg as u8, cell.page as u8]);
                }
                _ => {
                    out.extend((cell.attr & 0x3FFF).to_le_bytes());
                    out.extend(cell.ch.to_le_bytes());
                    out.extend(cell.fg.to_le_bytes());
                    out.extend(cell.bg.to_le_bytes());
                    out.extend(cell.page.to_le_bytes());
                }
            }
        }
        if row.len() < width {
            out.extend(ATTR_EOL.to_le_bytes());
        }
    }
}

fn len_prefixed(out: &mut Vec<u8>, s: &[u8]) {
    out.extend((s.len() as u32).to_le_bytes());
    out.extend(s);
}

/// SAUCE rev. 5 record (128 bytes) preceded by EOF and the optional comment block
fn sauce_bytes(s: &SauceModel) -> Vec<u8> {
    fn field(out: &mut Vec<u8>, b: &[u8], len: usize, pad: u8) {
        let n = b.len().min(len);
        out.extend(&b[..n]);
        out.extend(std::iter::repeat(pad).take(len - n));
    }
    let mut v = vec![0x1A];
    let comments = &s.comments[..s.comments.len().min(3)];
    if !comments.is_empty() {
        v.extend(b"COMNT");
        for c in comments {
            field(&mut v, c, 64, 0);
        }
    }
    v.extend(b"SAUCE00");
    field(&mut v, &s.title, 35, b' ');
    field(&mut v, &s.author, 20, b' ');
    field(&mut v, &s.group, 20, b' ');
    v.extend(b"20240229");
    v.extend(0u32.to_le_bytes());
    v.push(s.data_type);
    v.push(s.file_type);
    v.extend([80, 0, 25, 0, 0, 0, 0, 0]);
    v.push(comments.len() as u8);
    v.push(0);
    field(&mut v, &s.tinfos, 22, 0);
    v
}

struct IcyTemplate {
    iced: Vec<u8>,
    /// PSF2 bytes of the default font as the engine wrote them (after the name)
    font_psf: Vec<u8>,
    font0: Vec<u8>,
}

fn b64_dec(s: &str) -> Vec<u8> {
    use base64::{engine::general_purpose, Engine as _};
    general_purpose::STANDARD.decode(s).expect("engine wrote base64")
}

/// a valid file written by the engine, taken apart into its zTXt payloads
fn icy_template() -> &'static IcyTemplate {
    static T: OnceLock<IcyTemplate> = OnceLock::new();
    T.get_or_init(|| {
        let buf = Buffer::new((8, 4));
        let mut opts = SaveOptions::new();
        opts.lossles_output = true;
        let bytes = buf.to_bytes("icy", &opts).expect("engine saves an empty 8x4 document");
        let dec = png::Decoder::new(std::io::Cursor::new(bytes));
        let reader = dec.read_info().expect("engine wrote a PNG");
        let mut iced = None;
        let mut font0 = None;
        for ch in &reader.info().compressed_latin1_text {
            let payload = b64_dec(&ch.get_text().expect("zTXt inflates"));
            match ch.keyword.as_str() {
                "ICED" => iced = Some(payload),
                "FONT_0" => font0 = Some(payload),
                _ => {}
            }
        }
        let iced = iced.expect("ICED chunk");
        let font0 = font0.expect("FONT_0 chunk");
        let nl = u32::from_le_bytes(font0[0..4].try_into().unwrap()) as usize;
        let font_psf = font0[4 + nl..].to_vec();
        IcyTemplate { iced, font_psf, font0 }
    })
}

fn png_with_chunks(chunks: &[(String, Vec<u8>)]) -> Vec<u8> {
    let mut out = Vec::new();
    {
        let mut enc = png::Encoder::new(&mut out, 1, 1);
        enc.set_color(png::ColorType::Rgba);
        enc.set_depth(png::BitDepth::Eight);
        enc.set_compression(png::Compression::Fast);
        for (k, v) in chunks {
            enc.add_ztxt_chunk(k.clone(), String::from_utf8(stream::b64(v)).unwrap()).expect("ztxt");
        }
        let mut w = enc.write_header().expect("png header");
        w.write_image_data(&[0, 0, 0, 0]).expect("png data");
        w.finish().expect("png end");
    }
    out
}

/// (file, rows in first chunk)
fn icy_file(c: &IcyCase) -> (Vec<u8>, usize) {
    let t = icy_template();
    let width = icy_width(c);
    let height = c.rows.len();
    let mut iced = t.iced.clone();
    iced[11..15].copy_from_slice(&(width.max(1) as u32).to_le_bytes());
    iced[15..19].copy_from_slice(&(height.max(1) as u32).to_le_bytes());
    let mut chunks: Vec<(String, Vec<u8>)> = vec![("ICED".into(), iced)];
    if let Some(s) = &c.sauce {
        chunks.push(("SAUCE".into(), sauce_bytes(s)));
    }
    chunks.push(("FONT_0".into(), t.font0.clone()));
    if let Some(n) = &c.font_name {
        let mut f = Vec::new();
        len_prefixed(&mut f, n);
        f.extend(&t.font_psf);
        chunks.push(("FONT_1".into(), f));
    }
    for (slot, f) in c.fonts.iter().take(2) {
        let f = (*f as usize % (STATE_FONTS.len() - 1)) + 1;
        let mut d = Vec::new();
        len_prefixed(&mut d, b"state font");
        d.extend(state_font_bytes(f));
        chunks.push((format!("FONT_{}", slot % 8), d));
    }
    let first = pick(c.split, height + 1).min(height);
    let mut l = Vec::new();
    len_prefixed(&mut l, &c.title);
    l.push(0); // role: normal
    l.extend(0u32.to_le_bytes()); // unused
    l.push(c.mode % 3);
    l.extend([0, 0, 0, 0]); // colour: none
    l.extend((c.flags as u32 & 0x1F).to_le_bytes());
    l.push(0); // transparency
    l.extend(0i32.to_le_bytes());
    l.extend(0i32.to_le_bytes());
    l.extend((width as u32).to_le_bytes());
    l.extend((height as u32).to_le_bytes());
    l.extend(0u16.to_le_bytes());
    let mut data = Vec::new();
    icy_rows(&c.rows[..first], width, &mut data);
    l.extend((data.len() as u64).to_le_bytes());
    l.extend(data);
    chunks.push(("LAYER_0".into(), l));
    let per = if c.cont_rows == 0 { height.max(1) } else { c.cont_rows as usize };
    let mut k = 1;
    let mut y = first;
    while y < height {
        let end = (y + per).min(height);
        let mut d = Vec::new();
        icy_rows(&c.rows[y..end], width, &mut d);
        chunks.push((format!("LAYER_0~{k}"), d));
        k += 1;
        y = end;
    }
    chunks.push(("END".into(), Vec::new()));
    (png_with_chunks(&chunks), first)
}

const BAD_UTF8: &[&[u8]] = &[
    b"\x80",
    b"\xbf",
    b"\xc0\x80",
    b"\xc1\xbf",
    b"\xc2",
    b"\xc2\x20",
    b"\xe0\x80\x80",
    b"\xe0\x9f\xbf",
    b"\xe2\x82",
    b"\xed\xa0\x80",
    b"\xed\xbf\xbf",
    b"\xf0\x80\x80\x80",
    b"\xf0\x9f\x98",
    b"\xf4\x90\x80\x80",
    b"\xf5\x80\x80\x80",
    b"\xf8\x88\x80\x80\x80",
    b"\xfe",
    b"\xff",
    b"ab\xffcd",
    b"\xe2\x82\xac\x80",
    b"title\xc3",
];

fn text_bytes() -> BoxedStrategy<Bytes> {
    prop_oneof![
        4 => "[ -~]{0,12}".prop_map(|s| Bytes(s.into_bytes())),
        2 => "\\PC{0,6}".prop_map(|s| Bytes(s.into_bytes())),
        3 => vec(any::<u8>(), 0..=12).prop_map(Bytes),
        3 => ("[a-z]{0,3}", prop::sample::select(BAD_UTF8.to_vec()), "[a-z]{0,3}").prop_map(|(a, b, c)| {
            let mut v = a.into_bytes();
            v.extend(b);
            v.extend(c.into_bytes());
            Bytes(v)
        }),
    ]
    .boxed()
}

fn icy_cell() -> BoxedStrategy<IcyCell> {
    let attr = prop_oneof![3 => Just(0u16), 1 => 0u16..=0x3FF];
    let col = prop_oneof![3 => 0u32..=15, 1 => 0u32..=255, 1 => any::<u32>()];
    prop_oneof![
        2 => Just(IcyCell { kind: 0, attr: 0, ch: 0, fg: 0, bg: 0, page: 0 }),
        3 => (attr.clone(), any::<u8>(), 0u32..=255, 0u32..=255, 0u16..=3).prop_map(|(attr, ch, fg, bg, page)| IcyCell { kind: 1, attr, ch: ch as u32, fg, bg, page }),
        6 => (attr, code_point32(), col.clone(), col, prop_oneof![3 => 0u16..=3, 1 => any::<u16>()]).prop_map(|(attr, ch, fg, bg, page)| IcyCell { kind: 2, attr, ch, fg, bg, page }),
    ]
    .boxed()
}

fn sauce_model() -> BoxedStrategy<SauceModel> {
    let b = |n: usize| vec(any::<u8>(), 0..=n).prop_map(Bytes);
    (b(35), b(20), b(20), b(22), vec(b(64), 0..=2), prop_oneof![3 => Just(1u8), 1 => Just(5u8), 1 => any::<u8>()], prop_oneof![3 => 0u8..=2, 1 => any::<u8>()])
        .prop_map(|(title, author, group, tinfos, comments, data_type, file_type)| SauceModel { title, author, group, tinfos, comments, data_type, file_type })
        .boxed()
}

fn icy_strategy() -> BoxedStrategy<IcyCase> {
    (
        text_bytes(),
        prop::option::weighted(0.4, text_bytes()),
        0u8..=6,
        vec(vec(icy_cell(), 0..=6), 0..=5),
        any::<u16>(),
        0u8..=2,
        prop_oneof![6 => Just(0b01001u8), 2 => 0u8..32],
        0u8..=2,
        prop::option::weighted(0.25, sauce_model()),
        0u8..8,
        // 0..=2 fonts in slots 0..=3; the large ones cost milliseconds to load, so most files carry none
        prop_oneof![
            240 => Just(Vec::new()),
            2 => vec((0u8..=3, 1u8..=3), 1..=2),
            2 => vec((0u8..=3, prop_oneof![3 => 4u8..=6, 1 => 7u8..=8]), 1..=1),
            1 => ((0u8..=3, 4u8..=6), (0u8..=3, 1u8..=3)).prop_map(|(a, b)| vec![a, b]),
        ],
    )
        .prop_map(|(mut title, mut font_name, min_w, mut rows, split, cont_rows, flags, mode, sauce, keep, fonts)| {
            // `keep` says which of the three kinds of ill-formed content stay in the file (so that each site is also met alone)
            if keep & 1 == 0 {
                for cell in rows.iter_mut().flatten() {
                    if !is_scalar(cell.ch) {
                        cell.ch = 0x2500 + (cell.ch & 0xFF);
                    }
                }
            }
            let lossy = |b: &Bytes| Bytes(String::from_utf8_lossy(b).into_owned().into_bytes());
            if keep & 2 == 0 {
                title = lossy(&title);
            }
            if keep & 4 == 0 {
                font_name = font_name.as_ref().map(lossy);
            }
            IcyCase { title, font_name, min_w, rows, split, cont_rows, flags, mode, sauce, fonts }
        })
        .boxed()
}

const ICY_CHAR_WINDOWS: &[(u64, u64)] = &[(0, 0x20), (0xD7F0, 0xE010), (0x10_FFF0, 0x11_0010), (0x7FFF_FFF0, 0x8000_0010), (0xFFFF_FFF0, 0x1_0000_0000)];

fn icy_table_total() -> u64 {
    2 * window_total(ICY_CHAR_WINDOWS) + 2 * BAD_UTF8.len() as u64
}

fn icy_table(i: u64) -> IcyCase {
    let plain = |ch: u32| IcyCell { kind: 2, attr: 0, ch, fg: 7, bg: 0, page: 0 };
    let mut c = IcyCase {
        title: Bytes(b"Background".to_vec()),
        font_name: None,
        min_w: 3,
        rows: vec![vec![plain(0x41), plain(0x2592)], vec![plain(0x42)], vec![plain(0x43), plain(0x44), plain(0x45)]],
        split: 0xFFFF,
        cont_rows: 0,
        flags: 0b01001,
        mode: 0,
        sauce: None,
        fonts: Vec::new(),
    };
    let nchar = window_total(ICY_CHAR_WINDOWS);
    if i < 2 * nchar {
        let v = window_value(ICY_CHAR_WINDOWS, i % nchar) as u32;
        if i < nchar {
            // long-form char field in the LAYER_0 chunk
            c.rows[1].push(plain(v));
        } else {
            // long-form char field in the continuation chunk LAYER_0~1 (rows 0..2 in the first chunk)
            c.split = 0x8000; // pick(0x8000, 3 + 1) = 2
            c.rows[2][1] = plain(v);
        }
    } else {
        let j = (i - 2 * nchar) as usize;
        let s = Bytes(BAD_UTF8[j / 2].to_vec());
        if j % 2 == 0 {
            c.title = s;
        } else {
            c.font_name = Some(s);
        }
    }
    c
}

/// glyph count of the largest font the file carries in a FONT_n chunk
fn icy_max_font(c: &IcyCase) -> u32 {
    c.fonts.iter().take(2).map(|(_, f)| STATE_FONTS[(*f as usize % (STATE_FONTS.len() - 1)) + 1].1).max().unwrap_or(0)
}

fn icy_state_key(c: &IcyCase) -> &'static str {
    if icy_max_font(c) > 0xD800 {
        "|state=big_font"
    } else {
        ""
    }
}

/// Files whose FONT_1 (and FONT_2) chunk precedes the layer: one file walks a whole number table through the cells of one layer.
/// index = ((font 1..=8) x (cell font page: 1 = the font's slot, 2 = the next slot, 0) x (first / continuation chunk) x (long / short records)) 
const ICY_FONT_FILES: u64 = 8 * 3 * 2 * 2;

fn icy_font_file(i: u64) -> IcyCase {
    let short = i % 2 == 1;
    let cont = (i / 2) % 2 == 1;
    let page = [1u16, 2, 0][((i / 4) % 3) as usize];
    let f = ((i / 12) % 8) as u8 + 1;
    let count = STATE_FONTS[f as usize].1;
    let values: Vec<u32> = if short {
        (0..=255).collect()
    } else {
        let mut v: Vec<u32> = (0xD7F0..=0xE010).collect();
        v.extend([0, 0xFF, 0x100, 0x1FF, 0x200, 0xFFFF, 0x1_0000, 0x1_FFFF, 0x2_0000, 0x10_FFFF, 0x11_0000, 0x7FFF_FFFF, 0xFFFF_FFFF]);
        v.extend([count.saturating_sub(2), count - 1, count, count + 1]);
        v
    };
    let cell = |ch: u32| IcyCell { kind: if short { 1 } else { 2 }, attr: 0, ch, fg: 7, bg: 0, page };
    let mut rows: Vec<Vec<IcyCell>> = vec![vec![IcyCell { kind: 2, attr: 0, ch: 0x41, fg: 7, bg: 0, page: 0 }]];
    rows.extend(values.chunks(64).map(|r| r.iter().map(|v| cell(*v)).collect::<Vec<_>>()));
    // second font: a 256-glyph font in the next slot on every other font index
    let mut fonts = vec![(1u8, f - 1)];
    if f % 2 == 0 {
        fonts.push((2, 0));
    }
    // smallest split for which pick(split, rows + 1) = 1
    let one_row = ((65536 + rows.len()) / (rows.len() + 1)) as u16;
    IcyCase {
        title: Bytes(b"fonts".to_vec()),
        font_name: None,
        min_w: 64,
        rows,
        // continuation: only the first row (one cell) stays in LAYER_0
        split: if cont { one_row } else { 0xFFFF },
        cont_rows: if cont { 8 } else { 0 },
        flags: 0b01001,
        mode: 0,
        sauce: None,
        fonts,
    }
}

fn check_icy(c: &IcyCase) -> Verdict {
    let (file, first) = icy_file(c);
    // what the model says is dangerous, and where
    let long_bad = |rows: &[Vec<IcyCell>]| -> Vec<u32> { rows.iter().flatten().filter(|x| x.kind == 2 && !is_scalar(x.ch)).map(|x| x.ch).collect() };
    let bad_first = long_bad(&c.rows[..first]);
    let bad_cont = long_bad(&c.rows[first..]);
    // the layer flags of the LAYER_0 chunk are in force while continuation chunks are stored: a hidden, locked or
    // alpha-locked layer takes no cells
    let cont_effective = c.flags & FLAG_VISIBLE != 0 && c.flags & FLAG_EDIT_LOCK == 0 && c.flags & (FLAG_HAS_ALPHA | FLAG_ALPHA_LOCKED) != (FLAG_HAS_ALPHA | FLAG_ALPHA_LOCKED);
    let bad_title = std::str::from_utf8(&c.title).is_err();
    let bad_font = c.font_name.as_ref().map(|n| std::str::from_utf8(n).is_err()).unwrap_or(false);
    let high_sauce = c.sauce.as_ref().map(|s| [&s.title, &s.author, &s.group, &s.tinfos].iter().any(|b| b.iter().any(|x| *x >= 0x80)) || s.comments.iter().any(|b| b.iter().any(|x| *x >= 0x80))).unwrap_or(false);
    let nontrivial = !bad_first.is_empty() || (!bad_cont.is_empty() && cont_effective) || bad_title || bad_font || high_sauce;

    let buf = match Buffer::from_bytes(Path::new("x.icy"), false, &file) {
        Ok(b) => b,
        Err(_) => return Verdict::pass(nontrivial, "icy:load_err"),
    };
    let bad = scan_buffer_cells(&buf);
    if !bad.is_empty() {
        // attribute the stored value to the chunk that carried it
        if let Some(b) = bad.iter().find(|b| bad_first.contains(&b.value)) {
            return Verdict::fail(format!("invalid_char.cell|source=icy_layer{}", icy_state_key(c)), format!("after loading an .icy file whose LAYER_0 chunk has a long-form char field {:#x}: {}", b.value, b.describe()));
        }
        if let Some(b) = bad.iter().find(|b| bad_cont.contains(&b.value)) {
            return Verdict::fail(
                format!("invalid_char.cell|source=icy_layer_cont{}", icy_state_key(c)),
                format!("after loading an .icy file whose continuation chunk LAYER_0~k has a long-form char field {:#x}: {}", b.value, b.describe()),
            );
        }
        return Verdict::fail("invalid_char.cell|source=icy_other", format!("after loading an .icy file: {} (value not among the file's long-form char fields)", bad[0].describe()));
    }
    for (which, e) in scan_buffer_strings(&buf) {
        return Verdict::fail(format!("invalid_utf8.{which}|source=icy"), format!("after loading an .icy file (title bytes \"{}\", font name {:?}): {which} is not UTF-8: {e}", escape(&c.title), c.font_name));
    }
    for (slot, f) in buf.font_iter() {
        if let Some((n, v)) = scan_font(f) {
            return Verdict::fail("invalid_char.glyph_key|source=icy_font", format!("font slot {slot} has {n} glyph keys that are not scalar values, first {v:#x}"));
        }
    }
    let mut class = String::from("icy:");
    class.push_str(if !bad_first.is_empty() || !bad_cont.is_empty() { "bad_char" } else { "chars_ok" });
    if bad_title || bad_font {
        class.push_str("+bad_utf8");
    }
    if first < c.rows.len() {
        class.push_str("+cont");
    }
    if c.sauce.is_some() {
        class.push_str("+sauce");
    }
    Verdict::pass(nontrivial, class)
}

// ------------------------------------------------------------------------------------------------
// (iv) fonts
// ------------------------------------------------------------------------------------------------

#[derive(Clone, Debug, Hash, Serialize, Deserialize)]
struct FontCase {
    /// 0 = PSF1, 1 = PSF2 (charsize == height), 2 = PSF2 (charsize = 2*height, half the length: same byte count), 3 = raw (256 glyphs)
    fmt: u8,
    glyphs: u32,
    height: u8,
    /// route, see font_route: 0 = BitFont::from_bytes, 1 = CTerm font DCS on a terminal, 2 = FONT_2 chunk of an .icy file, 3 = set into a slot, selected, drawn with
    via: u8,
    /// glyph byte i is (i*mul + add) mod 256
    mul: u8,
    add: u8,
    psf1_mode: u8,
}

const FONT_FMT: &[&str] = &["psf1", "psf2", "psf2", "raw"];
const MAX_FONT_BYTES: usize = 1 << 18;

fn font_height(c: &FontCase) -> usize {
    (c.height as usize).clamp(1, 32)
}

fn font_glyphs(c: &FontCase) -> usize {
    if c.fmt % 4 == 3 {
        256
    } else {
        (c.glyphs as usize).min(MAX_FONT_BYTES / font_height(c))
    }
}

fn font_bytes(c: &FontCase) -> Vec<u8> {
    let h = font_height(c);
    let g = font_glyphs(c);
    let body = (0..g * h).map(|i| (i as u32).wrapping_mul(c.mul as u32).wrapping_add(c.add as u32) as u8);
    match c.fmt % 4 {
        0 => {
            let mut v = vec![0x36, 0x04, c.psf1_mode & 1, h as u8];
            v.extend(body);
            v
        }
        1 | 2 => {
            let (length, charsize) = if c.fmt % 4 == 2 && g % 2 == 0 { (g / 2, h * 2) } else { (g, h) };
            let mut v = Vec::with_capacity(32 + g * h);
            for f in [0x864a_b572u32, 0, 32, 0, length as u32, charsize as u32, h as u32, 8] {
                v.extend(f.to_le_bytes());
            }
            v.extend(body);
            v
        }
        _ => {
            let mut v: Vec<u8> = body.collect();
            // a raw font must not start with a PSF magic
            if v.len() >= 2 && v[0] == 0x36 && v[1] == 0x04 {
                v[0] = 0x37;
            }
            if v.len() >= 4 && v[0..4] == [0x72, 0xb5, 0x4a, 0x86] {
                v[0] = 0x73;
            }
            v
        }
    }
}

const FONT_COUNTS: &[u32] = &[1, 255, 256, 257, 512, 0xD7FF, 0xD800, 0xD801, 0xDBFF, 0xDFFF, 0xE000, 0xE001, 0x1_0000, 0x1_0001, 0x2_0000];

fn font_strategy() -> BoxedStrategy<FontCase> {
    let glyphs = prop_oneof![2 => 0u32..=600, 2 => 0xD700u32..=0xE100, 2 => prop::sample::select(FONT_COUNTS.to_vec()), 2 => 0u32..=0x2_0000];
    (0u8..=3, glyphs, prop_oneof![3 => Just(1u8), 1 => 1u8..=4, 1 => prop::sample::select(vec![8u8, 14, 16, 32])], prop_oneof![3 => Just(0u8), 1 => Just(1u8), 1 => Just(2u8), 1 => Just(3u8)], any::<u8>(), any::<u8>(), 0u8..=1)
        .prop_map(|(fmt, glyphs, height, via, mul, add, psf1_mode)| FontCase { fmt, glyphs, height, via, mul, add, psf1_mode })
        .boxed()
}

fn font_table(i: u64) -> FontCase {
    let n = FONT_COUNTS.len() as u64;
    FontCase { fmt: ((i / n) % 3) as u8, glyphs: FONT_COUNTS[(i % n) as usize], height: 1, via: (i / (3 * n)) as u8, mul: 7, add: 1, psf1_mode: 0 }
}

const ROUTES: &[&str] = &["direct", "dcs", "icy", "slot"];

/// Load font bytes through one of the four routes and scan what the engine keeps: every key of `BitFont::glyphs`, the font name,
/// and (routes with a terminal) every cell. Ok("ok" | "err" | "not_set") or the failure.
/// 0 = BitFont::from_bytes, 1 = CTerm font DCS, 2 = FONT_2 chunk of an .icy file, 3 = from_bytes, Buffer::set_font into slot 1,
/// slot selected with `CSI 0;1 SP D`, a character and a DECFRA with `probe` as fill code drawn, then everything scanned.
fn font_route(data: &[u8], via: u8, src: &str, what: &str, probe: u32) -> Result<&'static str, Verdict> {
    let route = ROUTES[(via % 4) as usize];
    let scan = |font: &BitFont, slot: &str| -> Result<(), Verdict> {
        if let Some((n, v)) = scan_font(font) {
            return Err(Verdict::fail(
                format!("invalid_char.glyph_key|source={src}"),
                format!("{what} ({} bytes) loaded through route '{route}'{slot}: {n} keys of BitFont::glyphs are not scalar values, smallest {v:#x}", data.len()),
            ));
        }
        match utf8_err(&font.name) {
            Some(e) => Err(Verdict::fail(format!("invalid_utf8.font_name|source={src}"), format!("{what}: font name is not UTF-8: {e}"))),
            None => Ok(()),
        }
    };
    let scan_all = |buf: &Buffer| -> Result<(), Verdict> {
        let mut fonts: Vec<(&usize, &BitFont)> = buf.font_iter().collect();
        fonts.sort_by_key(|(k, _)| **k);
        for (k, f) in fonts {
            scan(f, &format!(", font slot {k}"))?;
        }
        match scan_buffer_cells(buf).first() {
            Some(b) => Err(Verdict::fail(format!("invalid_char.cell|source={src}"), format!("{what} loaded through route '{route}': {}", b.describe()))),
            None => Ok(()),
        }
    };
    match via % 4 {
        0 => match BitFont::from_bytes("probe", data) {
            Ok(font) => scan(&font, "").map(|_| "ok"),
            Err(_) => Ok("err"),
        },
        1 => {
            let (mut buf, mut caret) = stream::make_terminal(80, 25, 0);
            let mut parser = ansi::Parser::default();
            let mut s = b"\x1bPCTerm:Font:7:".to_vec();
            s.extend(stream::b64(data));
            s.extend(b"\x1b\\");
            let errs = feed(&mut parser, &mut buf, &mut caret, &s);
            scan_all(&buf)?;
            Ok(if buf.get_font(7).is_some() {
                "ok"
            } else if errs > 0 {
                "err"
            } else {
                "not_set"
            })
        }
        2 => {
            let t = icy_template();
            let mut f = Vec::new();
            len_prefixed(&mut f, b"probe");
            f.extend(data);
            let chunks = vec![("ICED".to_string(), t.iced.clone()), ("FONT_2".to_string(), f), ("END".to_string(), Vec::new())];
            match Buffer::from_bytes(Path::new("x.icy"), false, &png_with_chunks(&chunks)) {
                Ok(buf) => {
                    scan_all(&buf)?;
                    Ok(if buf.get_font(2).is_some() { "ok" } else { "not_set" })
                }
                Err(_) => Ok("err"),
            }
        }
        _ => match BitFont::from_bytes("probe", data) {
            Ok(font) => {
                let (mut buf, mut caret) = stream::make_terminal(80, 25, 1);
                let mut parser = ansi::Parser::default();
                buf.set_font(1, font);
                feed(&mut parser, &mut buf, &mut caret, format!("\x1b[0;1 DA\x1b[{probe};2;2;3;4$x").as_bytes());
                scan_all(&buf).map(|_| "ok")
            }
            Err(_) => Ok("err"),
        },
    }
}

fn check_font(c: &FontCase) -> Verdict {
    let data = font_bytes(c);
    let g = font_glyphs(c);
    let fmt = FONT_FMT[(c.fmt % 4) as usize];
    let crosses = g > 0xD800;
    let what = format!("{fmt} font data with {g} glyphs of height {}", font_height(c));
    match font_route(&data, c.via, fmt, &what, 0xD800 + (c.add as u32) * 8) {
        Err(v) => v,
        Ok(outcome) => {
            let class = format!("font:{fmt}:{}:{}", ROUTES[(c.via % 4) as usize], if outcome != "ok" { outcome } else if crosses { "crosses_d800" } else { "below" });
            Verdict::pass(crosses && outcome == "ok", class)
        }
    }
}

// ------------------------------------------------------------------------------------------------
// (iv b) fonts with the optional unicode table (PSF1 mode bits 0x02 / 0x04, PSF2 flags bit 0)
// ------------------------------------------------------------------------------------------------
// Layout from the PSF specification (kbd: psf.h / psf-formats): behind the bitmaps, per glyph: single values, then any number of
// sequences each introduced by a start-of-sequence mark, then a terminator. PSF1: UCS-2 LE units, 0xFFFE starts a sequence, 0xFFFF
// terminates. PSF2: UTF-8, byte 0xFE starts a sequence, byte 0xFF terminates. The unchanged loader ignores the section (PSF1: takes
// it for further bitmaps; PSF2: rejects the length): this is where a "now supported" change would convert numbers to chars.

#[derive(Clone, Debug, Default, Hash, Serialize, Deserialize)]
struct UniList {
    /// single code values (PSF1: low 16 bits are written)
    values: Vec<u32>,
    /// combining sequences
    seqs: Vec<Vec<u32>>,
    /// PSF2 only: raw bytes written in place of a further value (ill-formed UTF-8)
    raw: Bytes,
}

#[derive(Clone, Debug, Hash, Serialize, Deserialize)]
struct UniTabCase {
    psf2: bool,
    /// PSF1: the mode byte (bit 0: 512 glyphs, bit 1: has table, bit 2: has sequences); PSF2: the flags word (bit 0: has table)
    mode: u8,
    height: u8,
    /// PSF2 glyph count (PSF1: 256 / 512 from the mode)
    glyphs: u16,
    /// glyph i gets lists[i mod len] (no lists: empty list) ...
    lists: Vec<UniList>,
    /// ... except glyph pick(special_at, count), which gets `special` when there is one
    special_at: u16,
    special: Option<UniList>,
    /// 0 complete, 1 last glyph's list missing, 2 one list too many, 3 final terminator missing, 4 one stray byte at the end (PSF1: odd length),
    /// 5 a stray value behind the last terminator, 6 no table bytes at all
    variant: u8,
    via: u8,
    mul: u8,
    add: u8,
}

const UNI_EDGES: &[u32] = &[0x41, 0xE9, 0x2592, 0xD7FF, 0xD800, 0xDBFF, 0xDC00, 0xDFFF, 0xE000, 0xFFFD, 0xFFFE, 0xFFFF];
const UNI_EDGES_PSF2: &[u32] = &[0x1_0000, 0x10_FFFF, 0x11_0000, 0x1F_FFFF];
const UNI_VARIANTS: u8 = 7;

fn unitab_glyphs(c: &UniTabCase) -> usize {
    if c.psf2 {
        (c.glyphs as usize).clamp(1, 600)
    } else if c.mode & 1 != 0 {
        512
    } else {
        256
    }
}

/// UTF-8 bit layout applied to any value below 2^21 (so that surrogates and values above 0x10FFFF can be written down)
fn utf8_generalised(v: u32, out: &mut Vec<u8>) {
    let v = v & 0x1F_FFFF;
    if v < 0x80 {
        out.push(v as u8);
    } else if v < 0x800 {
        out.extend([0xC0 | (v >> 6) as u8, 0x80 | (v & 0x3F) as u8]);
    } else if v < 0x1_0000 {
        out.extend([0xE0 | (v >> 12) as u8, 0x80 | ((v >> 6) & 0x3F) as u8, 0x80 | (v & 0x3F) as u8]);
    } else {
        out.extend([0xF0 | (v >> 18) as u8, 0x80 | ((v >> 12) & 0x3F) as u8, 0x80 | ((v >> 6) & 0x3F) as u8, 0x80 | (v & 0x3F) as u8]);
    }
}

fn unitab_list_bytes(c: &UniTabCase, l: &UniList, terminated: bool, out: &mut Vec<u8>) {
    if c.psf2 {
        for v in &l.values {
            utf8_generalised(*v, out);
        }
        out.extend(l.raw.iter());
        for sq in &l.seqs {
            out.push(0xFE);
            for v in sq {
                utf8_generalised(*v, out);
            }
        }
        if terminated {
            out.push(0xFF);
        }
    } else {
        for v in &l.values {
            out.extend((*v as u16).to_le_bytes());
        }
        for sq in &l.seqs {
            out.extend(0xFFFEu16.to_le_bytes());
            for v in sq {
                out.extend((*v as u16).to_le_bytes());
            }
        }
        if terminated {
            out.extend(0xFFFFu16.to_le_bytes());
        }
    }
}

fn unitab_table(c: &UniTabCase) -> Vec<u8> {
    let g = unitab_glyphs(c);
    let variant = c.variant % UNI_VARIANTS;
    let mut out = Vec::new();
    if variant == 6 {
        return out;
    }
    let empty = UniList::default();
    let sp = pick(c.special_at, g);
    let n = match variant {
        1 => g - 1,
        2 => g + 1,
        _ => g,
    };
    for i in 0..n {
        let l = match &c.special {
            Some(s) if i == sp => s,
            _ if c.lists.is_empty() => &empty,
            _ => &c.lists[i % c.lists.len()],
        };
        unitab_list_bytes(c, l, !(variant == 3 && i + 1 == n), &mut out);
    }
    match variant {
        4 => out.push(0x41),
        5 => {
            if c.psf2 {
                out.push(0x42)
            } else {
                out.extend([0x42, 0x00])
            }
        }
        _ => {}
    }
    out
}

fn unitab_bytes(c: &UniTabCase) -> Vec<u8> {
    let h = (c.height as usize).clamp(1, 32);
    let g = unitab_glyphs(c);
    let body = (0..g * h).map(|i| (i as u32).wrapping_mul(c.mul as u32).wrapping_add(c.add as u32) as u8);
    let mut v = if c.psf2 {
        let mut v = Vec::new();
        for f in [0x864a_b572u32, 0, 32, c.mode as u32, g as u32, h as u32, h as u32, 8] {
            v.extend(f.to_le_bytes());
        }
        v
    } else {
        vec![0x36, 0x04, c.mode, h as u8]
    };
    v.extend(body);
    v.extend(unitab_table(c));
    v
}

/// does the table carry something that must never become a char?
fn unitab_danger(c: &UniTabCase) -> bool {
    if c.variant % UNI_VARIANTS == 6 {
        return false;
    }
    let bad = |l: &UniList| {
        let vals = l.values.iter().chain(l.seqs.iter().flatten());
        if c.psf2 {
            vals.clone().any(|v| !is_scalar(*v & 0x1F_FFFF)) || std::str::from_utf8(&l.raw).is_err()
        } else {
            vals.clone().any(|v| (0xD800..=0xDFFF).contains(&(*v as u16)))
        }
    };
    c.lists.iter().any(bad) || c.special.as_ref().map(bad).unwrap_or(false)
}

fn uni_value(psf2: bool) -> BoxedStrategy<u32> {
    let mut edges = UNI_EDGES.to_vec();
    if psf2 {
        edges.extend(UNI_EDGES_PSF2);
    }
    prop_oneof![3 => 0x20u32..=0x7E, 2 => 0xA0u32..=0xFF, 2 => 0x100u32..=0xFFFF, 3 => 0xD800u32..=0xDFFF, 4 => prop::sample::select(edges), 1 => 0u32..=0x1F_FFFF].boxed()
}

fn uni_list(psf2: bool) -> BoxedStrategy<UniList> {
    let raw = if psf2 {
        prop_oneof![5 => Just(Bytes(Vec::new())), 2 => prop::sample::select(BAD_UTF8.to_vec()).prop_map(|b| Bytes(b.iter().copied().filter(|x| *x < 0xFE).collect()))].boxed()
    } else {
        Just(Bytes(Vec::new())).boxed()
    };
    (vec(uni_value(psf2), 0..=3), prop_oneof![4 => Just(Vec::new()), 1 => vec(vec(uni_value(psf2), 1..=2), 1..=2)], raw).prop_map(|(values, seqs, raw)| UniList { values, seqs, raw }).boxed()
}

fn unitab_strategy() -> BoxedStrategy<UniTabCase> {
    let per_fmt = |psf2: bool| {
        (
            prop_oneof![4 => prop::sample::select(if psf2 { vec![1u8, 1, 3] } else { vec![2u8, 3, 6, 7] }), 1 => 0u8..=7],
            prop_oneof![3 => Just(1u8), 1 => 1u8..=16],
            prop_oneof![2 => 1u16..=8, 1 => Just(256u16), 1 => 1u16..=600],
            vec(uni_list(psf2), 0..=4),
            any::<u16>(),
            prop::option::weighted(0.6, uni_list(psf2)),
            prop_oneof![6 => Just(0u8), 4 => 1u8..UNI_VARIANTS],
            prop_oneof![3 => Just(0u8), 1 => Just(1u8), 1 => Just(2u8), 1 => Just(3u8)],
            any::<u8>(),
            any::<u8>(),
        )
            .prop_map(move |(mode, height, glyphs, lists, special_at, special, variant, via, mul, add)| UniTabCase { psf2, mode, height, glyphs, lists, special_at, special, variant, via, mul, add })
    };
    prop_oneof![3 => per_fmt(false), 2 => per_fmt(true)].boxed()
}

/// formats of the table: PSF1 modes with the table bit (2, 3, 6, 7), two without (0, 4: the bytes are there, the bit is not), PSF2 flags 1
const UNITAB_FORMATS: &[(bool, u8)] = &[(false, 2), (false, 3), (false, 6), (false, 7), (false, 0), (false, 4), (true, 1)];

fn unitab_table_total() -> u64 {
    // format x edge value (PSF2: four more) x position (first / middle / last glyph; in a sequence) x variant x route
    UNITAB_FORMATS.len() as u64 * (UNI_EDGES.len() + UNI_EDGES_PSF2.len()) as u64 * 4 * UNI_VARIANTS as u64 * 4
}

fn unitab_table_case(mut i: u64) -> UniTabCase {
    let mut take = |n: u64| {
        let r = i % n;
        i /= n;
        r
    };
    let via = take(4) as u8;
    let variant = take(UNI_VARIANTS as u64) as u8;
    let pos = take(4);
    let e = take((UNI_EDGES.len() + UNI_EDGES_PSF2.len()) as u64) as usize;
    let (psf2, mode) = UNITAB_FORMATS[take(UNITAB_FORMATS.len() as u64) as usize];
    let value = if e < UNI_EDGES.len() {
        UNI_EDGES[e]
    } else if psf2 {
        UNI_EDGES_PSF2[e - UNI_EDGES.len()]
    } else {
        // PSF1 has no values above 16 bits: the slot is used for further surrogates
        [0xD801, 0xDB7F, 0xDC01, 0xDFFE][e - UNI_EDGES.len()]
    };
    let special = if pos == 3 { UniList { values: vec![0x41], seqs: vec![vec![0x61, value]], raw: Bytes(Vec::new()) } } else { UniList { values: vec![0x263A, value], seqs: Vec::new(), raw: Bytes(Vec::new()) } };
    UniTabCase {
        psf2,
        mode,
        height: 1,
        glyphs: 8,
        lists: vec![UniList { values: vec![0x2592], seqs: Vec::new(), raw: Bytes(Vec::new()) }, UniList::default()],
        special_at: [0u16, 0x8000, 0xFFFF, 0x4000][pos as usize],
        special: Some(special),
        variant,
        via,
        mul: 3,
        add: 1,
    }
}

fn unitab_src(c: &UniTabCase) -> &'static str {
    if c.psf2 {
        "psf2_unitab"
    } else {
        "psf1_unitab"
    }
}

fn check_unitab(c: &UniTabCase) -> Verdict {
    let data = unitab_bytes(c);
    let src = unitab_src(c);
    let table = unitab_table(c);
    let what = format!(
        "{} font, {} {:#04x}, {} glyphs of height {}, followed by a unicode table of {} bytes (variant {}: \"{}\"{})",
        if c.psf2 { "PSF2" } else { "PSF1" },
        if c.psf2 { "flags" } else { "mode" },
        c.mode,
        unitab_glyphs(c),
        (c.height as usize).clamp(1, 32),
        table.len(),
        c.variant % UNI_VARIANTS,
        escape(&table[..table.len().min(40)]),
        if table.len() > 40 { "..." } else { "" }
    );
    let probe = c.special.as_ref().and_then(|s| s.values.last().copied()).unwrap_or(0xD800) & 0xFFFF;
    match font_route(&data, c.via, src, &what, probe) {
        Err(v) => v,
        Ok(outcome) => {
            let danger = unitab_danger(c);
            let has_bit = if c.psf2 { c.mode & 1 != 0 } else { c.mode & 2 != 0 };
            let class = format!(
                "{src}:{}:{}{}{}:{outcome}",
                ROUTES[(c.via % 4) as usize],
                if has_bit { "tab_bit" } else { "no_bit" },
                if c.variant % UNI_VARIANTS == 0 { "+complete" } else { "+malformed" },
                if danger { "+danger" } else { "" }
            );
            Verdict::pass(danger && has_bit && outcome == "ok", class)
        }
    }
}

// ------------------------------------------------------------------------------------------------
// (v) macros
// ------------------------------------------------------------------------------------------------

#[derive(Clone, Debug, Hash, Serialize, Deserialize)]
enum MacroItem {
    Byte(u8),
    /// `!count;` hex bytes `;`
    Repeat(u8, Vec<u8>),
    /// the same with a count that is not reduced (size-limit probes; hex encoding only, once in text encoding)
    BigRepeat(u32, Vec<u8>),
}

#[derive(Clone, Debug, Hash, Serialize, Deserialize)]
struct MacroCase {
    id: u8,
    /// true: hex encoding (Pen = 1); false: text encoding (Pen = 0; only bytes the DCS string can carry: no C0)
    hex: bool,
    lower: bool,
    body: Vec<MacroItem>,
    invoke: u8,
    #[serde(default)]
    state: TermState,
}

fn macro_stream(c: &MacroCase) -> Vec<u8> {
    let mut v = format!("\x1bP{};0;{}!z", c.id, if c.hex { 1 } else { 0 }).into_bytes();
    let hexb = |b: u8| if c.lower { format!("{b:02x}") } else { format!("{b:02X}") }.into_bytes();
    let textb = |b: u8| if b < 0x20 || b == 0x7F { b'.' } else { b };
    for it in &c.body {
        match it {
            MacroItem::Byte(b) => {
                if c.hex {
                    v.extend(hexb(*b));
                } else {
                    v.push(textb(*b));
                }
            }
            MacroItem::Repeat(n, bs) => {
                if c.hex {
                    v.extend(format!("!{};", n % 9).into_bytes());
                    for b in bs {
                        v.extend(hexb(*b));
                    }
                    v.push(b';');
                } else {
                    for _ in 0..(n % 9) {
                        v.extend(bs.iter().map(|b| textb(*b)));
                    }
                }
            }
            MacroItem::BigRepeat(n, bs) => {
                if c.hex {
                    v.extend(format!("!{n};").into_bytes());
                    for b in bs {
                        v.extend(hexb(*b));
                    }
                    v.push(b';');
                } else {
                    v.extend(bs.iter().map(|b| textb(*b)));
                }
            }
        }
    }
    v.extend(b"\x1b\\");
    for _ in 0..c.invoke.min(3) {
        v.extend(format!("\x1b[{}*z", c.id).into_bytes());
    }
    v
}

fn macro_byte() -> BoxedStrategy<u8> {
    prop_oneof![5 => 0x80u8..=0xFF, 2 => 0x20u8..=0x7E, 1 => any::<u8>()].boxed()
}

fn macro_strategy() -> BoxedStrategy<MacroCase> {
    let item = prop_oneof![
        8 => macro_byte().prop_map(MacroItem::Byte),
        2 => (0u8..=8, vec(macro_byte(), 0..=4)).prop_map(|(n, b)| MacroItem::Repeat(n, b)),
        // byte runs that would decode to a surrogate / a value above 0x10FFFF / nothing if the body were ever taken for UTF-8
        1 => (1u8..=2, prop::sample::select(BAD_UTF8.to_vec())).prop_map(|(n, b)| MacroItem::Repeat(n, b.to_vec())),
    ];
    (prop_oneof![3 => 0u8..=3, 1 => 0u8..=63], prop::bool::weighted(0.75), any::<bool>(), vec(item, 0..=12), prop_oneof![1 => Just(0u8), 6 => Just(1u8), 2 => Just(2u8)], term_state(12))
        .prop_map(|(id, hex, lower, body, invoke, state)| MacroCase { id, hex, lower, body, invoke, state })
        .boxed()
}

const MACRO_TABLE_BASE: u64 = 1024 + 2 * BAD_UTF8.len() as u64;

/// the byte table, once per state: fresh; 0xE000-glyph font selected + insert mode + margins; Unicode buffer + every mode
fn macro_table(i: u64) -> MacroCase {
    let state = match i / MACRO_TABLE_BASE {
        0 => TermState::default(),
        1 => TermState { slot: 1, font: 6, dcs: false, modes: 6 },
        _ => TermState { slot: 0, font: 0, dcs: false, modes: 63 },
    };
    let i = i % MACRO_TABLE_BASE;
    if i >= 1024 {
        let j = (i - 1024) as usize;
        let body = vec![MacroItem::Byte(b'<'), MacroItem::Repeat(1, BAD_UTF8[j % BAD_UTF8.len()].to_vec()), MacroItem::Byte(b'>')];
        return MacroCase { id: 2, hex: j < BAD_UTF8.len(), lower: false, body, invoke: 1, state };
    }
    let b = (i % 256) as u8;
    let variant = i / 256;
    let body = match variant {
        2 => vec![MacroItem::Byte(b'<'), MacroItem::Repeat(3, vec![b]), MacroItem::Byte(b'>')],
        _ => vec![MacroItem::Byte(b'<'), MacroItem::Byte(b), MacroItem::Byte(b'>')],
    };
    MacroCase { id: 1, hex: variant != 3, lower: variant == 1, body, invoke: 1, state }
}

/// Size-limit probes: a repeat section that makes the stored macro body as long as a limit would plausibly be (2^15-1, 2^16, 2^19,
/// 32767*16 +-2, 2^20 bytes or characters), with content that is two bytes per character in the stored String, at both parities.
const MACRO_BIG_COUNTS: &[u32] = &[32766, 32767, 65535, 65536, 131071, 262136, 262137, 300000, 524271, 524272, 524273, 524274, 1048575, 1048576];
const MACRO_BIG_BODIES: &[&[u8]] = &[b"\xE9", b"\x41\xE9", b"\xE9\x41", b"\xC3\xA9", b"\xF0\x9F\x98\x80", b"\xE9\x41\x41"];
/// the stored body stays below this many bytes (a high byte is stored as two)
const MACRO_BIG_MAX: u64 = 2_300_000;

fn macro_size_cases() -> Vec<MacroCase> {
    let mut v = Vec::new();
    for &n in MACRO_BIG_COUNTS {
        for body in MACRO_BIG_BODIES {
            let stored: u64 = body.iter().map(|b| if *b >= 0x80 { 2u64 } else { 1 }).sum::<u64>() * n as u64;
            if stored > MACRO_BIG_MAX {
                continue;
            }
            for prefix in 0..=2usize {
                let mut items: Vec<MacroItem> = std::iter::repeat(MacroItem::Byte(b'A')).take(prefix).collect();
                items.push(MacroItem::BigRepeat(n, body.to_vec()));
                items.push(MacroItem::Byte(0xE9));
                v.push(MacroCase { id: 3, hex: true, lower: false, body: items, invoke: 1, state: TermState::default() });
            }
        }
    }
    v
}

fn macro_high_bytes(c: &MacroCase) -> usize {
    c.body
        .iter()
        .map(|it| match it {
            MacroItem::Byte(b) => usize::from(*b >= 0x80),
            MacroItem::Repeat(n, bs) => {
                if n % 9 > 0 {
                    bs.iter().filter(|b| **b >= 0x80).count()
                } else {
                    0
                }
            }
            MacroItem::BigRepeat(n, bs) => {
                if *n > 0 {
                    bs.iter().filter(|b| **b >= 0x80).count()
                } else {
                    0
                }
            }
        })
        .sum()
}

fn check_macro(c: &MacroCase) -> Verdict {
    let (mut buf, mut caret) = stream::make_terminal(80, 25, 0);
    let mut parser = ansi::Parser::default();
    let how = state_apply(&c.state, &mut parser, &mut buf, &mut caret);
    let v = check_macro_in(c, &how, &mut parser, &mut buf, &mut caret);
    state_release(&c.state, &mut buf);
    v
}

fn macro_src(c: &MacroCase) -> String {
    format!("{}{}", if c.hex { "hex_macro" } else { "text_macro" }, state_key(&c.state))
}

fn check_macro_in(c: &MacroCase, how: &str, parser: &mut ansi::Parser, buf: &mut Buffer, caret: &mut icy_engine::Caret) -> Verdict {
    let how = if how.is_empty() { String::new() } else { format!(" [terminal state: {how}]") };
    let data = macro_stream(c);
    let fed = feed_caught(parser, buf, caret, &data);
    let src = macro_src(c);
    if let Some(b) = scan_buffer_cells(buf).first() {
        return Verdict::fail(format!("invalid_char.cell|source={src}"), format!("after defining and invoking a macro (stream \"{}\"){how}: {}", escape(&data), b.describe()));
    }
    for (which, s) in [("parse_string", &parser.parse_string), ("macro_dcs", &parser.macro_dcs)] {
        if let Some(e) = utf8_err(s) {
            return Verdict::fail(format!("invalid_utf8.{which}|source={src}"), format!("after the stream \"{}\"{how}: parser.{which} is not UTF-8: {e}", escape(&data)));
        }
    }
    let errs = match fed {
        Ok(e) => e,
        // the body is arbitrary bytes that are replayed as terminal input: a panic with every stored value valid is C01's subject
        Err(p) => return Verdict::discard(format!("engine {p} (no invalid value stored)")),
    };
    let high = macro_high_bytes(c);
    let printed = buf.layers[0].lines.iter().any(|l| !l.chars.is_empty());
    let nt = high > 0 && c.invoke > 0;
    Verdict::pass(
        nt,
        format!("{}:{}:{}{}{}", if c.hex { "hex_macro" } else { "text_macro" }, state_class(&c.state), if high > 0 { "high_bytes" } else { "ascii" }, if printed { "+printed" } else { "" }, if errs > 0 { "+err" } else { "" }),
    )
}

// ------------------------------------------------------------------------------------------------
// (vi) scalar streams: parser input is a `char`, a front end on a UTF-8 connection feeds every Unicode scalar value
// ------------------------------------------------------------------------------------------------

const EMU_ANSILIKE: u16 = 0x01FF; // ansi (5 configurations), avatar, pcboard, ctrla, renegade: all fall back to the ANSI parser
const EMU_ALL: u16 = 0x3FFF;
const EMU_AVT: u16 = 1 << 5;
const EMU_PCB: u16 = 1 << 6;
const EMU_CTRLA: u16 = 1 << 7;
const EMU_REN: u16 = 1 << 8;
const EMU_PET: u16 = 1 << 9;
const EMU_ATA: u16 = 1 << 10;
const EMU_VD: u16 = (1 << 11) | (1 << 12);

/// placeholder byte of the templates: replaced by the character under test (every other byte is fed as the char of that value)
const PH: u8 = 0xF8;

/// (emulations, template): where the wide character stands relative to the lead-in bytes of the emulation
const SCALAR_TEMPLATES: &[(u16, &[u8])] = &[
    (EMU_ALL, b"\xF8"),
    (EMU_ALL, b"ab\xF8cd"),
    (EMU_ALL, b"\xF8\xF8\xF8\r\n\xF8"),
    (EMU_ALL, b"\x1b\xF8"),
    (EMU_ALL, b"\x1b\xF8A"),
    (EMU_ALL, b"\xF8\x08\x7f"),
    (EMU_ALL, b"\x0c\xF8"),
    // ANSI: escape, CSI parameter / intermediate / final position, REP target and count, strings, macros, music
    (EMU_ANSILIKE, b"\x1b[\xF8"),
    (EMU_ANSILIKE, b"\x1b[\xF8m"),
    (EMU_ANSILIKE, b"\x1b[1;\xF8;2m"),
    (EMU_ANSILIKE, b"\x1b[1\xF8"),
    (EMU_ANSILIKE, b"\x1b[?\xF8h"),
    (EMU_ANSILIKE, b"\x1b[?25\xF8"),
    (EMU_ANSILIKE, b"\x1b[1 \xF8"),
    (EMU_ANSILIKE, b"\x1b[1$\xF8"),
    (EMU_ANSILIKE, b"\x1b[1*\xF8"),
    (EMU_ANSILIKE, b"\x1b[=\xF8"),
    (EMU_ANSILIKE, b"\x1b[<\xF8"),
    (EMU_ANSILIKE, b"\x1b[!\xF8"),
    (EMU_ANSILIKE, b"\x1b\xF8[1m"),
    (EMU_ANSILIKE, b"\xF8\x1b[3b"),
    (EMU_ANSILIKE, b"a\xF8\x1b[2b\x1b[1;1H\x1b[1@\x1b[1P"),
    (EMU_ANSILIKE, b"a\x1b[\xF8b"),
    (EMU_ANSILIKE, b"\x1b[0;\xF8 D"),
    (EMU_ANSILIKE, b"\x1b[\xF8;1;1;2;2$x"),
    (EMU_ANSILIKE, b"\x1b[65;1;1;2;\xF8$x"),
    (EMU_ANSILIKE, b"\x1bP1;0;0!za\xF8b\x1b\\\x1b[1*z"),
    (EMU_ANSILIKE, b"\x1bP1;0;0!z\xF8\x1b\\\x1b[1*z\x1b[1*z"),
    (EMU_ANSILIKE, b"\x1bP1;0;1!z4\xF841\x1b\\\x1b[1*z"),
    (EMU_ANSILIKE, b"\x1bP1;0;1!z\xF8141\x1b\\\x1b[1*z"),
    (EMU_ANSILIKE, b"\x1bP1;0;1!z41!3;\xF8;42\x1b\\\x1b[1*z"),
    (EMU_ANSILIKE, b"\x1bP1;0;1!z41!\xF8;42;\x1b\\\x1b[1*z"),
    (EMU_ANSILIKE, b"\x1bP1;\xF8;0!zab\x1b\\\x1b[1*z"),
    (EMU_ANSILIKE, b"\x1bP\xF8"),
    (EMU_ANSILIKE, b"\x1bPab\x1b\xF8"),
    (EMU_ANSILIKE, b"\x1bPab\x1b[\xF8*z"),
    (EMU_ANSILIKE, b"\x1bPCTerm:Font:\xF8:AAAA\x1b\\"),
    (EMU_ANSILIKE, b"\x1bPCTerm:Font:1:AA\xF8A\x1b\\"),
    (EMU_ANSILIKE, b"\x1b]8;;http://\xF8\x1b\\x\x1b]8;;\x1b\\"),
    (EMU_ANSILIKE, b"\x1b]4;1;rgb:\xF8/00/00\x1b\\"),
    (EMU_ANSILIKE, b"\x1b]\xF8"),
    (EMU_ANSILIKE, b"\x1b]8\x1b\xF8"),
    (EMU_ANSILIKE, b"\x1b_\xF8\x1b\\"),
    (EMU_ANSILIKE, b"\x1b_a\x1b\xF8"),
    (EMU_ANSILIKE, b"\x1b[M\xF8\x0e"),
    (EMU_ANSILIKE, b"\x1b[MT120O3\xF8C\x0e"),
    (EMU_ANSILIKE, b"\x1b[N\xF8\x0e"),
    (EMU_ANSILIKE, b"\x1b[|\xF8\x0e"),
    // Avatar: command byte, colour, repeated character, repeat count, goto
    (EMU_AVT, b"\x16\xF8"),
    (EMU_AVT, b"\x16\x01\xF8x"),
    (EMU_AVT, b"\x19\xF8\x03"),
    (EMU_AVT, b"\x19a\xF8"),
    (EMU_AVT, b"\x16\x08\xF8\xF8x"),
    (EMU_AVT, b"\x16\x08\x02\xF8x"),
    (EMU_AVT, b"\x19\x1b\x02[\xF8"),
    // PCBoard @ codes
    (EMU_PCB, b"@\xF8"),
    (EMU_PCB, b"@X\xF80x"),
    (EMU_PCB, b"@X0\xF8x"),
    (EMU_PCB, b"@X\xF8\xF8x"),
    (EMU_PCB, b"@CLS\xF8@"),
    (EMU_PCB, b"@\xF8X07"),
    // Ctrl-A codes
    (EMU_CTRLA, b"\x01\xF8"),
    (EMU_CTRLA, b"\x01\xF8\x01Rx"),
    (EMU_CTRLA, b"\x01R\xF8"),
    // Renegade pipe codes
    (EMU_REN, b"|\xF80x"),
    (EMU_REN, b"|0\xF8x"),
    (EMU_REN, b"|\xF8\xF8"),
    (EMU_REN, b"|1\xF8"),
    // PETSCII control codes
    (EMU_PET, b"\x12\xF8"),
    (EMU_PET, b"\x0e\xF8\x8e\xF8"),
    (EMU_PET, b"\x9d\xF8"),
    (EMU_PET, b"\xff\xF8"),
    (EMU_PET, b"\xF8\x14\x94"),
    (EMU_PET, b"\x1c\xF8\x05\xF8"),
    // ATASCII: escape, inverse video, line insert / delete
    (EMU_ATA, b"\x1b\x1b\xF8"),
    (EMU_ATA, b"\x1b\xF8\x1b\xF8"),
    (EMU_ATA, b"\x7d\xF8"),
    (EMU_ATA, b"\xF8\xfe\xff"),
    (EMU_ATA, b"\x9b\xF8\x9d\x9c"),
    // Viewdata / Mode 7: ESC codes, graphics, hold graphics
    (EMU_VD, b"\x1bA\xF8"),
    (EMU_VD, b"\x1e\xF8"),
    (EMU_VD, b"\x1bW\xF8"),
    (EMU_VD, b"\x1bW\x1b^\xF8\x1bA\xF8"),
    (EMU_VD, b"\x1bM\xF8\r\n\xF8"),
    (EMU_VD, b"\x1b]\xF8"),
];

/// Avatar templates in which the character under test is a repeat count or a screen coordinate. The pinned engine takes `ch as usize` /
/// `ch as i32` there without a bound (1.1 million repetitions; a document buffer allocates 1.1 million rows for a goto): that is a
/// resource defect (C03's subject) which would bury this check in heap-cap kills, so these positions get small wide characters only.
const SCALAR_NUMERIC_ROLE: &[&[u8]] = &[b"\x19a\xF8", b"\x16\x08\xF8\xF8x", b"\x16\x08\x02\xF8x"];
const SCALAR_SMALL: &[u32] = &[0x100, 0x7FF, 0x800];

fn scalar_numeric_role(template: u16) -> bool {
    SCALAR_NUMERIC_ROLE.contains(&SCALAR_TEMPLATES[template as usize % SCALAR_TEMPLATES.len()].1)
}

/// characters of the table: boundaries of the encoding forms and supplementary characters whose low 16 bits are a surrogate
/// (a parser that narrows its input to 16 bits sees 0xD800..0xDFFF; ATASCII subtracts 0x80 first)
fn scalar_points() -> Vec<u32> {
    let mut v = vec![0x100, 0x7FF, 0x800, 0xD7FF, 0xE000, 0xFFFD, 0xFFFE, 0xFFFF, 0x1_0000, 0x1_D800, 0x1_DFFF, 0x2_D800, 0x2_DBFF, 0x2_DC00, 0x2_DFFF, 0x10_FFFF];
    for k in [1u32, 2, 0x10] {
        for low in [0xD800u32, 0xD880, 0xDBFF, 0xDC00, 0xDFFF, 0xE07F] {
            let c = (k << 16) | low;
            if !v.contains(&c) {
                v.push(c);
            }
        }
    }
    v
}

const BUFFER_TYPES: &[&str] = &["CP437", "Unicode", "Petscii", "Atascii", "Viewdata"];

fn buffer_type(i: u8) -> icy_engine::BufferType {
    match i % 5 {
        0 => icy_engine::BufferType::CP437,
        1 => icy_engine::BufferType::Unicode,
        2 => icy_engine::BufferType::Petscii,
        3 => icy_engine::BufferType::Atascii,
        _ => icy_engine::BufferType::Viewdata,
    }
}

/// file extension whose loader decodes a BOM-marked file as UTF-8 and feeds the emulation's parser
fn emu_file_ext(emu: u8) -> Option<&'static str> {
    match emu {
        0 => Some("ans"),
        5 => Some("avt"),
        6 => Some("pcb"),
        7 => Some("msg"),
        8 => Some("an1"),
        13 => Some("asc"),
        _ => None,
    }
}

#[derive(Clone, Debug, Hash, Serialize, Deserialize)]
struct ScalarPiece {
    /// index into SCALAR_TEMPLATES (taken modulo; templates of other emulations are legal input too)
    template: u16,
    /// the character put at the placeholder positions (a non-scalar number is replaced by U+FFFD: the input domain is `char`)
    ch: u32,
}

#[derive(Clone, Debug, Hash, Serialize, Deserialize)]
struct ScalarCase {
    /// index into icyv::stream::EMUS
    emu: u8,
    /// index into BUFFER_TYPES
    btype: u8,
    /// document buffer (is_terminal_buffer = false) instead of a terminal
    doc: bool,
    /// the chars go through the file loader of the emulation (UTF-8 BOM + UTF-8 text) instead of print_char; only where emu_file_ext is Some
    file: bool,
    pieces: Vec<ScalarPiece>,
}

fn scalar_chars(c: &ScalarCase) -> Vec<char> {
    let mut out = Vec::new();
    for p in &c.pieces {
        let x = char::from_u32(p.ch).unwrap_or('\u{FFFD}');
        for b in SCALAR_TEMPLATES[p.template as usize % SCALAR_TEMPLATES.len()].1 {
            out.push(if *b == PH { x } else { *b as char });
        }
    }
    out
}

/// (template, emulation) pairs of the table
fn scalar_pairs() -> Vec<(u16, u8)> {
    let mut v = Vec::new();
    for (t, (mask, _)) in SCALAR_TEMPLATES.iter().enumerate() {
        for emu in 0..stream::EMUS.len() as u8 {
            if mask & (1 << emu) != 0 {
                v.push((t as u16, emu));
            }
        }
    }
    v
}

/// table: (template, emulation) x character x (5 buffer types x terminal/document, + the file route where there is one)
fn scalar_table(pairs: &[(u16, u8)], points: &[u32], i: u64) -> ScalarCase {
    let variant = i % 11;
    let ch = points[((i / 11) % points.len() as u64) as usize];
    let (template, emu) = pairs[((i / 11 / points.len() as u64) % pairs.len() as u64) as usize];
    let file = variant == 10 && emu_file_ext(emu).is_some();
    // emulations without a BOM-aware loader use the slot for a second template instance on a Unicode document
    let (btype, doc) = if variant == 10 { (1, true) } else { ((variant % 5) as u8, variant >= 5) };
    let ch = if scalar_numeric_role(template) { SCALAR_SMALL[((i / 11) % SCALAR_SMALL.len() as u64) as usize] } else { ch };
    let mut pieces = vec![ScalarPiece { template, ch }];
    if variant == 10 && !file {
        pieces.push(ScalarPiece { template, ch });
    }
    ScalarCase { emu, btype, doc, file, pieces }
}

fn scalar_strategy() -> BoxedStrategy<ScalarCase> {
    let points = scalar_points();
    let ch = prop_oneof![
        6 => prop::sample::select(points),
        4 => (1u32..=0x10, 0xD700u32..=0xE100).prop_map(|(k, low)| (k << 16) | low),
        2 => 0x1_0000u32..=0x10_FFFF,
        2 => 0x100u32..=0xFFFF,
        1 => 0u32..=0xFF,
    ];
    let piece = (0u16..SCALAR_TEMPLATES.len() as u16, ch).prop_map(|(template, ch)| ScalarPiece { template, ch });
    (0u8..stream::EMUS.len() as u8, any::<u16>(), 0u8..5, any::<bool>(), prop::bool::weighted(0.2), vec(piece, 1..=4))
        .prop_map(|(emu, tsel, btype, doc, file, mut pieces)| {
            // the first piece is a template of the emulation (the others may be any)
            let own: Vec<u16> = SCALAR_TEMPLATES.iter().enumerate().filter(|(_, (m, _))| m & (1 << emu) != 0).map(|(t, _)| t as u16).collect();
            pieces[0].template = own[pick(tsel, own.len())];
            for p in pieces.iter_mut() {
                if emu == 5 && scalar_numeric_role(p.template) && p.ch > 0x800 {
                    p.ch = 0x100 + p.ch % 0x701;
                }
            }
            ScalarCase { emu, btype, doc, file: file && emu_file_ext(emu).is_some(), pieces }
        })
        .boxed()
}

fn scalar_src(c: &ScalarCase) -> String {
    // one class per parser (the ANSI configurations differ only in music handling)
    let name = stream::EMUS[c.emu as usize % stream::EMUS.len()];
    format!("scalar_stream:{}{}", name.split('+').next().unwrap_or(name), if c.file { ":file" } else { "" })
}

fn check_scalar(c: &ScalarCase) -> Verdict {
    let emu = c.emu % stream::EMUS.len() as u8;
    let chars = scalar_chars(c);
    let src = scalar_src(c);
    let shown: String = chars.iter().take(60).map(|ch| if (' '..='~').contains(ch) { ch.to_string() } else { format!("\\u{{{:x}}}", *ch as u32) }).collect();
    let wide = chars.iter().filter(|ch| **ch as u32 > 0xFF).count();
    let surrogate_low = chars.iter().any(|ch| *ch as u32 > 0xFFFF && (0xD800..=0xE07F).contains(&(*ch as u32 & 0xFFFF)));
    let ext = if c.file { emu_file_ext(emu) } else { None };
    let run = std::panic::catch_unwind(std::panic::AssertUnwindSafe(|| -> Result<Buffer, String> {
        if let Some(ext) = ext {
            let mut bytes = vec![0xEF, 0xBB, 0xBF];
            bytes.extend(chars.iter().collect::<String>().into_bytes());
            Buffer::from_bytes(Path::new(&format!("x.{ext}")), false, &bytes).map_err(|e| e.to_string())
        } else {
            let (w, h) = if emu == stream::EMU_VIEWDATA || emu == stream::EMU_MODE7 { (40, 24) } else { (80, 25) };
            let mut buf = Buffer::new((w, h));
            buf.is_terminal_buffer = !c.doc;
            buf.buffer_type = buffer_type(c.btype);
            let mut caret = icy_engine::Caret::default();
            let mut parser = stream::make_parser(emu);
            for ch in &chars {
                let _ = parser.print_char(&mut buf, 0, &mut caret, *ch);
            }
            Ok(buf)
        }
    }));
    let how = match ext {
        Some(ext) => format!("loading x.{ext} = UTF-8 BOM + UTF-8 of \"{shown}\""),
        None => format!("feeding \"{shown}\" char by char to the {} parser on a {} {} buffer", stream::EMUS[emu as usize], BUFFER_TYPES[(c.btype % 5) as usize], if c.doc { "document" } else { "terminal" }),
    };
    let buf = match run {
        Ok(Ok(b)) => b,
        Ok(Err(_)) => return Verdict::pass(false, format!("{src}:load_err")),
        Err(_) => {
            let rec = icyv::panics::take().unwrap_or_default();
            // every stored value may still be valid: a panic on wide input is C01's subject, not this property's
            return Verdict::discard(format!("engine panic \"{}\" at {}:{} ({how})", rec.msg, rec.file, rec.line));
        }
    };
    if let Some(b) = scan_buffer_cells(&buf).first() {
        return Verdict::fail(format!("invalid_char.cell|source={src}"), format!("after {how}: {}", b.describe()));
    }
    if let Some((which, e)) = scan_buffer_strings(&buf).into_iter().next() {
        return Verdict::fail(format!("invalid_utf8.{which}|source={src}"), format!("after {how}: {which} is not UTF-8: {e}"));
    }
    let class = format!(
        "{src}:{}:{}",
        if ext.is_some() { "bom_file".to_string() } else { format!("{}{}", BUFFER_TYPES[(c.btype % 5) as usize], if c.doc { "+doc" } else { "" }) },
        if surrogate_low { "low16_surrogate" } else if wide > 0 { "wide" } else { "latin1" }
    );
    Verdict::pass(wide > 0, class)
}

// ------------------------------------------------------------------------------------------------

fn main() {
    // an invalid value aborts the worker under the UB-check profile; thousands of such cases must not each write a core file
    unsafe {
        let no_core = libc::rlimit { rlim_cur: 0, rlim_max: 0 };
        libc::setrlimit(libc::RLIMIT_CORE, &no_core);
    }
    let mut eng = Engine::new("C10");
    // A failed UB check of the standard library is a panic that cannot unwind: the process aborts after the panic hook ran. The
    // engine's hook would first symbolise a backtrace (~150 ms in a fresh worker); with thousands of aborting cases that is
    // all the run does. Abort at once instead: the verdict (worker killed by SIGABRT, keyed by input class) is the same.
    let engine_hook = std::panic::take_hook();
    std::panic::set_hook(Box::new(move |info| {
        if info.payload_as_str().is_some_and(|m| m.starts_with("unsafe precondition(s) violated")) {
            unsafe { libc::abort() }
        }
        engine_hook(info)
    }));
    eng.rule(
        "Five input families, each built from a plain model and run in worker processes. decfra: `CSI Pc;Pt;Pl;Pb;Pr $ x` on an 80x25 ANSI terminal, Pc enumerated over boundary windows \
         (quick: 0..0xFF, 0xD700..0xE0FF, 0x10FF00..0x1100FF, 2^k+-2, 2^31-1; thorough: every value 0..=0x110100) and generated over 0..=2^31-1 (plus longer digit strings), with \
         attribute/insert-mode preludes and scrolling/copying suffixes; in front of the sequence a TERMINAL STATE: fresh, or a font slot 0..3 holding a custom font \
         (raw 256, PSF1 512, PSF2 512 / 0xD801 / 0xDC00 / 0xE000 / 2^16 / 2^17 glyphs; set with Buffer::set_font, ~1 % as CTerm font DCS) and selected with `CSI 0;n SP D`, \
         plus any of ice colours, insert mode, top/bottom and left/right margins, origin mode, Unicode buffer type; decfra_states repeats the windows 0xF8..0x107, 0x1F8..0x207, \
         0xD700..0xE0FF, 2^16+-8, 2^17+-8, 0x10FFF8..0x110007 for ten such states (boundary windows only for the two largest fonts and the DCS state); the macro parts use the same states. clipboard: records for Layer::from_clipboard_data, all 65536 char values enumerated, sizes 0..=8 x 0..=5 generated. \
         icy: .icy files (engine-written template, zTXt payloads rebuilt from doc/FileFormats/ICEDFormat.md) whose LAYER_0 / LAYER_0~k chunks carry long-form char fields over all 32 bits, \
         whose title / FONT name byte strings include ill-formed UTF-8 (table of 21 classic forms, enumerated), optional SAUCE chunk with arbitrary CP437 bytes; 0..=2 FONT_n chunks in front of the layer (fonts of 256 / 512 / 0xD801 / 0xDC00 / 0xE000 / 2^16 / 2^17 glyphs, ~3 % of generated files; icy_fonts: 8 fonts x cell font page n / n+1 / 0 x first / continuation chunk x long / short records, each file walking 0xD7F0..0xE010, glyph count +-2, 0x10FFFF, 0x110000, 2^31-1, 2^32-1 through its cells). fonts: PSF1 / PSF2 / raw \
         data with 0..=2^17 glyphs (height 1..32, at most 2^18 bytes) through BitFont::from_bytes, the CTerm font DCS, an .icy FONT chunk and Buffer::set_font + selection + drawing. font_unitab: PSF1 (mode bits 0x01/0x02/0x04 in every \
         combination) and PSF2 (flags bit 0) fonts followed by the optional unicode table written from the PSF specification: per glyph 0..=3 values, optional sequences, terminator; values from \
         {ASCII, Latin-1, 0xD7FF, 0xD800, 0xDBFF, 0xDC00, 0xDFFF, 0xE000, 0xFFFD, 0xFFFE, 0xFFFF, any 16-bit; PSF2 also > 0xFFFF, > 0x10FFFF and ill-formed UTF-8}; table complete, one list short / long, \
         terminator missing, stray byte / value at the end, absent; table bit set or not; the same four routes (format x edge value x position x variant x route enumerated). macros: DECDMAC definitions in hex and text \
         encoding with bytes 0x80..0xFF (all 256 values x 4 forms and 21 ill-formed UTF-8 byte runs x 2 encodings enumerated), invoked 0..=2 times; macro_sizes: hex repeat sections with counts 32766 / 32767 / 65535 / 65536 / 131071 / 262136 / 262137 / 300000 / 524271..524274 / 2^20-1 / 2^20 x bodies E9, 41E9, E941, C3A9, F09F9880, E94141 x 0..=2 ASCII bytes in front (stored body <= 2.3 MB), invoked once. scalar_streams: parser input as `char` above U+00FF (a front end on a UTF-8 connection decodes before feeding): every parser (14 configurations) x 5 buffer types x \
         terminal / document buffer x 30 characters (encoding-form boundaries, supplementary characters whose low 16 bits are 0xD800..0xE07F) x ~85 placements (alone, after each lead-in of the \
         emulation, CSI parameter / intermediate / final, REP target and count, avatar repeat char and count, @X / Ctrl-A / pipe codes, ATASCII / Viewdata escapes, OSC / APS / DCS strings, macro bodies, \
         music) enumerated, 1..=4 such pieces generated; the same text as BOM-marked UTF-8 file through the .ans/.avt/.pcb/.msg/.an1/.asc loaders. \
         Observation: the raw u32 of every stored cell (Line::chars), of every cell returned by Layer::get_char / Buffer::get_char and of every BitFont::glyphs key via read_volatile; \
         from_utf8 on a volatile byte copy of every layer title, font name, SAUCE string, parser.parse_string / macro_dcs. Err / None results are accepted. \
         Non-trivial: the input carries a non-scalar number (surrogate or > 0x10FFFF) in a char field the loader reaches (non-empty DECFRA rectangle; clipboard cell inside w*h; icy cell in a \
         chunk whose rows are stored; glyph count > 0xD800 with the font accepted; a surrogate / non-scalar / ill-formed entry in a unicode table whose mode bit is set, font accepted), ill-formed UTF-8 in a title / font name, a byte >= 0x80 in a SAUCE text field, a byte >= 0x80 in an invoked macro body, or an input char above U+00FF in a scalar stream. Cases that fail are not counted (they are violations or excluded_known). Distinct by case hash.",
    );
    eng.assume("a scan sees materialised values only; an invalid char that exists transiently (e.g. as a HashMap lookup key in BitFont::calculate_checksum / to_psf2_bytes) leaves no trace and is not observed");
    eng.assume("SAUCE record layout from the SAUCE rev. 5 document; .icy chunk layout from doc/FileFormats/ICEDFormat.md; the PNG container is written with the png crate");
    eng.assume("a worker abort is counted as a violation and keyed by input family (+ `|state=big_font` when the caret's font has more than 0xD800 glyphs); under the ubcheck profile a failed standard-library UB check aborts at once (the panic hook of this check skips the backtrace)");

    let thorough = eng.is_thorough();

    // (i) DECFRA
    // enumerated tables run on one thread so that the reported witness is the first failing index, whatever the scheduling
    let ws = decfra_windows(thorough);
    let total = window_total(&ws);
    eng.enumerated_with_class(
        PartCfg::new("decfra_windows", 0, 0).isolated().heap_cap(512 << 20).shrink_budget(400).exhaustive(true).threads(1),
        total * 2,
        move |i| {
            let pc = window_value(&ws, i / 2);
            if i % 2 == 0 {
                Decfra { pc, pt: 1, pl: 1, pb: 2, pr: 3, shape: 0, pre: 0, post: 0, state: TermState::default() }
            } else {
                Decfra { pc, pt: 24, pl: 78, pb: 25, pr: 80, shape: 1, pre: 1, post: 2, state: TermState::default() }
            }
        },
        check_decfra,
        |c| format!("source=decfra{}", state_key(&c.state)),
    );
    // the boundary windows again for every terminal state of the table (fonts of 256 / 512 / 0xD801 / 0xE000 / 2^16 / 2^17 glyphs in the
    // caret's slot, modes), plus one state whose font travels as a DCS (narrow windows)
    let states = table_states();
    let total: u64 = states.iter().map(|(_, w)| window_total(w)).sum();
    eng.enumerated_with_class(
        PartCfg::new("decfra_states", 0, 0).isolated().heap_cap(512 << 20).shrink_budget(400).exhaustive(true).threads(1),
        total,
        move |mut i| {
            for (k, (state, w)) in states.iter().enumerate() {
                let n = window_total(w);
                if i < n || k + 1 == states.len() {
                    let state = state.clone();
                    return if state.dcs {
                        Decfra { pc: window_value(w, i), pt: 2, pl: 2, pb: 2, pr: 3, shape: 1, pre: 0, post: 0, state }
                    } else {
                        Decfra { pc: window_value(w, i), pt: 1, pl: 1, pb: 2, pr: 3, shape: 0, pre: 0, post: 0, state }
                    };
                }
                i -= n;
            }
            unreachable!("table_states is not empty")
        },
        check_decfra,
        |c| format!("source=decfra{}", state_key(&c.state)),
    );
    eng.generated_with_class(PartCfg::new("decfra", 240_000, 2_500_000).isolated().heap_cap(512 << 20).shrink_budget(400), decfra_strategy, check_decfra, |c| format!("source=decfra{}", state_key(&c.state)));

    // (ii) clipboard
    eng.enumerated_with_class(PartCfg::new("clipboard_u16", 0, 0).isolated().heap_cap(512 << 20).shrink_budget(400).exhaustive(true).threads(1), 1 << 16, clip_enumerated, check_clip, |_| "source=clipboard".to_string());
    eng.generated_with_class(PartCfg::new("clipboard", 100_000, 1_000_000).isolated().heap_cap(512 << 20).shrink_budget(400), clip_strategy, check_clip, |_| "source=clipboard".to_string());

    // (iii) IcyDraw
    eng.enumerated_with_class(PartCfg::new("icy_table", 0, 0).isolated().heap_cap(512 << 20).shrink_budget(400).exhaustive(true).threads(1), icy_table_total(), icy_table, check_icy, |_| "source=icy".to_string());
    eng.enumerated_with_class(PartCfg::new("icy_fonts", 0, 0).isolated().heap_cap(512 << 20).shrink_budget(400).exhaustive(true).threads(4), ICY_FONT_FILES, icy_font_file, check_icy, |c| {
        format!("source=icy{}", icy_state_key(c))
    });
    eng.generated_with_class(PartCfg::new("icy", 100_000, 1_000_000).isolated().heap_cap(512 << 20).shrink_budget(400), icy_strategy, check_icy, |c| format!("source=icy{}", icy_state_key(c)));

    // (iv) fonts
    eng.enumerated_with_class(PartCfg::new("font_table", 0, 0).isolated().heap_cap(512 << 20).shrink_budget(400).exhaustive(true).threads(4), FONT_COUNTS.len() as u64 * 12, font_table, check_font, |c| {
        format!("source={}", FONT_FMT[(c.fmt % 4) as usize])
    });
    eng.generated_with_class(PartCfg::new("fonts", 5_000, 40_000).isolated().heap_cap(512 << 20).shrink_budget(400).timeout_ms(60_000), font_strategy, check_font, |c| format!("source={}", FONT_FMT[(c.fmt % 4) as usize]));

    // (iv b) optional unicode tables of PSF fonts
    eng.enumerated_with_class(PartCfg::new("font_unitab_table", 0, 0).isolated().heap_cap(512 << 20).shrink_budget(400).exhaustive(true).threads(4), unitab_table_total(), unitab_table_case, check_unitab, |c| {
        format!("source={}", unitab_src(c))
    });
    eng.generated_with_class(PartCfg::new("font_unitab", 40_000, 600_000).isolated().heap_cap(512 << 20).shrink_budget(400), unitab_strategy, check_unitab, |c| format!("source={}", unitab_src(c)));

    eng.enumerated_with_class(PartCfg::new("macro_bytes", 0, 0).isolated().heap_cap(512 << 20).shrink_budget(400).exhaustive(true).threads(1), 3 * MACRO_TABLE_BASE, macro_table, check_macro, |c| format!("source={}", macro_src(c)));
    let sizes = macro_size_cases();
    eng.enumerated_with_class(
        PartCfg::new("macro_sizes", 0, 0).isolated().heap_cap(1 << 30).shrink_budget(400).exhaustive(true).threads(16).timeout_ms(60_000),
        sizes.len() as u64,
        move |i| sizes[i as usize].clone(),
        check_macro,
        |c| format!("source={}", macro_src(c)),
    );
    eng.generated_with_class(PartCfg::new("macros", 100_000, 1_000_000).isolated().heap_cap(512 << 20).shrink_budget(400), macro_strategy, check_macro, |c| format!("source={}", macro_src(c)));

    // (vi) scalar streams
    let pairs = scalar_pairs();
    let points = scalar_points();
    let total = pairs.len() as u64 * points.len() as u64 * 11;
    eng.enumerated_with_class(
        PartCfg::new("scalar_table", 0, 0).isolated().heap_cap(512 << 20).shrink_budget(400).exhaustive(true).threads(8),
        total,
        move |i| scalar_table(&pairs, &points, i),
        check_scalar,
        |c| format!("source={}", scalar_src(c)),
    );
    eng.extra(
        "steered_away",
        icyv::serde_json::json!("scalar parts: where the character under test is an Avatar repeat count or goto coordinate only U+0100..U+0800 are used (the engine loops / allocates in proportion to the character value: C03's subject)"),
    );
    eng.generated_with_class(PartCfg::new("scalar_streams", 60_000, 1_000_000).isolated().heap_cap(512 << 20).shrink_budget(400), scalar_strategy, check_scalar, |c| format!("source={}", scalar_src(c)));

    eng.run();
}
