fn main() { icyv::hello(); }
