//! C15 — Avatar, PCBoard, Ctrl-A, Renegade, ASCII and ATASCII files written by the engine parse back as saved.
//!
//! model buffer --Buffer::to_bytes(ext, lossles_output)--> bytes --Buffer::from_bytes("x.<ext>")--> loaded buffer;
//! every cell of the union rectangle must hold the same character and (colour formats) show the same foreground and
//! background RGB; ATASCII: same character and inverse-video flag; ASCII: same character. Cells after the end of a row
//! are blank on black on both sides.
use icy_engine::{AttributedChar, Buffer, BufferType, SaveOptions, ScreenPreperation, TextAttribute, TextPane, DOS_DEFAULT_PALETTE};
use icyv::proptest::prelude::*;
use icyv::{Engine, PartCfg, Verdict};
use serde::{Deserialize, Serialize};
use std::path::Path;

// ------------------------------------------------------------------------------------------------ formats

const AVT: usize = 0;
const PCB: usize = 1;
const CTRLA: usize = 2;
const REN: usize = 3;
const ASC: usize = 4;
const ATA: usize = 5;

/// (name used in keys and part names, file extension as returned by the format's get_file_extension)
const FMTS: [(&str, &str); 6] = [("avatar", "avt"), ("pcboard", "pcb"), ("ctrla", "msg"), ("renegade", "an1"), ("ascii", "asc"), ("atascii", "ata")];

fn ext_of(fmt: usize, alt: u8) -> String {
    if fmt == REN {
        // an1 is the primary extension, an2..an9 the alternatives of the same format
        format!("an{}", 1 + (alt % 9))
    } else {
        FMTS[fmt].1.to_string()
    }
}

fn width_of(fmt: usize) -> usize {
    if fmt == ATA {
        40
    } else {
        80
    }
}
fn max_height(_fmt: usize) -> usize {
    40
}

/// the characters of the property's domain for one format: printable CP437 0x20..=0x7E, 0x80..=0xFE plus the C0 glyph
/// codes the format's reader prints, minus the format's own lead-in characters
fn legal_ch(fmt: usize, ch: u8) -> bool {
    match fmt {
        // ATASCII: 7-bit glyphs; ESC, the four cursor codes, clear, backspace and tab are the format's control codes
        ATA => matches!(ch, 0x01..=0x1A | 0x20..=0x7C),
        // the ASCII reader handles NUL/0xFF (colour reset), BEL, BS, LF, FF, CR, DEL and prints everything else
        ASC => !matches!(ch, 0x00 | 0xFF | 0x07 | 0x08 | 0x0A | 0x0C | 0x0D | 0x7F),
        _ => {
            // the ANSI fallback reader handles ESC, LF, FF, CR, BEL, DEL; NUL and 0xFF are blanks, not glyphs
            if matches!(ch, 0x00 | 0xFF | 0x07 | 0x0A | 0x0C | 0x0D | 0x1B | 0x7F) {
                return false;
            }
            match fmt {
                AVT => !matches!(ch, 0x16 | 0x19 | 0x0C),
                PCB => ch != b'@',
                CTRLA => ch != 0x01,
                REN => ch != b'|',
                _ => true,
            }
        }
    }
}

// ------------------------------------------------------------------------------------------------ model

/// (character code, foreground 0..=15, background 0..=7). ASCII ignores the colours, ATASCII reads background > 0 as inverse video.
#[derive(Clone, Copy, Debug, Hash, PartialEq, Eq, Serialize, Deserialize)]
struct Cell(u8, u8, u8);

/// (length, cell): `length` equal cells
#[derive(Clone, Copy, Debug, Hash, Serialize, Deserialize)]
struct Run(u8, Cell);

/// runs laid out from the left margin; when `fill` is given the rest of the row up to the right margin holds that cell;
/// the row is then cut to `cut` cells; `pad`: the cells after the end of the row are stored as explicit blanks on black
#[derive(Clone, Debug, Hash, Serialize, Deserialize)]
struct Row {
    runs: Vec<Run>,
    fill: Option<Cell>,
    cut: u8,
    pad: bool,
}

#[derive(Clone, Debug, Hash, Serialize, Deserialize)]
struct Case {
    /// index into FMTS
    fmt: u8,
    /// 0 None, 1 ClearScreen, 2 Home
    prep: u8,
    /// Renegade only: extension an<1+alt>
    alt: u8,
    /// picture starts with the CP437 characters EF BB BF on default colours, rest of the picture 7-bit
    bom: bool,
    rows: Vec<Row>,
    /// storage-shape perturbation (icyv::shape), 0 = stored exactly as built
    #[serde(default)]
    shape: u8,
    /// how bright foregrounds are stored: 0 = colour 8..=15, 1 = colour 0..=7 + BOLD flag (as the ANSI parser stores them), 2 = alternating by column,
    /// 3 = colour 8..=15 with the BOLD flag set as well
    #[serde(default)]
    rep: u8,
    /// words laid over the picture, each in one attribute: (row, column, dictionary index, fg, bg). The dictionary holds control-code
    /// look-alikes of BBS software and file formats (plain text in every format that does not use their lead-in) and UTF-8 encodings
    /// of CP437 glyphs (two or three CP437 cells that read as one UTF-8 character)
    #[serde(default)]
    words: Vec<(u8, u8, u8, u8, u8)>,
    /// every other character >= 0x80 is replaced by a letter, so that the written file is valid UTF-8 as a whole when the words are UTF-8 encodings
    #[serde(default)]
    utf8ish: bool,
    /// how the insignificant cells after the end of a padded row are stored: 0 = ' ' fg 7, 1 = ' ' with another foreground,
    /// 2 = NUL with another foreground, 3 = only the last column is stored (' ' with another foreground)
    #[serde(default)]
    pad_kind: u8,
    /// the picture starts with the CP437 characters EF BB BF followed by B0 (a lone continuation byte): the file looks like it had a
    /// byte order mark but is NOT valid UTF-8, so it loads as CP437 on the unchanged tree - the neighbour of the open BOM finding
    #[serde(default)]
    bom_hi: bool,
}

const WORDS: [&[u8]; 48] = [
    b"@CLS@", b"@CLEAR@", b"@PAUSE@", b"@MORE@", b"@X0F", b"@X1E@", b"@POS:10@", b"@BEEP@", b"@USER@", b"@HANGUP@", b"@0F@", b"@-codes@",
    b"|15", b"|07|16", b"|CL", b"|PA", b"|CR", b"|[X10", b"`1F", b"~1", b"%%F", b"$a", b"{CLS}", b"[0;1m", b"[2J", b"ESC[2J", b"\\x1b[0m",
    b"SAUCE00", b"COMNT", b"\x03\x33", b"^C3", b"^A", b"&&", b"\\n", b"<b>", b"&amp;",
    // UTF-8 encodings of characters that have a CP437 glyph
    b"caf\xC3\xA9", b"\xC3\xBC\xC3\xA4\xC3\xB6", b"Gr\xC3\xB6\xC3\x9Fe", b"\xE2\x96\x88\xE2\x96\x88", b"\xE2\x96\x91\xE2\x96\x92\xE2\x96\x93", b"\xE2\x94\x82 \xE2\x94\x80",
    b"\xE2\x95\x94\xE2\x95\x90\xE2\x95\x97", b"\xC2\xA3 \xC2\xA5", b"\xCF\x80 \xCE\xA3", b"20\xC2\xB0", b"x\xC2\xB2", b"\xC2\xBD \xC2\xBC",
];

/// the grid actually saved: every row holds its significant cells (no trailing blank on black)
#[derive(Clone, Debug, PartialEq)]
struct Norm {
    fmt: usize,
    prep: u8,
    alt: u8,
    w: usize,
    rows: Vec<Vec<Cell>>,
    pad: Vec<bool>,
    shape: u8,
    rep: u8,
    pad_kind: u8,
}

const NEUTRAL: Cell = Cell(b'z', 7, 0);

fn transparent(c: &Cell) -> bool {
    c.0 == b' ' && c.2 == 0
}

fn legal_cell(fmt: usize, c: Cell) -> Cell {
    let Cell(mut ch, fg, bg) = c;
    if !legal_ch(fmt, ch) {
        ch = b'a' + (ch & 15);
    }
    match fmt {
        ASC => Cell(ch, 7, 0),
        ATA => {
            if bg > 0 {
                Cell(ch, 0, 7)
            } else {
                Cell(ch, 7, 0)
            }
        }
        _ => Cell(ch, fg & 15, bg & 7),
    }
}

/// rows end at their last significant cell; the last row is not empty
fn tidy(n: &mut Norm) {
    for r in n.rows.iter_mut() {
        r.truncate(n.w);
        while r.last().is_some_and(transparent) {
            r.pop();
        }
    }
    if n.rows.is_empty() {
        n.rows.push(Vec::new());
    }
    n.rows.truncate(max_height(n.fmt));
    if n.rows.last().unwrap().is_empty() {
        n.rows.last_mut().unwrap().push(NEUTRAL);
    }
    n.pad.resize(n.rows.len(), false);
}

fn normalize(c: &Case) -> Norm {
    let fmt = (c.fmt as usize).min(5);
    let w = width_of(fmt);
    let mut rows = Vec::new();
    let mut pad = Vec::new();
    for row in c.rows.iter().take(max_height(fmt)) {
        let mut line: Vec<Cell> = Vec::with_capacity(w);
        'runs: for Run(n, cell) in &row.runs {
            for _ in 0..(*n).max(1) {
                if line.len() >= w {
                    break 'runs;
                }
                line.push(*cell);
            }
        }
        if let Some(f) = row.fill {
            while line.len() < w {
                line.push(f);
            }
        }
        line.truncate(row.cut as usize);
        for cell in line.iter_mut() {
            *cell = legal_cell(fmt, *cell);
            if c.bom && cell.0 >= 0x80 {
                cell.0 = b'a' + (cell.0 & 15);
            }
        }
        rows.push(line);
        pad.push(row.pad);
    }
    if rows.is_empty() {
        rows.push(Vec::new());
        pad.push(false);
    }
    if c.utf8ish {
        for r in rows.iter_mut() {
            for cell in r.iter_mut() {
                if cell.0 >= 0x80 {
                    cell.0 = b'a' + (cell.0 & 15);
                }
            }
        }
    }
    for (ry, cx, di, fg, bg) in &c.words {
        let y = (*ry as usize * rows.len()) >> 8;
        let word = WORDS[(*di as usize * WORDS.len()) >> 8];
        let x0 = ((*cx as usize) * (w.saturating_sub(word.len()) + 1)) >> 8;
        let line = &mut rows[y];
        while line.len() < x0 {
            line.push(Cell(b' ', 7, 0));
        }
        for (i, b) in word.iter().enumerate() {
            if x0 + i >= w {
                break;
            }
            let cell = legal_cell(fmt, Cell(*b, *fg, *bg));
            if x0 + i < line.len() {
                line[x0 + i] = cell;
            } else {
                line.push(cell);
            }
        }
    }
    if c.bom && fmt == ATA {
        // ATASCII: the bytes EF BB BF are the inverse-video characters o ; ? - a single row that starts with them and
        // holds no other inverse cell is a file that looks like UTF-8 text with a byte order mark
        rows.truncate(1);
        pad.truncate(1);
        for cell in rows[0].iter_mut() {
            *cell = Cell(cell.0, 7, 0);
        }
        while rows[0].len() < 3 {
            rows[0].push(NEUTRAL);
        }
        for (i, b) in [b'o', b';', b'?'].iter().enumerate() {
            rows[0][i] = Cell(*b, 0, 7);
        }
    }
    if c.bom_hi && !c.bom && matches!(fmt, CTRLA | REN | ASC | AVT | PCB) {
        let r0 = &mut rows[0];
        while r0.len() < 4 {
            r0.push(NEUTRAL);
        }
        for (i, b) in [0xEFu8, 0xBB, 0xBF, 0xB0].iter().enumerate() {
            r0[i] = Cell(*b, 7, 0);
        }
    }
    if c.bom && fmt != ATA {
        let r0 = &mut rows[0];
        while r0.len() < 3 {
            r0.push(NEUTRAL);
        }
        for (i, b) in [0xEFu8, 0xBB, 0xBF].iter().enumerate() {
            r0[i] = Cell(*b, 7, 0);
        }
    }
    let mut n = Norm { fmt, prep: c.prep % 3, alt: c.alt % 9, w, rows, pad, shape: c.shape % icyv::shape::CODES, rep: c.rep % 4, pad_kind: c.pad_kind % 4 };
    tidy(&mut n);
    n
}

/// the picture starts with EF BB BF and the rest of its characters do NOT form valid UTF-8 (colour codes are ASCII and do not matter):
/// on the unchanged tree such a file loads as CP437 - the neighbour class of the open BOM finding, never to be folded into it
fn bom_with_non_utf8_rest(n: &Norm) -> bool {
    if !has_bom(n) || n.fmt == ATA {
        return false;
    }
    let mut bytes: Vec<u8> = Vec::new();
    for (y, r) in n.rows.iter().enumerate() {
        for (x, c) in r.iter().enumerate() {
            if y == 0 && x < 3 {
                continue;
            }
            bytes.push(c.0);
        }
        bytes.push(b'\n');
    }
    std::str::from_utf8(&bytes).is_err()
}

fn has_bom(n: &Norm) -> bool {
    n.rows[0].len() >= 3 && n.rows[0][0].0 == 0xEF && n.rows[0][1].0 == 0xBB && n.rows[0][2].0 == 0xBF
}

// ------------------------------------------------------------------------------------------------ engine round trip

fn build(n: &Norm) -> Buffer {
    let h = n.rows.len();
    let mut buf = Buffer::new((n.w as i32, h as i32));
    if n.fmt == ATA {
        buf.buffer_type = BufferType::Atascii;
    }
    for (y, row) in n.rows.iter().enumerate() {
        for (x, Cell(ch, fg, bg)) in row.iter().enumerate() {
            let mut attr = TextAttribute::new(*fg as u32, *bg as u32);
            if *fg >= 8 && n.fmt != ATA {
                // the same displayed colour, stored the way other producers store it
                match n.rep {
                    1 => {
                        attr.set_foreground(*fg as u32 - 8);
                        attr.set_is_bold(true);
                    }
                    2 if (x + y) % 2 == 0 => {
                        attr.set_foreground(*fg as u32 - 8);
                        attr.set_is_bold(true);
                    }
                    3 => attr.set_is_bold(true),
                    _ => {}
                }
            }
            buf.layers[0].set_char((x as i32, y as i32), AttributedChar::new(*ch as char, attr));
        }
        if n.pad[y] && n.fmt != ATA {
            // blank on black in every variant: not significant
            let (ch, fg) = match n.pad_kind {
                0 => (' ', 7),
                1 => (' ', 3),
                2 => ('\0', 9),
                _ => (' ', 3),
            };
            let from = if n.pad_kind == 3 { (n.w - 1).max(row.len()) } else { row.len() };
            for x in from..n.w {
                buf.layers[0].set_char((x as i32, y as i32), AttributedChar::new(ch, TextAttribute::new(fg, 0)));
            }
        } else if n.pad[y] {
            for x in row.len()..n.w {
                buf.layers[0].set_char((x as i32, y as i32), AttributedChar::new(' ', TextAttribute::new(7, 0)));
            }
        }
    }
    buf
}

fn save_options(n: &Norm) -> SaveOptions {
    let mut o = SaveOptions::new();
    o.lossles_output = true; // the colour optimiser is C12's subject
    o.save_sauce = false;
    o.screen_preparation = match n.prep {
        0 => ScreenPreperation::None,
        1 => ScreenPreperation::ClearScreen,
        _ => ScreenPreperation::Home,
    };
    o
}

/// clauses in the order in which a case with several violated clauses is keyed
const CLAUSES: [&str; 4] = ["char", "bg", "fg", "size"];

#[derive(Clone, Debug)]
struct Mis {
    clause: &'static str,
    msg: String,
}

enum Outcome {
    Same,
    /// first mismatch (reading order) per violated clause, in CLAUSES order; the saved bytes
    Differs(Vec<Mis>, Vec<u8>),
    SaveError(String),
    LoadError(String, Vec<u8>),
    Panic(String, String),
}

fn dos_rgb(i: u8) -> (u8, u8, u8) {
    DOS_DEFAULT_PALETTE[i as usize & 15].get_rgb()
}

/// what a loaded cell holds: character, displayed foreground RGB, background RGB, background palette entry; None = nothing stored
fn loaded_cell(buf: &Buffer, x: i32, y: i32) -> Option<(u32, (u8, u8, u8), (u8, u8, u8), u32)> {
    let c = buf.get_char((x, y));
    if !c.is_visible() {
        return None;
    }
    let a = c.attribute;
    let mut f = a.get_foreground();
    if a.is_bold() && f < 8 {
        f += 8;
    }
    Some((c.ch as u32, buf.palette.get_rgb(f), buf.palette.get_rgb(a.get_background()), a.get_background()))
}

fn roundtrip(n: &Norm) -> Outcome {
    match icyv::panics::guarded(|| roundtrip_inner(n)) {
        Ok(o) => o,
        Err((sig, msg)) => Outcome::Panic(sig, msg),
    }
}

fn roundtrip_inner(n: &Norm) -> Outcome {
    let ext = ext_of(n.fmt, n.alt);
    let mut orig = build(n);
    // the same picture, stored the way an edited document may store it
    icyv::shape::perturb(&mut orig, n.shape);
    let bytes = match orig.to_bytes(&ext, &save_options(n)) {
        Ok(b) => b,
        Err(e) => return Outcome::SaveError(e.to_string()),
    };
    let file = format!("x.{ext}");
    let loaded = match Buffer::from_bytes(Path::new(&file), true, &bytes) {
        Ok(b) => b,
        Err(e) => return Outcome::LoadError(e.to_string(), bytes),
    };
    let h = n.rows.len();
    let mut first: [Option<Mis>; 4] = [None, None, None, None];
    let mut put = |k: usize, msg: String| {
        if first[k].is_none() {
            first[k] = Some(Mis { clause: CLAUSES[k], msg });
        }
    };
    if loaded.get_width() != n.w as i32 {
        put(3, format!("loaded width {} != saved width {}", loaded.get_width(), n.w));
    }
    let uh = h.max(loaded.get_line_count().max(0) as usize).max(loaded.get_height().max(0) as usize);
    let uw = n.w.max(loaded.get_width().max(0) as usize);
    for y in 0..uh {
        for x in 0..uw {
            let want = if y < h && x < n.w { n.rows[y].get(x) } else { None };
            let got = loaded_cell(&loaded, x as i32, y as i32);
            match want {
                None => {
                    // after the end of a row / outside the saved rectangle: blank on black
                    if let Some((ch, _, bg, bgi)) = got {
                        let inside = y < h && x < n.w;
                        let blank = ch == 32 || ch == 0;
                        let black = if n.fmt == ATA { bgi == 0 } else { bg == (0, 0, 0) };
                        if !blank {
                            put(if inside { 0 } else { 3 }, format!("({x},{y}) is past the end of the saved row ({h} rows saved) but loads as char {ch:#04x}"));
                        } else if !black && n.fmt != ASC {
                            put(if inside { 1 } else { 3 }, format!("({x},{y}) is past the end of the saved row ({h} rows saved) but loads as a blank on background {bg:?}"));
                        }
                    }
                }
                Some(Cell(ch, fg, bg)) => {
                    let (gch, gfg, gbg, gbgi) = got.unwrap_or((32, dos_rgb(7), (0, 0, 0), 0));
                    let gch = if gch == 0 { 32 } else { gch };
                    if gch != *ch as u32 {
                        put(0, format!("({x},{y}) char: saved {ch:#04x}, loaded {gch:#04x}{}", if got.is_none() { " (no cell)" } else { "" }));
                    }
                    match n.fmt {
                        ASC => {}
                        ATA => {
                            if (*bg > 0) != (gbgi > 0) {
                                put(1, format!("({x},{y}) inverse video: saved {}, loaded {} (char {ch:#04x})", *bg > 0, gbgi > 0));
                            }
                        }
                        _ => {
                            if gbg != dos_rgb(*bg) {
                                put(1, format!("({x},{y}) bg: saved entry {bg} {:?}, loaded {gbg:?} (char {ch:#04x})", dos_rgb(*bg)));
                            }
                            if gfg != dos_rgb(*fg) {
                                put(2, format!("({x},{y}) fg: saved entry {fg} {:?}, loaded {gfg:?} (char {ch:#04x})", dos_rgb(*fg)));
                            }
                        }
                    }
                }
            }
        }
    }
    let v: Vec<Mis> = first.into_iter().flatten().collect();
    if v.is_empty() {
        Outcome::Same
    } else {
        Outcome::Differs(v, bytes)
    }
}

type Failure = (String, String, Vec<u8>);

/// (clause, message, file bytes) of a failing outcome
fn as_failure(o: Outcome) -> Option<Failure> {
    match o {
        Outcome::Same => None,
        Outcome::Differs(v, bytes) => {
            let all = v.iter().map(|m| m.clause).collect::<Vec<_>>().join(",");
            Some((v[0].clause.to_string(), format!("{} [clauses violated: {all}]", v[0].msg), bytes))
        }
        Outcome::SaveError(e) => Some(("save_err".into(), format!("to_bytes failed: {e}"), Vec::new())),
        Outcome::LoadError(e, bytes) => Some(("load_err".into(), format!("from_bytes failed on the engine's own output: {e}"), bytes)),
        Outcome::Panic(sig, msg) => Some((sig, msg, Vec::new())),
    }
}

fn failure(n: &Norm) -> Option<Failure> {
    as_failure(roundtrip(n))
}

// ------------------------------------------------------------------------------------------------ key attribution

/// one input feature that can be taken out of a normal form
#[derive(Clone, Copy, Debug, PartialEq)]
enum Step {
    Rep,
    Shape,
    Prep,
    Bom,
    Pad,
    FullWidthRow,
    MultiRow,
    EmptyRow,
    C0Glyph,
    HighChar,
    BlankCell,
    CodeLikeChar,
    HighFg,
    BgColor,
    FgColor,
    LongRun,
    EqualRun,
}

/// fixed order of the removals; content-deleting steps come first, character classes are mapped injectively onto plain
/// letters (runs of equal cells stay runs), colours are taken out component by component, run structure last
const STEPS: [Step; 17] = [
    Step::Rep,
    Step::Shape,
    Step::Prep,
    Step::Bom,
    Step::MultiRow,
    Step::Pad,
    Step::FullWidthRow,
    Step::EmptyRow,
    Step::C0Glyph,
    Step::HighChar,
    Step::BlankCell,
    Step::CodeLikeChar,
    Step::HighFg,
    Step::BgColor,
    Step::FgColor,
    Step::LongRun,
    Step::EqualRun,
];

fn step_name(s: Step, n: &Norm) -> &'static str {
    match s {
        Step::Prep => {
            if n.prep == 1 {
                "prep_cls"
            } else {
                "prep_home"
            }
        }
        Step::Rep => "bold_flag_storage",
        Step::Shape => "storage_shape",
        Step::Bom => {
            if bom_with_non_utf8_rest(n) {
                "bom_start_non_utf8_rest"
            } else {
                "utf8_bom_prefix"
            }
        }
        Step::Pad => "explicit_trailing_blanks",
        Step::FullWidthRow => "full_width_row",
        Step::MultiRow => "multirow",
        Step::EmptyRow => "empty_row",
        Step::C0Glyph => "c0_glyph",
        Step::HighChar => "high_char",
        Step::BlankCell => "blank_cell",
        Step::CodeLikeChar => "code_like_char",
        Step::HighFg => "high_fg",
        Step::BgColor => {
            if n.fmt == ATA {
                "inverse"
            } else {
                "bg_color"
            }
        }
        Step::FgColor => "fg_color",
        Step::LongRun => "long_run",
        Step::EqualRun => "equal_chars",
    }
}

fn map_cells(n: &Norm, protect_bom: bool, f: impl Fn(Cell) -> Cell) -> Option<Norm> {
    let mut c = n.clone();
    let mut changed = false;
    for (y, row) in c.rows.iter_mut().enumerate() {
        for (x, cell) in row.iter_mut().enumerate() {
            if protect_bom && y == 0 && x < 3 {
                continue;
            }
            let m = f(*cell);
            if m != *cell {
                *cell = m;
                changed = true;
            }
        }
    }
    if !changed {
        return None;
    }
    tidy(&mut c);
    Some(c)
}

/// remove one cell out of the longest run of equal cells (keeps every transition between different cells)
fn squeeze_one(row: &mut Vec<Cell>, min_run: usize) -> bool {
    let (mut best, mut best_len) = (0, 0);
    let mut i = 0;
    while i < row.len() {
        let mut e = i + 1;
        while e < row.len() && row[e] == row[i] {
            e += 1;
        }
        if e - i > best_len {
            best = i;
            best_len = e - i;
        }
        i = e;
    }
    if best_len >= min_run.max(2) {
        row.remove(best);
        true
    } else {
        false
    }
}

/// candidates of a step, simplest first; empty = the feature is not present
fn candidates(s: Step, n: &Norm, protect_bom: bool) -> Vec<Norm> {
    let one = |o: Option<Norm>| o.into_iter().collect::<Vec<_>>();
    match s {
        Step::Rep => {
            if n.rep == 0 {
                return Vec::new();
            }
            let mut c = n.clone();
            c.rep = 0;
            vec![c]
        }
        Step::Shape => {
            if n.shape == 0 {
                return Vec::new();
            }
            let mut c = n.clone();
            c.shape = 0;
            vec![c]
        }
        Step::Prep => {
            if n.prep == 0 {
                return Vec::new();
            }
            let mut c = n.clone();
            c.prep = 0;
            vec![c]
        }
        Step::Bom => {
            if !has_bom(n) {
                return Vec::new();
            }
            let mut c = n.clone();
            c.rows[0][0].0 = b'z';
            vec![c]
        }
        Step::Pad => {
            if !n.pad.iter().any(|p| *p) {
                return Vec::new();
            }
            let mut c = n.clone();
            c.pad.iter_mut().for_each(|p| *p = false);
            vec![c]
        }
        Step::FullWidthRow => {
            if !n.rows.iter().any(|r| r.len() == n.w) {
                return Vec::new();
            }
            let mut c = n.clone();
            for (y, r) in c.rows.iter_mut().enumerate() {
                if r.len() == c.w {
                    let bom_row = protect_bom && y == 0;
                    if bom_row || !squeeze_one(r, 2) {
                        r.pop();
                    }
                }
            }
            tidy(&mut c);
            vec![c]
        }
        Step::MultiRow => {
            if n.rows.len() < 2 {
                return Vec::new();
            }
            let mut out = Vec::new();
            let single = |row: Vec<Cell>, pad: bool| {
                let mut c = n.clone();
                c.rows = vec![row];
                c.pad = vec![pad];
                tidy(&mut c);
                c
            };
            for y in 0..n.rows.len() {
                if !n.rows[y].is_empty() && !(protect_bom && y != 0) {
                    out.push(single(n.rows[y].clone(), n.pad[y]));
                }
            }
            // two neighbouring rows as one row (runs shortened until it fits)
            for y in 0..n.rows.len() - 1 {
                if n.rows[y].is_empty() || n.rows[y + 1].is_empty() || (protect_bom && y != 0) {
                    continue;
                }
                let mut r = n.rows[y].clone();
                r.extend_from_slice(&n.rows[y + 1]);
                while r.len() > n.w && squeeze_one(&mut r, 2) {}
                if r.len() <= n.w {
                    out.push(single(r, false));
                }
            }
            out
        }
        Step::EmptyRow => {
            if !n.rows.iter().any(|r| r.is_empty()) {
                return Vec::new();
            }
            let mut c = n.clone();
            let keep: Vec<bool> = c.rows.iter().map(|r| !r.is_empty()).collect();
            let mut i = 0;
            c.rows.retain(|_| {
                i += 1;
                keep[i - 1]
            });
            i = 0;
            c.pad.retain(|_| {
                i += 1;
                keep[i - 1]
            });
            tidy(&mut c);
            vec![c]
        }
        Step::C0Glyph => one(map_cells(n, protect_bom, |c| if c.0 < 0x20 { Cell(b'g' + c.0 % 20, c.1, c.2) } else { c })),
        Step::HighChar => one(map_cells(n, protect_bom, |c| if c.0 >= 0x80 { Cell(b'g' + c.0 % 20, c.1, c.2) } else { c })),
        Step::BlankCell => one(map_cells(n, protect_bom, |c| if c.0 == b' ' { Cell(b'.', c.1, c.2) } else { c })),
        Step::CodeLikeChar => one(map_cells(n, protect_bom, |c| {
            let m = match c.0 {
                b'0'..=b'9' => b'g' + (c.0 - b'0'),
                b'A'..=b'F' => b'q' + (c.0 - b'A'),
                b'a'..=b'f' => b'G' + (c.0 - b'a'),
                b'X' => b'w',
                b'x' => b'M',
                o => o,
            };
            Cell(m, c.1, c.2)
        })),
        // intensity and hue of the foreground are separate features
        Step::HighFg => one(map_cells(n, false, |c| if c.1 > 7 && n.fmt != ATA { Cell(c.0, c.1 - 8, c.2) } else { c })),
        Step::BgColor => one(map_cells(n, false, |c| if c.2 != 0 { Cell(c.0, if n.fmt == ATA { 7 } else { c.1 }, 0) } else { c })),
        Step::FgColor => one(map_cells(n, false, |c| if c.1 & 7 != 7 && n.fmt != ATA { Cell(c.0, c.1 | 7, c.2) } else { c })),
        Step::LongRun => {
            // runs of more than 3 equal cells (the Avatar writer's repeat threshold) shortened to 3
            let mut c = n.clone();
            let mut changed = false;
            for (y, row) in c.rows.iter_mut().enumerate() {
                if protect_bom && y == 0 {
                    continue;
                }
                while squeeze_one(row, 4) {
                    changed = true;
                }
            }
            if !changed {
                return Vec::new();
            }
            tidy(&mut c);
            vec![c]
        }
        Step::EqualRun => {
            // no two neighbouring cells with the same character
            let mut c = n.clone();
            let mut changed = false;
            for (y, row) in c.rows.iter_mut().enumerate() {
                for x in 1..row.len() {
                    if protect_bom && y == 0 && x < 3 {
                        continue;
                    }
                    if row[x].0 == row[x - 1].0 {
                        let next = row.get(x + 1).map(|c| c.0);
                        let pick = [b'y', b'k', b'w'].into_iter().find(|p| *p != row[x - 1].0 && Some(*p) != next).unwrap_or(b'y');
                        row[x].0 = pick;
                        changed = true;
                    }
                }
            }
            if !changed {
                return Vec::new();
            }
            tidy(&mut c);
            vec![c]
        }
    }
}

/// Greedy attribution: the features are taken out one after the other in a fixed order; a removal is kept when the case
/// still fails, otherwise the feature is needed. Needed features are tried again on the reduced case until nothing
/// changes. The key names the violated clause of the reduced case and the features it needs.
fn attribute(n0: &Norm, fail0: &Failure) -> (String, String) {
    let mut cur = n0.clone();
    let mut fail = fail0.clone();
    let mut needed: Vec<Step> = Vec::new();
    let mut protect_bom = false;
    // a failing picture of the neighbour class must not be simplified into the class of the open finding
    let keep_non_utf8 = bom_with_non_utf8_rest(n0);
    let mut todo: Vec<Step> = STEPS.to_vec();
    for _pass in 0..4 {
        let mut changed = false;
        let mut still_needed = Vec::new();
        for s in &todo {
            let cands = candidates(*s, &cur, protect_bom);
            if cands.is_empty() {
                continue;
            }
            let mut kept = false;
            for c in cands {
                if c == cur {
                    continue;
                }
                if keep_non_utf8 && !bom_with_non_utf8_rest(&c) {
                    continue;
                }
                if let Some(f) = failure(&c) {
                    cur = c;
                    fail = f;
                    kept = true;
                    changed = true;
                    break;
                }
            }
            if !kept {
                still_needed.push(*s);
                if *s == Step::Bom {
                    protect_bom = true;
                }
            }
        }
        needed = still_needed.clone();
        todo = still_needed;
        if !changed {
            break;
        }
    }
    // two-row window when the failure needs more than one row (witness only, not part of the key)
    if cur.rows.len() > 2 {
        for a in 0..cur.rows.len() - 1 {
            let mut c = cur.clone();
            c.rows = cur.rows[a..=a + 1].to_vec();
            c.pad = cur.pad[a..=a + 1].to_vec();
            tidy(&mut c);
            if let Some(f) = failure(&c) {
                if f.0 == fail.0 {
                    cur = c;
                    fail = f;
                    break;
                }
            }
        }
    }
    let feats: Vec<&str> = STEPS.iter().filter(|s| needed.contains(s)).map(|s| step_name(*s, &cur)).collect();
    let (clause, msg, bytes) = fail;
    let key = if clause.starts_with("panic|") {
        clause
    } else {
        format!("{}|{}|{}", FMTS[cur.fmt].0, clause, if feats.is_empty() { "-".to_string() } else { feats.join("+") })
    };
    let cut = bytes.len().min(240);
    let red = format!("reduced witness: prep={} rows={} -> {}; file[..{cut}]=\"{}\"", cur.prep, compact_rows(&cur), msg, icyv::util::escape(&bytes[..cut]));
    (key, red)
}

fn compact_rows(n: &Norm) -> String {
    let mut s = String::from("[");
    for (y, row) in n.rows.iter().enumerate() {
        s.push('[');
        let mut i = 0;
        while i < row.len() {
            let mut e = i + 1;
            while e < row.len() && row[e] == row[i] {
                e += 1;
            }
            let c = row[i];
            s.push_str(&format!("{}x({:#04x},{},{}) ", e - i, c.0, c.1, c.2));
            i = e;
        }
        if n.pad[y] {
            s.push_str("+pad");
        }
        s.push(']');
    }
    s.push(']');
    s
}

// ------------------------------------------------------------------------------------------------ the check

fn attr_changes_max(n: &Norm) -> usize {
    n.rows.iter().map(|r| r.windows(2).filter(|w| (w[0].1, w[0].2) != (w[1].1, w[1].2)).count()).max().unwrap_or(0)
}

fn check(c: &Case) -> Verdict {
    let n = normalize(c);
    match as_failure(roundtrip(&n)) {
        None => {
            let full = n.rows.iter().any(|r| r.len() == n.w);
            let attr = attr_changes_max(&n) >= 3;
            let class = format!("prep{}/{}", n.prep, match (full, attr) {
                (true, true) => "full_width+attr_changes",
                (true, false) => "full_width",
                (false, true) => "attr_changes",
                _ => "plain",
            });
            Verdict::pass(full || attr, class)
        }
        Some(fail) => {
            let (key, red) = attribute(&n, &fail);
            let (clause, msg, bytes) = fail;
            let cut = bytes.len().min(160);
            Verdict::fail(
                key,
                format!(
                    "{} ({}), prep={}, {}x{}: {clause}: {msg}; file[..{cut}]=\"{}\"; {red}",
                    FMTS[n.fmt].0,
                    ext_of(n.fmt, n.alt),
                    n.prep,
                    n.w,
                    n.rows.len(),
                    icyv::util::escape(&bytes[..cut])
                ),
            )
        }
    }
}

// ------------------------------------------------------------------------------------------------ generators

fn glyph() -> BoxedStrategy<u8> {
    prop_oneof![
        22 => Just(b' '),
        36 => 0x21u8..=0x7E,
        14 => 0x80u8..=0xFE,
        8 => 1u8..=0x1F,
        // characters that occur inside the formats' own codes
        8 => proptest::sample::select(b"0123456789ABCDEFabcdefXxHNIEKWRLZ'<>]".to_vec()),
        // lead-ins of the other formats, blanks the readers know, solid block
        4 => proptest::sample::select(vec![b'@', b'|', 0x01, 0x16, 0x19, 0x0C, 0x1B, 0xDB, 0x1A, 0x08, 0x09]),
        1 => any::<u8>(),
    ]
    .boxed()
}
fn fg_col() -> BoxedStrategy<u8> {
    prop_oneof![4 => Just(7u8), 8 => 0u8..16].boxed()
}
fn bg_col() -> BoxedStrategy<u8> {
    prop_oneof![5 => Just(0u8), 6 => 0u8..8].boxed()
}
fn cell() -> BoxedStrategy<Cell> {
    (glyph(), fg_col(), bg_col()).prop_map(|(c, f, b)| Cell(c, f, b)).boxed()
}
fn run() -> BoxedStrategy<Run> {
    let len = prop_oneof![6 => 1u8..=3, 3 => 4u8..=12, 1 => 13u8..=80];
    (len, cell()).prop_map(|(n, c)| Run(n, c)).boxed()
}
fn row(w: u8) -> BoxedStrategy<Row> {
    let runs = prop_oneof![1 => proptest::collection::vec(run(), 0..=1), 5 => proptest::collection::vec(run(), 1..=16)];
    let fill = prop_oneof![5 => Just(None), 3 => cell().prop_map(Some)];
    let cut = prop_oneof![10 => Just(w), 2 => Just(w - 1), 1 => Just(w - 2), 1 => Just(1u8), 1 => Just(0u8), 4 => 0u8..=w];
    (runs, fill, cut, proptest::bool::weighted(0.2)).prop_map(|(runs, fill, cut, pad)| Row { runs, fill, cut, pad }).boxed()
}
fn rows(w: u8, hmax: usize) -> BoxedStrategy<Vec<Row>> {
    prop_oneof![
        6 => proptest::collection::vec(row(w), 1..=4),
        3 => proptest::collection::vec(row(w), 5..=hmax.min(25)),
        1 => proptest::collection::vec(row(w), hmax.min(25)..=hmax),
    ]
    .boxed()
}
fn cases(fmt: usize, steer_bom: bool) -> BoxedStrategy<Case> {
    let w = width_of(fmt) as u8;
    // while the finding C15-cp437-content-starting-with-utf8-bom is open, its precondition is not generated (the witness keeps it)
    let bom = if (matches!(fmt, CTRLA | REN | ASC) && !steer_bom) || fmt == ATA { proptest::bool::weighted(0.01).boxed() } else { Just(false).boxed() };
    let alt = if fmt == REN { prop_oneof![3 => Just(0u8), 1 => 0u8..9].boxed() } else { Just(0u8).boxed() };
    let shape = prop_oneof![3 => Just(0u8), 2 => 1u8..icyv::shape::CODES];
    let rep = prop_oneof![2 => Just(0u8), 1 => 1u8..4];
    let words = prop_oneof![3 => Just(Vec::new()), 1 => proptest::collection::vec((any::<u8>(), any::<u8>(), any::<u8>(), fg_col(), bg_col()), 1..=4)];
    let pad_kind = prop_oneof![2 => Just(0u8), 1 => 1u8..4];
    (0u8..3, alt, bom, rows(w, max_height(fmt)), shape, rep, words, proptest::bool::weighted(0.15), pad_kind, proptest::bool::weighted(0.03))
        .prop_map(move |(prep, alt, bom, rows, shape, rep, words, utf8ish, pad_kind, bom_hi)| Case { fmt: fmt as u8, prep, alt, bom, rows, shape, rep, utf8ish: utf8ish && !words.is_empty(), words, pad_kind, bom_hi })
        .boxed()
}

fn minimize(c: &Case) -> Vec<Case> {
    let mut out = Vec::new();
    if c.prep != 0 {
        out.push(Case { prep: 0, ..c.clone() });
    }
    if !c.words.is_empty() {
        out.push(Case { words: Vec::new(), utf8ish: false, ..c.clone() });
        for i in 0..c.words.len() {
            let mut w = c.words.clone();
            w.remove(i);
            out.push(Case { words: w, ..c.clone() });
        }
    }
    if c.pad_kind != 0 {
        out.push(Case { pad_kind: 0, ..c.clone() });
    }
    if c.bom_hi {
        out.push(Case { bom_hi: false, ..c.clone() });
    }
    if c.utf8ish {
        out.push(Case { utf8ish: false, ..c.clone() });
    }
    if c.rep != 0 {
        out.push(Case { rep: 0, ..c.clone() });
    }
    if c.alt != 0 {
        out.push(Case { alt: 0, ..c.clone() });
    }
    if c.rows.len() > 1 {
        for i in 0..c.rows.len() {
            let mut d = c.clone();
            d.rows.remove(i);
            out.push(d);
        }
    }
    let w = width_of(c.fmt as usize) as u8;
    for (y, r) in c.rows.iter().enumerate() {
        if r.pad {
            let mut d = c.clone();
            d.rows[y].pad = false;
            out.push(d);
        }
        if r.fill.is_none() && r.cut != w {
            let mut d = c.clone();
            d.rows[y].cut = w;
            out.push(d);
        }
        for i in 0..r.runs.len() {
            let mut d = c.clone();
            d.rows[y].runs.remove(i);
            out.push(d);
        }
        if let Some(f) = r.fill {
            let mut d = c.clone();
            d.rows[y].fill = None;
            out.push(d);
            if f != NEUTRAL {
                let mut d = c.clone();
                d.rows[y].fill = Some(NEUTRAL);
                out.push(d);
            }
        }
        for (i, Run(n, cell)) in r.runs.iter().enumerate() {
            if *n > 1 {
                for m in [1, *n / 2, *n - 1] {
                    if m >= 1 && m < *n {
                        let mut d = c.clone();
                        d.rows[y].runs[i].0 = m;
                        out.push(d);
                    }
                }
            }
            let simpler = [NEUTRAL, Cell(cell.0, 7, 0), Cell(cell.0, 7, cell.2), Cell(cell.0, cell.1, 0), Cell(cell.0, cell.1 & 7, cell.2), Cell(if cell.0 == b' ' { b' ' } else { b'z' }, cell.1, cell.2)];
            for s in simpler {
                if s != *cell {
                    let mut d = c.clone();
                    d.rows[y].runs[i].1 = s;
                    out.push(d);
                }
            }
        }
    }
    out.truncate(4000);
    out
}

fn main() {
    let mut eng = Engine::new("C15");
    eng.rule(
        "One part per format (avatar .avt, pcboard .pcb, ctrla .msg, renegade .an1 and its alternatives .an2-.an9, ascii .asc, atascii .ata). Buffers: single layer, width 80 (ATASCII 40), \
         height 1..=40, rows = run-structured cell lists (runs of 1..=80 equal cells, optional fill up to the right margin, then cut to a length \
         0..=width with extra weight on width, width-1, width-2, 1, 0), last row never empty (a 'z' is stored when it would be); cells after the end of a row are either unset or explicit blanks on black (a space in the default or another foreground, NUL, or only the last column stored); \
         characters 0x20..=0x7E, 0x80..=0xFE and the C0 codes 0x01..=0x1F that the format's reader prints as glyphs, minus the format's lead-ins (Avatar, PCBoard, Ctrl-A, Renegade: without BEL LF FF CR ESC and ^V ^Y ^L / '@' / ^A / '|'; ASCII: without BEL BS LF FF CR; \
         ATASCII: 0x01..=0x1A and 0x20..=0x7C, i.e. without ESC, the cursor codes 0x1C..0x1F and 0x7D..0x7F), illegal characters replaced by letters by construction; attributes foreground 0..=15 x background 0..=7 per run, bright foregrounds stored as colour 8..=15, as colour 0..=7 + BOLD flag (as the ANSI parser stores them), alternating, or 8..=15 + BOLD (1/3 of the cases); a quarter of the buffers carry 1..=4 words of one attribute from a dictionary of 48 control-code look-alikes of BBS software / file formats and UTF-8 encodings of CP437 glyphs (15% of those with every other high character replaced, so the whole file is valid UTF-8) \
         (ASCII: none; ATASCII: normal / inverse); screen preparation None / ClearScreen / Home uniformly; SaveOptions::new() with lossles_output=true; a 1% share of Ctrl-A / Renegade / ASCII buffers starts with the CP437 characters EF BB BF and is otherwise 7-bit (the exact class of the open BOM finding: not generated while it is open), 3% of the buffers of the five CP437 formats start with EF BB BF B0 and keep their high characters (looks like a byte order mark, is not valid UTF-8, loads as CP437), and 1% of the ATASCII buffers are a single row starting with inverse 'o;?' (the same bytes) without other inverse cells. \
         Non-trivial: at least one full-width row or at least 3 attribute changes inside one row; distinct by hash of the case. Failure key = format | first violated clause (char, bg, fg, size, save_err, load_err) of the reduced case | \
         input features the reduced case needs: the features bold_flag_storage, storage_shape, prep_cls/prep_home, utf8_bom_prefix, multirow (no single row and no two joined neighbouring rows fail), explicit_trailing_blanks, full_width_row, empty_row, c0_glyph, high_char, blank_cell, code_like_char (hex digits, X), \
         high_fg, bg_color (ATASCII: inverse), fg_color, long_run (> 3 equal cells), equal_chars are removed greedily in this fixed order; a removal is kept while the case still fails, a feature is named when its removal makes the case pass.",
    );
    eng.assume("a cell shows palette RGB of its foreground (entry+8 when bold and entry<8) and background as Buffer::render_to_rgba does; saved colours are the entries of the DOS default palette");
    eng.assume("cells missing from the loaded buffer count as blank on black; cells after the end of a saved row and outside the saved rectangle must load as NUL/space on black (foreground not compared there); NUL and space are one blank");
    eng.assume("ATASCII: inverse video = background entry > 0 (the writer's own definition); colours are not compared for ASCII");
    let steer_bom = eng.finding_open("C15-cp437-content-starting-with-utf8-bom");
    eng.extra("steered_away", icyv::serde_json::json!({"utf8_bom_prefix (1% of ctrla/renegade/ascii buffers)": steer_bom}));
    for fmt in 0..6usize {
        let name: &'static str = FMTS[fmt].0;
        eng.generated_min(PartCfg::new(name, 160_000, 3_000_000).shrink_budget(1500), move || cases(fmt, steer_bom), check, |c: &Case| format!("prep{}", c.prep), minimize);
    }
    eng.run();
}
