//! C01 — no byte stream can crash a terminal emulation.
use icy_engine::TextPane;
use icyv::proptest::prelude::*;
use icyv::stream::{self, EMUS};
use icyv::util::Bytes;
use icyv::{Engine, PartCfg, Verdict};
use serde::{Deserialize, Serialize};

#[derive(Clone, Debug, Hash, Serialize, Deserialize)]
struct Case {
    emu: u8,
    w: u8,
    h: u8,
    /// 0 = Buffer::new, 1 = Buffer::create, 2 = create + lines.clear()
    shape: u8,
    data: Bytes,
}

fn sizes(emu: u8) -> BoxedStrategy<(u8, u8)> {
    if emu == stream::EMU_VIEWDATA || emu == stream::EMU_MODE7 {
        prop_oneof![4 => Just((40u8, 24u8)), 2 => Just((40, 25)), 1 => (1u8..=132, 1u8..=60)].boxed()
    } else {
        prop_oneof![
            4 => Just((80u8, 25u8)),
            1 => Just((1, 1)),
            1 => Just((2, 2)),
            1 => Just((132, 60)),
            1 => Just((40, 24)),
            1 => (1u8..=132, Just(1u8)),
            1 => (Just(1u8), 1u8..=60),
            4 => (1u8..=132, 1u8..=60),
        ]
        .boxed()
    }
}

fn cases(max_tokens: usize) -> BoxedStrategy<Case> {
    // a union over the emulations (no flat_map on generated values: the token list shrinks directly)
    let per_emu: Vec<BoxedStrategy<Case>> = (0..EMUS.len() as u8)
        .map(|emu| {
            (0u8..=2, sizes(emu), stream::tokens(emu, true, max_tokens))
                .prop_map(move |(shape, (w, h), toks)| Case { emu, w, h, shape, data: Bytes(stream::render(&toks, w as i32, h as i32, 9999)) })
                .boxed()
        })
        .collect();
    proptest::strategy::Union::new(per_emu).boxed()
}

fn minimize(c: &Case) -> Vec<Case> {
    let mut out: Vec<Case> = icyv::util::bytes_candidates(&c.data).into_iter().map(|d| Case { data: Bytes(d), ..c.clone() }).collect();
    for (w, h) in [(80u8, 25u8), (c.w, c.h / 2), (c.w / 2, c.h), (c.w, c.h.saturating_sub(1)), (c.w.saturating_sub(1), c.h)] {
        if w >= 1 && h >= 1 && (w, h) != (c.w, c.h) && (c.w, c.h) != (80, 25) {
            out.push(Case { w, h, ..c.clone() });
        }
    }
    if c.shape != 0 {
        out.push(Case { shape: 0, ..c.clone() });
    }
    out
}

fn lead_ins(emu: u8, d: &[u8]) -> usize {
    d.iter()
        .filter(|b| match emu {
            0..=4 => **b == 0x1B,
            5 => matches!(**b, 0x1B | 0x16 | 0x19 | 0x0C),
            6 => matches!(**b, 0x1B | b'@'),
            7 => matches!(**b, 0x1B | 1),
            8 => matches!(**b, 0x1B | b'|'),
            _ => **b < 0x20 || (0x80..0xA0).contains(*b),
        })
        .count()
}

fn check(c: &Case) -> Verdict {
    let (mut buf, mut caret) = stream::make_terminal(c.w as i32, c.h as i32, c.shape);
    let mut parser = stream::make_parser(c.emu);
    let mut errs = 0u32;
    for b in c.data.iter() {
        // any Ok(_) or Err(_) is acceptable; a panic unwinds into the engine's guard, an abort kills the worker
        if parser.print_char(&mut buf, 0, &mut caret, *b as char).is_err() {
            errs += 1;
        }
    }
    // collect finished sixel decodes the way a terminal does (poll, never join blindly)
    let mut spins = 0;
    while !buf.sixel_threads.is_empty() && spins < 2000 {
        let _ = buf.update_sixel_threads();
        if !buf.sixel_threads.is_empty() {
            std::thread::sleep(std::time::Duration::from_millis(1));
        }
        spins += 1;
    }
    // no decode thread may outlive its case (its work and its failures belong to this case): wait for stragglers;
    // a decode that never ends is cut off by the supervisor's timeout (inconclusive, worker restarted)
    while let Some(h) = buf.sixel_threads.pop_front() {
        let _ = h.join();
    }
    let touched = buf.layers[0].lines.iter().any(|l| !l.chars.is_empty()) || caret.get_position() != icy_engine::Position::default() || buf.get_height() != c.h as i32;
    let nontrivial = lead_ins(c.emu, &c.data) >= 2 && touched;
    Verdict::pass(nontrivial, format!("{}{}", EMUS[c.emu as usize], if errs > 0 { "+err" } else { "" }))
}

fn classify(c: &Case) -> String {
    if stream::has_macro_invoke(&c.data) {
        "macro_invocation".to_string()
    } else {
        format!("emu={}", EMUS[c.emu as usize])
    }
}

fn main() {
    let mut eng = Engine::new("C01");
    eng.rule(
        "Streams = token lists (printable runs, C0, ESC x, every CSI final 0x40..0x7E x intermediates x 0..7 parameters from {empty,0,1,2,mid,size,size+-1,255,9999,0..140}, \
         DCS macro/sixel/font payloads, OSC palette/hyperlinks, APS, ANSI music, per-emulation lead-ins) for 14 emulation configurations on terminal buffers \
         1..=132 x 1..=60 in three allocation shapes; every byte is fed through print_char in a worker process; Ok/Err accepted, panic/abort is a violation. \
         Non-trivial: the stream contains >= 2 control lead-in bytes of its emulation AND touched the screen (row allocated, cursor moved or height grew); distinct by hash of (emulation,size,shape,bytes).",
    );
    eng.assume("built with overflow checks and debug assertions ON at opt-level 2 (profile `checked`): panics that only a debug build of a front end would hit count as well");
    eng.assume("numeric parameters capped at 9999 here; magnitude-driven work is C03's subject; timeouts and heap-cap hits (2 GiB) are counted as inconclusive, not as violations (C03 owns time and memory)");
    eng.generated_min(PartCfg::new("streams", 900_000, 12_000_000).isolated().timeout_ms(30_000).heapcap_is_violation(false), || cases(40), check, classify, minimize);
    eng.generated_min(PartCfg::new("long_streams", 15_000, 300_000).isolated().timeout_ms(60_000).heapcap_is_violation(false), || cases(400), check, classify, minimize);
    eng.run();
}
