//! C01 — no byte stream can crash a terminal emulation.
use icy_engine::TextPane;
use icyv::proptest::prelude::*;
use icyv::stream::{self, EMUS};
use icyv::util::Bytes;
use icyv::{Engine, PartCfg, Verdict};
use serde::{Deserialize, Serialize};

#[derive(Clone, Debug, Hash, Serialize, Deserialize)]
struct Case {
    emu: u8,
    w: u8,
    h: u8,
    /// 0 = Buffer::new, 1 = Buffer::create, 2 = create + lines.clear()
    shape: u8,
    data: Bytes,
}

fn sizes(emu: u8) -> BoxedStrategy<(u8, u8)> {
    if emu == stream::EMU_VIEWDATA || emu == stream::EMU_MODE7 {
        prop_oneof![4 => Just((40u8, 24u8)), 2 => Just((40, 25)), 1 => (1u8..=132, 1u8..=60)].boxed()
    } else {
        prop_oneof![
            4 => Just((80u8, 25u8)),
            1 => Just((1, 1)),
            1 => Just((2, 2)),
            1 => Just((132, 60)),
            1 => Just((40, 24)),
            1 => (1u8..=132, Just(1u8)),
            1 => (Just(1u8), 1u8..=60),
            4 => (1u8..=132, 1u8..=60),
        ]
        .boxed()
    }
}

fn cases(max_tokens: usize) -> BoxedStrategy<Case> {
    cases_capped(max_tokens, 9999)
}

fn cases_capped(max_tokens: usize, maxnum: u32) -> BoxedStrategy<Case> {
    // a union over the emulations (no flat_map on generated values: the token list shrinks directly)
    let per_emu: Vec<BoxedStrategy<Case>> = (0..EMUS.len() as u8)
        .map(|emu| {
            (0u8..=2, sizes(emu), stream::tokens(emu, true, max_tokens))
                .prop_map(move |(shape, (w, h), toks)| Case { emu, w, h, shape, data: Bytes(stream::render(&toks, w as i32, h as i32, maxnum)) })
                .boxed()
        })
        .collect();
    proptest::strategy::Union::new(per_emu).boxed()
}

fn minimize(c: &Case) -> Vec<Case> {
    let mut out: Vec<Case> = icyv::util::bytes_candidates(&c.data).into_iter().map(|d| Case { data: Bytes(d), ..c.clone() }).collect();
    for (w, h) in [(80u8, 25u8), (c.w, c.h / 2), (c.w / 2, c.h), (c.w, c.h.saturating_sub(1)), (c.w.saturating_sub(1), c.h)] {
        if w >= 1 && h >= 1 && (w, h) != (c.w, c.h) && (c.w, c.h) != (80, 25) {
            out.push(Case { w, h, ..c.clone() });
        }
    }
    if c.shape != 0 {
        out.push(Case { shape: 0, ..c.clone() });
    }
    out
}

fn lead_ins(emu: u8, d: &[u8]) -> usize {
    d.iter()
        .filter(|b| match emu {
            0..=4 => **b == 0x1B,
            5 => matches!(**b, 0x1B | 0x16 | 0x19 | 0x0C),
            6 => matches!(**b, 0x1B | b'@'),
            7 => matches!(**b, 0x1B | 1),
            8 => matches!(**b, 0x1B | b'|'),
            _ => **b < 0x20 || (0x80..0xA0).contains(*b),
        })
        .count()
}

fn check(c: &Case) -> Verdict {
    let (mut buf, mut caret) = stream::make_terminal(c.w as i32, c.h as i32, c.shape);
    let mut parser = stream::make_parser(c.emu);
    let mut errs = 0u32;
    for b in c.data.iter() {
        // any Ok(_) or Err(_) is acceptable; a panic unwinds into the engine's guard, an abort kills the worker
        if parser.print_char(&mut buf, 0, &mut caret, *b as char).is_err() {
            errs += 1;
        }
    }
    // collect finished sixel decodes the way a terminal does (poll, never join blindly)
    let mut spins = 0;
    while !buf.sixel_threads.is_empty() && spins < 2000 {
        let _ = buf.update_sixel_threads();
        if !buf.sixel_threads.is_empty() {
            std::thread::sleep(std::time::Duration::from_millis(1));
        }
        spins += 1;
    }
    // no decode thread may outlive its case (its work and its failures belong to this case): wait for stragglers;
    // a decode that never ends is cut off by the supervisor's timeout (inconclusive, worker restarted)
    while let Some(h) = buf.sixel_threads.pop_front() {
        let _ = h.join();
    }
    let touched = buf.layers[0].lines.iter().any(|l| !l.chars.is_empty()) || caret.get_position() != icy_engine::Position::default() || buf.get_height() != c.h as i32;
    let nontrivial = lead_ins(c.emu, &c.data) >= 2 && touched;
    Verdict::pass(nontrivial, format!("{}{}", EMUS[c.emu as usize], if errs > 0 { "+err" } else { "" }))
}

// ------------------------------------------------------------------------------------------ large numbers
// Every control function with parameters up to 2^31-1 on four screen states. With overflow checks on, arithmetic on such a
// parameter (caret row + Pn, Pn * width ...) panics where a release build wraps; the generated streams above stop at 9999.

const BIG_VALUES: [u32; 8] = [0, 1, 0xFFFF_FFFE /* screen size */, 1 << 16, 1_000_000, 0x4000_0000, 2_147_483_599, 2_147_483_647];
const BIG_INTERS: [&str; 8] = ["", " ", "$", "*", "?", "=", "!", "<"];
const BIG_PREFIXES: u64 = 4;

fn big_lists() -> Vec<Vec<u32>> {
    let mut out: Vec<Vec<u32>> = vec![vec![]];
    for a in BIG_VALUES {
        out.push(vec![a]);
        for b in BIG_VALUES {
            out.push(vec![a, b]);
        }
    }
    for k in 3..=5usize {
        for pos in 0..k {
            for l in [1u32 << 16, 2_147_483_599, 2_147_483_647] {
                for fill in [1u32, 0xFFFF_FFFE] {
                    let mut v = vec![fill; k - 1];
                    v.insert(pos, l);
                    out.push(v);
                }
            }
        }
    }
    out
}

fn big_prefix(p: u64) -> Vec<u8> {
    match p {
        1 => {
            // full screen, 100 lines of scrollback, margins set, cursor inside
            let mut v = Vec::new();
            for i in 0..125 {
                v.extend_from_slice(format!("line {i} ").as_bytes());
                v.extend(std::iter::repeat(b'#').take(60));
                v.extend_from_slice(b"\r\n");
            }
            v.extend_from_slice(b"\x1b[5;20r\x1b[10;10H");
            v
        }
        2 => b"\x1b[3;3HX".to_vec(),
        // scrollback only: the cursor sits in the last row of a tall buffer, column 0
        3 => vec![b'\n'; 90],
        _ => Vec::new(),
    }
}

fn big_case(lists: &[Vec<u32>], idx: u64) -> Case {
    let nl = lists.len() as u64;
    let prefix = idx % BIG_PREFIXES;
    let li = ((idx / BIG_PREFIXES) % nl) as usize;
    let rest = idx / BIG_PREFIXES / nl;
    let inter = BIG_INTERS[(rest % 8) as usize];
    let fin = 0x40 + (rest / 8) as u8;
    let mut v = big_prefix(prefix);
    v.extend_from_slice(b"\x1b[");
    let (pre, mid) = match inter {
        "?" | "=" | "!" | "<" => (inter, ""),
        o => ("", o),
    };
    v.extend_from_slice(pre.as_bytes());
    for (i, p) in lists[li].iter().enumerate() {
        if i > 0 {
            v.push(b';');
        }
        let mut val = if *p == 0xFFFF_FFFE { if i % 2 == 0 { 25 } else { 80 } } else { *p };
        if fin == b'b' && inter.is_empty() && i == 0 {
            // REP prints Pn characters: its run time is C03's subject (open finding C03-rep-unbounded)
            val = val.min(9999);
        }
        v.extend_from_slice(val.to_string().as_bytes());
    }
    v.extend_from_slice(mid.as_bytes());
    v.push(fin);
    // something after it: the state the sequence left behind is used once more
    v.extend_from_slice(b"Z\r\n\x1b[A\x1b[2C!");
    Case { emu: 0, w: 80, h: 25, shape: 1, data: Bytes(v) }
}

/// state-setting sequences with large numbers, each followed by every control function
fn big_setters() -> Vec<String> {
    let mut v = Vec::new();
    for n in [1u32 << 16, 2_147_483_599, 2_147_483_647] {
        v.push(format!("\x1b[1;{n}r"));
        v.push(format!("\x1b[{n};{n}r"));
        v.push(format!("\x1b[{n}r"));
        v.push(format!("\x1b[?69h\x1b[1;{n}s"));
        v.push(format!("\x1b[?69h\x1b[{n};{n}s"));
        v.push(format!("\x1b[1;{n};1;{n}r"));
        for k in 0..4 {
            v.push(format!("\x1b[={k};{n}m"));
        }
        v.push(format!("\x1b[1;{n}r\x1b[?6h"));
        v.push(format!("\x1b[{n}G\x1bH\x1b[1G"));
        v.push(format!("\x1b[{n};{n}H"));
        v.push(format!("\x1b[{n}B\x1b[{n}C\x1b[s"));
        v.push(format!("\n\n\x1b[{n}e\x1b[{n}a"));
        v.push(format!("\x1b[{n}d\x1b[{n}`"));
        v.push(format!("\x1b[{n}I"));
        v.push(format!("\x1b[0;{n} D"));
    }
    v
}

fn pair_case(setters: &[String], idx: u64) -> Case {
    let ns = setters.len() as u64;
    let si = (idx % ns) as usize;
    let r = idx / ns;
    let pv = r % 4;
    let scroll = (r / 4) % 2 == 1;
    let inter = BIG_INTERS[((r / 8) % 8) as usize];
    let fin = 0x40 + (r / 64) as u8;
    let mut v: Vec<u8> = if scroll { vec![b'\n'; 90] } else { Vec::new() };
    v.extend_from_slice(setters[si].as_bytes());
    v.extend_from_slice(b"\x1b[");
    let (pre, mid) = match inter {
        "?" | "=" | "!" | "<" => (inter, ""),
        o => ("", o),
    };
    v.extend_from_slice(pre.as_bytes());
    let rep = fin == b'b' && inter.is_empty();
    match pv {
        0 => {}
        1 => v.extend_from_slice(b"1"),
        2 => v.extend_from_slice(b"25"),
        _ => v.extend_from_slice(if rep { b"9999" } else { b"2147483647" }),
    }
    v.extend_from_slice(mid.as_bytes());
    v.push(fin);
    v.extend_from_slice(b"Z\r\n\x1b[A\x1b[2C!\x1b[u?");
    Case { emu: 0, w: 80, h: 25, shape: 1, data: Bytes(v) }
}

fn classify(c: &Case) -> String {
    if stream::has_macro_invoke(&c.data) {
        "macro_invocation".to_string()
    } else {
        format!("emu={}", EMUS[c.emu as usize])
    }
}

fn main() {
    let mut eng = Engine::new("C01");
    eng.rule(
        "Streams = token lists (printable runs, C0, ESC x, every CSI final 0x40..0x7E x intermediates x 0..7 parameters from {empty,0,1,2,mid,size,size+-1,255,9999,0..140}, \
         DCS macro/sixel/font payloads, OSC palette/hyperlinks, APS, ANSI music, per-emulation lead-ins) for 14 emulation configurations on terminal buffers \
         1..=132 x 1..=60 in three allocation shapes; every byte is fed through print_char in a worker process; Ok/Err accepted, panic/abort is a violation. \
         big_numbers (exhaustive): 63 CSI finals x 8 intermediates x parameter lists over {0,1,size,2^16,10^6,2^30,2^31-49,2^31-1} (all lists of length <= 2; lengths 3..5 with one large position) x 4 screen states \
         (fresh; full screen + 100 lines scrollback + margins; one printed char; cursor in the last row of a 90-line scrollback), ANSI emulation 80x25, followed by a printable, CR LF, CUU, CUF and a printable. \
         big_pairs (exhaustive): 54 state-setting sequences carrying 2^16 / 2^31-49 / 2^31-1 (margins, scroll regions, origin mode, far tab stop, far cursor, saved cursor, font selection) x {fresh, 90-line scrollback} x \
         63 finals x 8 intermediates x parameter {none, 1, 25, 2^31-1}, then the same tail plus restore-cursor. \
         exhaustive_3_tokens: every sequence of 1..=3 tokens of the ~90-token control-function alphabet (the one C09 enumerates) on 80x25 and 2x2, each on a fresh screen and after two lines of text, ANSI emulation. \
         macro_chains: chains of 1..20000 distinct hex-encoded macros, macro k invoking macro k+1 through CSI or from inside a DCS string, ids from 0 / 50 / 10^6, then one invocation. \
         macro_bodies: a hex-encoded macro that runs one token of the alphabet (or a reset / string terminator / DCS opener) and then invokes itself, through CSI or from inside a DCS, in four layouts. \
         Non-trivial: the stream contains >= 2 control lead-in bytes of its emulation AND touched the screen (row allocated, cursor moved or height grew); distinct by hash of (emulation,size,shape,bytes).",
    );
    eng.assume("built with overflow checks and debug assertions ON at opt-level 2 (profile `checked`): panics that only a debug build of a front end would hit count as well");
    eng.assume("numeric parameters of the generated streams are capped at 9999 (magnitude-driven work is C03's subject); the big_numbers table carries the magnitudes, with REP's count capped at 9999 (C03's open finding); timeouts and heap-cap hits (2 GiB) are counted as inconclusive, not as violations (C03 owns time and memory)");
    let lists = big_lists();
    let total = 63 * 8 * lists.len() as u64 * BIG_PREFIXES;
    eng.extra("big_numbers_rep_count_capped_at", icyv::serde_json::json!(9999));
    eng.enumerated_with_class(PartCfg::new("big_numbers", 0, 0).isolated().timeout_ms(5_000).heapcap_is_violation(false).exhaustive(true), total, move |i| big_case(&lists, i), check, classify);
    let setters = big_setters();
    let total = setters.len() as u64 * 4 * 2 * 8 * 63;
    eng.enumerated_with_class(PartCfg::new("big_pairs", 0, 0).isolated().timeout_ms(5_000).heapcap_is_violation(false).exhaustive(true), total, move |i| pair_case(&setters, i), check, classify);
    // every 1-, 2- and 3-token sequence over the control-function alphabet that C09 enumerates (cursor, tab, margin, scroll, erase,
    // save/restore, reset functions with boundary parameters, single-edge margin updates with 0, key emulation): crashes that need
    // two state-setting steps and a trigger
    let alpha = stream::alphabet();
    let n = alpha.len() as u64;
    eng.extra("alphabet_tokens", icyv::serde_json::json!(n));
    let sizes: [(u8, u8); 2] = [(80, 25), (2, 2)];
    let per = n + n * n + n * n * n;
    eng.enumerated_with_class(
        PartCfg::new("exhaustive_3_tokens", 0, 0).isolated().timeout_ms(20_000).heapcap_is_violation(false).exhaustive(true),
        per * sizes.len() as u64 * 2,
        move |idx| {
            // second half: the same sequences on a screen that already holds two lines of text (cursor in row 2, rows allocated)
            let with_text = idx >= per * sizes.len() as u64;
            let idx = idx % (per * sizes.len() as u64);
            let (w, h) = sizes[(idx / per) as usize];
            let k = idx % per;
            let toks: Vec<stream::Tok> = if k < n {
                vec![alpha[k as usize].clone()]
            } else if k < n + n * n {
                let k = k - n;
                vec![alpha[(k / n) as usize].clone(), alpha[(k % n) as usize].clone()]
            } else {
                let k = k - n - n * n;
                vec![alpha[(k / (n * n)) as usize].clone(), alpha[((k / n) % n) as usize].clone(), alpha[(k % n) as usize].clone()]
            };
            let mut data = if with_text { b"some text\r\nmore text\r\n".to_vec() } else { Vec::new() };
            data.extend(stream::render(&toks, w as i32, h as i32, 9999));
            Case { emu: 0, w, h, shape: (k % 3) as u8, data: Bytes(data) }
        },
        check,
        classify,
    );
    // chains of distinct macros (no cycle): the nesting limit, not cycle detection, is what bounds the stack
    const CHAIN_LENGTHS: [u32; 14] = [1, 2, 7, 8, 9, 10, 63, 64, 65, 150, 400, 1000, 5000, 20000];
    eng.enumerated_with_class(
        PartCfg::new("macro_chains", 0, 0).isolated().timeout_ms(30_000).heapcap_is_violation(false).exhaustive(true),
        CHAIN_LENGTHS.len() as u64 * 3 * 2,
        |i| {
            let n = CHAIN_LENGTHS[(i % 14) as usize];
            let base = [0u32, 50, 1_000_000][((i / 14) % 3) as usize];
            let in_dcs = i / 42 == 1;
            Case { emu: 0, w: 80, h: 25, shape: 1, data: Bytes(stream::macro_chain(n, base, in_dcs)) }
        },
        check,
        classify,
    );
    // a self-invoking macro whose body first runs one token of the control-function alphabet (resets, mode switches, margins ...):
    // nothing a macro body does may defeat the nesting limit
    let body_tokens: Vec<Vec<u8>> = {
        let mut v: Vec<Vec<u8>> = stream::alphabet().iter().map(|t| stream::render(std::slice::from_ref(t), 80, 25, 9999)).collect();
        for extra in [&b"\x1bc"[..], b"\x1b[!p", b"\x1b[0*z", b"\x1b\\", b"\x1bP", b"\x1b]8;;\x1b\\", b"\x18", b"\x1a"] {
            v.push(extra.to_vec());
        }
        v
    };
    let n_body = body_tokens.len() as u64;
    eng.enumerated_with_class(
        PartCfg::new("macro_bodies", 0, 0).isolated().timeout_ms(30_000).heapcap_is_violation(false).exhaustive(true),
        n_body * 4,
        move |i| {
            let tok = &body_tokens[(i % n_body) as usize];
            let variant = i / n_body;
            // body = token + self-invocation (variants 0, 1) or self-invocation + token + self-invocation (2, 3); odd variants invoke from inside a DCS
            let invoke: &[u8] = if variant % 2 == 1 { b"\x1b\\\x1bP\x1b[1*z" } else { b"\x1b[1*z" };
            let mut body = Vec::new();
            if variant >= 2 {
                body.extend_from_slice(invoke);
            }
            body.extend_from_slice(tok);
            body.extend_from_slice(invoke);
            let mut v = b"\x1bP1;0;1!z".to_vec();
            for b in body {
                v.extend_from_slice(format!("{b:02X}").as_bytes());
            }
            v.extend_from_slice(b"\x1b\\\x1b[1*zafter\r\n");
            Case { emu: 0, w: 80, h: 25, shape: 1, data: Bytes(v) }
        },
        check,
        classify,
    );
    eng.generated_min(PartCfg::new("streams", 900_000, 12_000_000).isolated().timeout_ms(30_000).heapcap_is_violation(false), || cases(40), check, classify, minimize);
    // the same grammar with the symbolic maximum rendered as 2^31-1 (short streams; a case that runs away is cut off after 3 s and is inconclusive)
    eng.generated_min(PartCfg::new("big_streams", 200_000, 3_000_000).isolated().timeout_ms(3_000).heapcap_is_violation(false), || cases_capped(12, 2_147_483_647), check, classify, minimize);
    eng.generated_min(PartCfg::new("long_streams", 15_000, 300_000).isolated().timeout_ms(60_000).heapcap_is_violation(false), || cases(400), check, classify, minimize);
    eng.run();
}
