//! Reference decoders written from the format documents (never calling the code under test):
//!   XBin    — /repo/doc/FileFormats/x_bin.htm
//!   ADF     — /repo/doc/FileFormats/Adf/ArtworxDataFormat.txt (+ STD_EGA_TO_VGA_PAL of adf2xbin.pas)
//!   IDF     — /repo/doc/FileFormats/IceDraw/idv_103.pas (LoadPic)
//!   BIN     — raw character/attribute pairs, width = 2 x SAUCE FileType (SAUCE rev. 5, DataType 5 BinaryText)
//!   Tundra  — header 24,"TUNDRA24"; 1 = position (y,x: u32 BE); 2 / 4 / 6 = character + fg / bg / fg+bg as 4 bytes
//!             (pad,R,G,B) each; any other byte is a literal character in the current colours; width from SAUCE TInfo1
//! An error is (class, message): the class is a stable word, the message has the details.

pub type DecErr = (String, String);

fn err<T>(class: &str, msg: String) -> Result<T, DecErr> {
    Err((class.to_string(), msg))
}

#[derive(Debug, Clone)]
pub struct Sauce {
    pub data_type: u8,
    pub file_type: u8,
    pub tinfo1: u16,
    #[allow(dead_code)]
    pub tinfo2: u16,
    pub flags: u8,
}

/// Split a file into (length of the data part, SAUCE record). The record is the last 128 bytes starting with
/// "SAUCE"; an optional comment block ("COMNT" + 64 x n) and one EOF character (0x1A) precede it.
pub fn split_sauce(b: &[u8]) -> (usize, Option<Sauce>) {
    if b.len() < 128 {
        return (b.len(), None);
    }
    let r = &b[b.len() - 128..];
    if &r[0..5] != b"SAUCE" {
        return (b.len(), None);
    }
    let s = Sauce {
        data_type: r[94],
        file_type: r[95],
        tinfo1: u16::from_le_bytes([r[96], r[97]]),
        tinfo2: u16::from_le_bytes([r[98], r[99]]),
        flags: r[105],
    };
    let comments = r[104] as usize;
    let mut end = b.len() - 128;
    if comments > 0 {
        let need = 5 + 64 * comments;
        if end >= need && &b[end - need..end - need + 5] == b"COMNT" {
            end -= need;
        }
    }
    if end > 0 && b[end - 1] == 0x1A {
        end -= 1;
    }
    (end, Some(s))
}

/// A picture of (character, attribute byte) cells with optional palette and fonts.
#[derive(Debug, Clone, Default)]
pub struct IdxPic {
    pub w: usize,
    pub h: usize,
    /// Some(true) = iCE colours / non-blink, Some(false) = blink, None = the file does not say
    pub ice: Option<bool>,
    pub chars512: bool,
    pub font_h: usize,
    /// 16 x (r,g,b), 6-bit components, if the file carries a palette
    pub palette6: Option<Vec<u8>>,
    /// glyph tables (256 x font_h bytes each) if the file carries fonts
    pub fonts: Vec<Vec<u8>>,
    pub cells: Vec<(u8, u8)>,
}

pub fn decode_xb(file: &[u8]) -> Result<IdxPic, DecErr> {
    let (end, _) = split_sauce(file);
    let b = &file[..end];
    if b.len() < 11 {
        return err("header_truncated", format!("{} bytes", b.len()));
    }
    if &b[0..4] != b"XBIN" {
        return err("id", format!("{:?}", &b[0..4]));
    }
    if b[4] != 0x1A {
        return err("eof_char", format!("{:#04x}", b[4]));
    }
    let w = u16::from_le_bytes([b[5], b[6]]) as usize;
    let h = u16::from_le_bytes([b[7], b[8]]) as usize;
    let font_h = b[9] as usize;
    let flags = b[10];
    if !(1..=32).contains(&font_h) {
        return err("fontsize_illegal", format!("FontSize {font_h}"));
    }
    if flags & 0xE0 != 0 {
        return err("unused_flag_bits", format!("flags {flags:#04x}"));
    }
    let has_pal = flags & 1 != 0;
    let has_font = flags & 2 != 0;
    let compressed = flags & 4 != 0;
    let nonblink = flags & 8 != 0;
    let chars512 = flags & 16 != 0;
    if font_h != 16 && !has_font {
        return err("font_flag_missing", format!("FontSize {font_h} without the Font bit"));
    }
    if chars512 && !has_font {
        return err("font_flag_missing", "512Chars without the Font bit".to_string());
    }
    let mut o = 11;
    let mut pic = IdxPic { w, h, ice: Some(nonblink), chars512, font_h, ..Default::default() };
    if has_pal {
        if o + 48 > b.len() {
            return err("palette_truncated", String::new());
        }
        let p = b[o..o + 48].to_vec();
        if let Some(v) = p.iter().find(|v| **v > 63) {
            return err("palette_value_range", format!("palette value {v} > 63"));
        }
        pic.palette6 = Some(p);
        o += 48;
    }
    if has_font {
        let n = if chars512 { 2 } else { 1 };
        for _ in 0..n {
            let len = 256 * font_h;
            if o + len > b.len() {
                return err("font_truncated", String::new());
            }
            pic.fonts.push(b[o..o + len].to_vec());
            o += len;
        }
    }
    let d = &b[o..];
    let mut cells = Vec::with_capacity(w * h);
    if !compressed {
        if d.len() != w * h * 2 {
            return err("image_size", format!("raw image data is {} bytes, Width*Height*2 = {}", d.len(), w * h * 2));
        }
        for p in d.chunks(2) {
            cells.push((p[0], p[1]));
        }
    } else {
        let mut i = 0;
        for y in 0..h {
            let mut x = 0;
            while x < w {
                if i >= d.len() {
                    return err("image_truncated", format!("row {y} ends at column {x} of {w}"));
                }
                let typ = d[i] >> 6;
                let n = (d[i] & 63) as usize + 1;
                i += 1;
                if x + n > w {
                    return err("run_crosses_row_end", format!("row {y}: run of {n} at column {x}, width {w}"));
                }
                let need = match typ {
                    0 => 2 * n,
                    1 | 2 => 1 + n,
                    _ => 2,
                };
                if i + need > d.len() {
                    return err("image_truncated", format!("row {y}: run payload beyond the end of the data"));
                }
                match typ {
                    0 => {
                        for k in 0..n {
                            cells.push((d[i + 2 * k], d[i + 2 * k + 1]));
                        }
                    }
                    1 => {
                        for k in 0..n {
                            cells.push((d[i], d[i + 1 + k]));
                        }
                    }
                    2 => {
                        for k in 0..n {
                            cells.push((d[i + 1 + k], d[i]));
                        }
                    }
                    _ => {
                        for _ in 0..n {
                            cells.push((d[i], d[i + 1]));
                        }
                    }
                }
                i += need;
                x += n;
            }
        }
        if i != d.len() {
            return err("trailing_bytes", format!("{} bytes after the last row", d.len() - i));
        }
    }
    pic.cells = cells;
    Ok(pic)
}

pub fn decode_bin(file: &[u8]) -> Result<IdxPic, DecErr> {
    let (end, sauce) = split_sauce(file);
    let d = &file[..end];
    let (w, ice) = match &sauce {
        Some(s) if s.data_type == 5 => (2 * s.file_type as usize, Some(s.flags & 1 != 0)),
        Some(s) => return err("sauce_datatype", format!("DataType {} is not BinaryText (5)", s.data_type)),
        None => (160, None),
    };
    if w == 0 {
        return err("width", "SAUCE FileType 0 (width 0)".to_string());
    }
    if d.len() % (2 * w) != 0 {
        return err("image_size", format!("{} data bytes are not a whole number of {w}-column rows", d.len()));
    }
    Ok(IdxPic { w, h: d.len() / (2 * w), ice, font_h: 16, cells: d.chunks(2).map(|p| (p[0], p[1])).collect(), ..Default::default() })
}

/// attribute colour -> VGA DAC register (default EGA palette registers of the attribute controller)
pub const PC: [usize; 16] = [0, 1, 2, 3, 4, 5, 20, 7, 56, 57, 58, 59, 60, 61, 62, 63];

pub fn decode_adf(file: &[u8]) -> Result<IdxPic, DecErr> {
    let (end, _) = split_sauce(file);
    let b = &file[..end];
    if b.len() < 1 + 192 + 4096 {
        return err("header_truncated", format!("{} bytes", b.len()));
    }
    if b[0] != 1 {
        return err("version", format!("{}", b[0]));
    }
    let regs = &b[1..193];
    if let Some(v) = regs.iter().find(|v| **v > 63) {
        return err("palette_value_range", format!("DAC value {v} > 63"));
    }
    let mut pal = Vec::with_capacity(48);
    for reg in PC {
        pal.extend_from_slice(&regs[3 * reg..3 * reg + 3]);
    }
    let d = &b[4289..];
    if d.len() % 160 != 0 {
        return err("image_size", format!("{} screen bytes are not a whole number of 80-column rows", d.len()));
    }
    Ok(IdxPic {
        w: 80,
        h: d.len() / 160,
        ice: Some(true),
        chars512: false,
        font_h: 16,
        palette6: Some(pal),
        fonts: vec![b[193..4289].to_vec()],
        cells: d.chunks(2).map(|p| (p[0], p[1])).collect(),
    })
}

/// number of cells an IDF screen-data section expands to (used to keep fuzzed files inside the 200-line format)
pub fn idf_expanded_cells(file: &[u8]) -> usize {
    let (end, _) = split_sauce(file);
    if end < 12 + 4096 + 48 {
        return 0;
    }
    let d = &file[12..end - 4096 - 48];
    let mut i = 0;
    let mut n = 0usize;
    while i + 1 < d.len() {
        let wd = u16::from_le_bytes([d[i], d[i + 1]]);
        i += 2;
        if wd == 1 {
            if i + 3 >= d.len() {
                break;
            }
            n += u16::from_le_bytes([d[i], d[i + 1]]) as usize;
            i += 4;
        } else {
            n += 1;
        }
    }
    n
}

pub fn decode_idf(file: &[u8]) -> Result<IdxPic, DecErr> {
    let (end, _) = split_sauce(file);
    let b = &file[..end];
    if b.len() < 12 + 4096 + 48 {
        return err("header_truncated", format!("{} bytes", b.len()));
    }
    // VERSION is a Pascal string[4] filled by BlockRead(F, VERSION, 4): length byte #4, then '1' '.' and the minor digit
    if b[0] != 4 || b[1] != b'1' || b[2] != b'.' || !(b[3] == b'3' || b[3] == b'4') {
        return err("version", format!("{:?}", &b[0..4]));
    }
    let x1 = u16::from_le_bytes([b[4], b[5]]) as usize;
    let y1 = u16::from_le_bytes([b[6], b[7]]) as usize;
    let x2 = u16::from_le_bytes([b[8], b[9]]) as usize;
    let y2 = u16::from_le_bytes([b[10], b[11]]) as usize;
    if x2 < x1 || y2 < y1 || x2 > 79 {
        return err("bounds", format!("x1 {x1} y1 {y1} x2 {x2} y2 {y2}"));
    }
    let w = x2 - x1 + 1;
    let h = y2 - y1 + 1;
    let d = &b[12..b.len() - 4096 - 48];
    if d.len() % 2 != 0 {
        return err("image_size", "odd number of screen-data bytes".to_string());
    }
    let mut cells = Vec::with_capacity(w * h);
    let mut i = 0;
    while i < d.len() {
        let wd = (d[i], d[i + 1]);
        i += 2;
        if wd == (1, 0) {
            if i + 4 > d.len() {
                return err("image_truncated", "run marker without count and value".to_string());
            }
            let n = u16::from_le_bytes([d[i], d[i + 1]]) as usize;
            let v = (d[i + 2], d[i + 3]);
            i += 4;
            for _ in 0..n {
                cells.push(v);
            }
        } else {
            cells.push(wd);
        }
    }
    if cells.len() != w * h {
        return err("image_size", format!("screen data expands to {} cells, bounds give {w} x {h} = {}", cells.len(), w * h));
    }
    let pal = b[b.len() - 48..].to_vec();
    if let Some(v) = pal.iter().find(|v| **v > 63) {
        return err("palette_value_range", format!("palette value {v} > 63"));
    }
    Ok(IdxPic {
        w,
        h,
        ice: Some(true),
        chars512: false,
        font_h: 16,
        palette6: Some(pal),
        fonts: vec![b[b.len() - 48 - 4096..b.len() - 48].to_vec()],
        cells,
    })
}

#[derive(Debug, Clone, Copy, PartialEq, Eq)]
pub struct RgbCell {
    pub ch: u8,
    pub fg: [u8; 3],
    pub bg: [u8; 3],
}

#[derive(Debug, Clone, Default)]
pub struct RgbPic {
    pub w: usize,
    pub h: usize,
    /// row-major, None = never drawn
    pub cells: Vec<Option<RgbCell>>,
    /// largest row a position command names (fuzz pre-scan)
    pub max_row: usize,
}

/// `limit_rows`: stop with an error when the picture grows beyond that many rows (fuzz pre-scan)
pub fn decode_tnd(file: &[u8], limit_rows: usize) -> Result<RgbPic, DecErr> {
    let (end, sauce) = split_sauce(file);
    let b = &file[..end];
    if b.len() < 9 {
        return err("header_truncated", format!("{} bytes", b.len()));
    }
    if b[0] != 24 || &b[1..9] != b"TUNDRA24" {
        return err("id", format!("{:?}", &b[0..9]));
    }
    let w = match &sauce {
        Some(s) if s.data_type == 1 && s.file_type == 8 => s.tinfo1 as usize,
        Some(s) => return err("sauce_type", format!("SAUCE DataType {} FileType {} is not Character/TundraDraw", s.data_type, s.file_type)),
        None => 80,
    };
    if w == 0 {
        return err("width", "SAUCE TInfo1 = 0".to_string());
    }
    let mut pic = RgbPic { w, ..Default::default() };
    // colours before the first colour command: black on black (assumption, stated in the evidence)
    let (mut fg, mut bg) = ([0u8; 3], [0u8; 3]);
    let (mut x, mut y) = (0usize, 0usize);
    let mut i = 9;
    let rgb = |i: usize| -> [u8; 3] { [b[i + 1], b[i + 2], b[i + 3]] };
    while i < b.len() {
        let c = b[i];
        let ch;
        match c {
            1 => {
                if i + 9 > b.len() {
                    return err("truncated_command", "position".to_string());
                }
                y = u32::from_be_bytes([b[i + 1], b[i + 2], b[i + 3], b[i + 4]]) as usize;
                x = u32::from_be_bytes([b[i + 5], b[i + 6], b[i + 7], b[i + 8]]) as usize;
                pic.max_row = pic.max_row.max(y);
                if x >= w || y > limit_rows {
                    return err("position_out_of_range", format!("position ({x},{y}), width {w}"));
                }
                i += 9;
                continue;
            }
            2 | 4 => {
                if i + 6 > b.len() {
                    return err("truncated_command", "colour".to_string());
                }
                ch = b[i + 1];
                if c == 2 {
                    fg = rgb(i + 2);
                } else {
                    bg = rgb(i + 2);
                }
                i += 6;
            }
            6 => {
                if i + 10 > b.len() {
                    return err("truncated_command", "colours".to_string());
                }
                ch = b[i + 1];
                fg = rgb(i + 2);
                bg = rgb(i + 6);
                i += 10;
            }
            _ => {
                ch = c;
                i += 1;
            }
        }
        if y > limit_rows {
            return err("too_many_rows", format!("row {y}"));
        }
        if y >= pic.h {
            pic.h = y + 1;
            pic.cells.resize(pic.h * w, None);
        }
        pic.cells[y * w + x] = Some(RgbCell { ch, fg, bg });
        x += 1;
        if x >= w {
            x = 0;
            y += 1;
        }
    }
    Ok(pic)
}

/// lenient pre-scan for the fuzz parts: the largest row any position command or the running cursor reaches
/// (signed, as the 4 bytes are; no header check) — used only to keep fuzzed files small
pub fn tnd_max_row(file: &[u8]) -> i64 {
    let (end, sauce) = split_sauce(file);
    let b = &file[..end];
    let w = sauce.map(|s| s.tinfo1 as i64).filter(|w| (1..=1000).contains(w)).unwrap_or(80);
    let (mut x, mut y, mut max) = (0i64, 0i64, 0i64);
    let mut i = 9;
    while i < b.len() {
        match b[i] {
            1 => {
                if i + 9 > b.len() {
                    break;
                }
                y = i32::from_be_bytes([b[i + 1], b[i + 2], b[i + 3], b[i + 4]]) as i64;
                x = i32::from_be_bytes([b[i + 5], b[i + 6], b[i + 7], b[i + 8]]) as i64;
                max = max.max(y);
                i += 9;
                continue;
            }
            2 | 3 | 4 | 5 => i += 6,
            6 => i += 10,
            _ => i += 1,
        }
        max = max.max(y);
        x += 1;
        if x >= w {
            x = 0;
            y += 1;
        }
    }
    max
}
