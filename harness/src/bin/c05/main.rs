//! C05 — binary art formats (XBin, BIN, ADF, IDF, Tundra) reproduce what was saved.
//!
//! Parts `xb`, `bin`, `adf`, `idf`, `tnd`: generated buffers inside the representable domain of the format;
//!   (2) the saved bytes are decoded by a specification-derived reference decoder and compared with the model
//!       (`<fmt>|refdecode|..` = the writer is wrong), then
//!   (1) the saved bytes are loaded and compared with the original buffer (`<fmt>|roundtrip|..` = the loader is
//!       wrong, the bytes having passed the reference decoder), then
//!   (3) the loaded buffer is saved and loaded again and must show the same picture (`<fmt>|resave|..`).
//! Parts `*_fuzz`: mutated files; when the loader accepts one, clause (3) is checked on it.
mod model;
mod refdec;

use icy_engine::{Buffer, IceMode, TextPane};
use icyv::proptest::prelude::*;
use icyv::util::{pick, Bytes};
use icyv::{Engine, PartCfg, Verdict};
use model::{Cell, Fmt, Model, Steer};

/// open known findings the generators steer away from (order = fields of `Steer`)
const STEER_IDS: [&str; 4] = ["C05-tnd-ctrl-chars", "C05-tnd-palette0-not-black", "C05-xb-512-without-font", "C05-idf-loader-accepts-unwritable"];
use serde::{Deserialize, Serialize};
use std::path::PathBuf;

fn strip_digits(s: &str) -> String {
    let mut out = String::new();
    let mut last = false;
    for c in s.chars() {
        if c.is_ascii_digit() {
            if !last {
                out.push('#');
            }
            last = true;
        } else {
            out.push(if c == '|' || c == '\n' { ' ' } else { c });
            last = false;
        }
    }
    out.chars().take(60).collect()
}

fn load(fmt: Fmt, bytes: &[u8]) -> Result<Buffer, String> {
    Buffer::from_bytes(&PathBuf::from(format!("c05.{}", fmt.ext())), false, bytes).map_err(|e| e.to_string())
}

/// debugging aid for hand replays: C05_DUMP=<dir> writes the files a case produces
fn dump(name: &str, bytes: &[u8]) {
    if let Ok(d) = std::env::var("C05_DUMP") {
        let _ = std::fs::write(PathBuf::from(d).join(name), bytes);
    }
}

#[allow(dead_code)]
fn hclass(h: u16) -> &'static str {
    if h < 25 {
        "h<25"
    } else if h == 25 {
        "h=25"
    } else {
        "h>25"
    }
}

// ------------------------------------------------------------------------------------------------ picture comparison

/// what a cell shows
#[derive(Debug, Clone, PartialEq)]
struct Shown {
    ch: u32,
    fg: (u8, u8, u8),
    bg: (u8, u8, u8),
    blink: bool,
    page: usize,
}

fn shown(buf: &Buffer, x: i32, y: i32) -> Shown {
    let c = buf.get_char((x, y));
    let a = c.attribute;
    let mut fg = a.get_foreground();
    if a.is_bold() && fg < 8 {
        fg += 8;
    }
    Shown { ch: c.ch as u32, fg: buf.palette.get_rgb(fg), bg: buf.palette.get_rgb(a.get_background()), blink: a.is_blinking(), page: a.get_font_page() }
}

fn glyph_table(buf: &Buffer, page: usize) -> Option<(i32, i32, Vec<Option<Vec<u8>>>)> {
    let f = buf.get_font(page)?;
    let mut v = Vec::with_capacity(256);
    for c in 0..256u32 {
        v.push(f.get_glyph(char::from_u32(c).unwrap()).map(|g| g.data.clone()));
    }
    Some((f.size.width, f.size.height, v))
}

struct Diff {
    field: &'static str,
    msg: String,
    /// row-major index of the differing cell (None for width / height)
    cell: Option<usize>,
}

/// Do `a` and `b` show the same picture? Order: width, then the cells of the common rows (first differing cell,
/// fields in the order char, fg, bg, blink, glyph), then height. `fonts`: also compare the glyphs the cells are drawn with.
fn same_picture(a: &Buffer, b: &Buffer, fonts: bool) -> Option<Diff> {
    if a.get_width() != b.get_width() {
        return Some(Diff { field: "width", msg: format!("width {} -> {}", a.get_width(), b.get_width()), cell: None });
    }
    let rows = a.get_height().min(b.get_height());
    // font pages are compared through the glyph tables they select: (page in a, page in b) -> equal?
    let mut page_pairs: Vec<(usize, usize, bool)> = Vec::new();
    for y in 0..rows {
        for x in 0..a.get_width() {
            let (p, q) = (shown(a, x, y), shown(b, x, y));
            let at = |f: &str, l: String, r: String| format!("cell ({x},{y}) {f}: {l} -> {r}; first {p:?} second {q:?}");
            let cell = Some((y * a.get_width() + x) as usize);
            if p != q && !a.layers.is_empty() && !b.layers.is_empty() {
                // a cell the loader never stored shows as a default blank: one symptom class, whatever field differs
                let (va, vb) = (a.layers[0].get_char((x, y)).is_visible(), b.layers[0].get_char((x, y)).is_visible());
                if va && !vb {
                    return Some(Diff { field: "cell_missing", msg: at("stored cell", "set".to_string(), "unset (shows as default blank)".to_string()), cell });
                }
            }
            if p.ch != q.ch {
                return Some(Diff { field: "char", msg: at("char", format!("{:#04x}", p.ch), format!("{:#04x}", q.ch)), cell });
            }
            if p.fg != q.fg {
                return Some(Diff { field: "fg", msg: at("foreground", format!("{:?}", p.fg), format!("{:?}", q.fg)), cell });
            }
            if p.bg != q.bg {
                return Some(Diff { field: "bg", msg: at("background", format!("{:?}", p.bg), format!("{:?}", q.bg)), cell });
            }
            if p.blink != q.blink {
                return Some(Diff { field: "blink", msg: at("blink", p.blink.to_string(), q.blink.to_string()), cell });
            }
            if fonts {
                let eq = match page_pairs.iter().find(|e| e.0 == p.page && e.1 == q.page) {
                    Some(e) => e.2,
                    None => {
                        let eq = glyph_table(a, p.page) == glyph_table(b, q.page);
                        page_pairs.push((p.page, q.page, eq));
                        eq
                    }
                };
                if !eq {
                    let (ga, gb) = (glyph_table(a, p.page), glyph_table(b, q.page));
                    let what = match (&ga, &gb) {
                        (Some(_), None) => "second buffer has no font for the page".to_string(),
                        (None, Some(_)) => "first buffer has no font for the page".to_string(),
                        (Some(x), Some(y)) if (x.0, x.1) != (y.0, y.1) => format!("font size {}x{} -> {}x{}", x.0, x.1, y.0, y.1),
                        _ => "glyph bitmaps differ".to_string(),
                    };
                    return Some(Diff { field: "glyph", msg: at("font page", p.page.to_string(), format!("{} ({what})", q.page)), cell });
                }
            }
        }
    }
    if a.get_height() != b.get_height() {
        return Some(Diff { field: "height", msg: format!("height {} -> {}", a.get_height(), b.get_height()), cell: None });
    }
    None
}

// ------------------------------------------------------------------------------------------------ clause (2): reference decoding

/// `hi` = the model font page that is the file's second font (512-character mode): the one in the higher slot
fn expected_attr(m: &Model, c: &Cell, hi: Option<u8>) -> u8 {
    let fg = if let Some(hi) = hi { (c.fg & 7) | if c.page == hi { 8 } else { 0 } } else { c.fg & 15 };
    let bg = if m.ice { c.bg & 15 } else { (c.bg & 7) | if c.blink { 8 } else { 0 } };
    fg | (bg << 4)
}

/// compare an index picture decoded from the file with the model; Err((key tail, message))
fn compare_idx(m: &Model, cells: &[Cell], d: &refdec::IdxPic) -> Result<(), (String, String)> {
    let e = |k: &str, msg: String| Err((k.to_string(), msg));
    if d.w != m.w as usize {
        return e("width", format!("file says width {}, saved buffer has {}", d.w, m.w));
    }
    // the file stores the used fonts in the order of their font-table slots
    let mut used = m.used_pages(cells);
    used.sort_by_key(|p| m.slot(*p));
    let two = used.len() == 2;
    let hi = if two { Some(used[1]) } else { None };
    if d.chars512 != two {
        return e("chars512_flag", format!("512Chars flag {} but the picture uses font pages {:?}", d.chars512, used));
    }
    let rows = d.h.min(m.h as usize);
    for i in 0..rows * d.w {
        let c = &cells[i];
        let (ch, at) = d.cells[i];
        let want = expected_attr(m, c, hi);
        let pos = format!("cell ({},{})", i % d.w, i / d.w);
        if ch != c.ch {
            return e("char", format!("{pos}: file has character {ch:#04x}, buffer {:#04x}", c.ch));
        }
        if at != want {
            let x = at ^ want;
            let (field, what) = if two && x & 0x08 != 0 {
                ("font_page", "font page bit 3")
            } else if x & 0x0F != 0 {
                ("fg", "foreground")
            } else if !m.ice && x & 0x80 != 0 {
                ("blink", "blink bit 7")
            } else {
                ("bg", "background")
            };
            let class = if m.fmt == Fmt::Xb {
                match (m.compress, field == "font_page" && !m.slots.is_empty()) {
                    (true, false) => "|compressed",
                    (false, false) => "|raw",
                    // the two fonts do not sit in font-table slots 0 and 1
                    (true, true) => "|compressed|fonts_outside_slots_0_1",
                    (false, true) => "|raw|fonts_outside_slots_0_1",
                }
            } else {
                ""
            };
            return e(&format!("{field}{class}"), format!("{pos}: {what}: file has attribute {at:#04x}, buffer cell {c:?} (font slots {:?}) needs {want:#04x}", m.slots));
        }
    }
    if d.h != m.h as usize {
        return e("height", format!("file says height {}, saved buffer has {}", d.h, m.h));
    }
    if let Some(ice) = d.ice {
        if ice != m.ice {
            // the attached (stale) record says the opposite of the buffer: the flag must come from the buffer
            let class = if m.rec.as_ref().is_some_and(|r| r.use_ice != m.ice) { "|stale_record_disagrees" } else { "" };
            return e(&format!("ice_mode{class}"), format!("file says non-blink/iCE = {ice}, buffer ice = {}, attached record {:?}", m.ice, m.rec));
        }
    }
    if m.fmt.embeds_palette() {
        let want: Vec<u8> = m.palette.iter().flatten().copied().collect();
        match &d.palette6 {
            Some(p) => {
                if *p != want {
                    let i = (0..48).find(|i| p[*i] != want[*i]).unwrap();
                    return e("palette", format!("colour {} component {}: file {}, buffer {}", i / 3, i % 3, p[i], want[i]));
                }
            }
            None => {
                if !m.is_default_palette() {
                    return e("palette_missing", "custom palette but the file carries none".to_string());
                }
            }
        }
    }
    if m.fmt.embeds_font() {
        if d.fonts.is_empty() {
            if used.iter().any(|p| m.fonts[*p as usize] != model::FontM::Default) {
                // the writer decides by the font's NAME whether to store it
                let class = if used.iter().any(|p| m.names.get(*p as usize) == Some(&20)) { "|own_glyphs_named_like_default_font" } else { "" };
                return e(&format!("font_missing{class}"), format!("custom font (names {:?}) but the file carries none", m.names));
            }
        } else {
            if d.font_h != m.font_h as usize {
                return e("font_height", format!("file font height {}, buffer {}", d.font_h, m.font_h));
            }
            if d.fonts.len() != used.len() {
                return e("font_count", format!("file has {} fonts, picture uses pages {:?}", d.fonts.len(), used));
            }
            for (k, p) in used.iter().enumerate() {
                let want = m.font_data(*p as usize);
                if d.fonts[k] != want {
                    let i = (0..want.len().min(d.fonts[k].len())).find(|i| d.fonts[k][*i] != want[*i]).unwrap_or(0);
                    return e("font", format!("font {k} (page {p}): glyph {} row {} differs", i / m.font_h as usize, i % m.font_h as usize));
                }
            }
        }
    }
    Ok(())
}

fn compare_tnd(m: &Model, cells: &[Cell], d: &refdec::RgbPic) -> Result<(), (String, String)> {
    let e = |k: &str, msg: String| Err((k.to_string(), msg));
    if d.w != m.w as usize {
        return e("width", format!("SAUCE width {}, saved buffer has {}", d.w, m.w));
    }
    let pal = m.palette8();
    let rows = d.h.min(m.h as usize);
    let mut prev_ctrl = false;
    for i in 0..rows * d.w {
        let c = &cells[i];
        let want = refdec::RgbCell { ch: c.ch, fg: pal[c.fg as usize], bg: pal[c.bg as usize] };
        let pos = format!("cell ({},{})", i % d.w, i / d.w);
        let ctrl = (1..=6).contains(&c.ch);
        match d.cells[i] {
            None => return e("cell_missing", format!("{pos}: never drawn by the file, buffer has {c:?}")),
            Some(g) => {
                if g != want {
                    let field = if g.ch != want.ch {
                        "char"
                    } else if c.rep == 2 && g.fg != want.fg {
                        // the cell stores a bright foreground (8..=15) AND the BOLD flag; it shows as entry fg
                        "fg|bold_flag_on_bright_fg"
                    } else if ctrl {
                        "color_of_ctrl_char"
                    } else if prev_ctrl {
                        // the cell after a character 1..=6: its colour commands are relative to a state the file never set
                        "color_after_ctrl_char"
                    } else if g.fg != want.fg {
                        // the writer emits no foreground command while the colour equals palette entry 0
                        if pal[0] != [0, 0, 0] && (0..=i).all(|k| pal[cells[k].fg as usize] == pal[0]) {
                            "initial_colour|palette0_not_black"
                        } else {
                            "fg"
                        }
                    } else if pal[0] != [0, 0, 0] && (0..=i).all(|k| pal[cells[k].bg as usize] == pal[0]) {
                        "initial_colour|palette0_not_black"
                    } else {
                        "bg"
                    };
                    return e(field, format!("{pos}: file draws {g:?}, buffer shows {want:?}"));
                }
            }
        }
        prev_ctrl = ctrl || (prev_ctrl && d.cells[i].map(|g| g != want).unwrap_or(false));
    }
    if d.h != m.h as usize {
        return e("height", format!("file draws {} rows, saved buffer has {}", d.h, m.h));
    }
    Ok(())
}

/// a cell (character 1, attribute 0) — the IDF run marker — that has no equal neighbour in its row
fn lone_marker(w: usize, n: usize, is_marker: impl Fn(usize) -> bool) -> bool {
    (0..n).any(|i| is_marker(i) && (i % w == 0 || !is_marker(i - 1)) && (i % w == w - 1 || i + 1 >= n || !is_marker(i + 1)))
}

fn refdecode(m: &Model, cells: &[Cell], bytes: &[u8]) -> Result<(), (String, String)> {
    let dec_err = |(c, msg): refdec::DecErr| (format!("malformed|{c}"), format!("the saved file violates the format description: {c}: {msg}"));
    if m.fmt == Fmt::Idf && m.compress && lone_marker(m.w as usize, cells.len(), |i| cells[i].ch == 1 && cells[i].fg == 0 && cells[i].bg == 0) {
        // one input class, many symptoms (the stream loses sync): fold them into one key
        let r = refdec::decode_idf(bytes).map_err(dec_err).and_then(|d| compare_idx(m, cells, &d));
        return r.map_err(|(k, msg)| ("compress+lone_marker_cell".to_string(), format!("[{k}] {msg}")));
    }
    match m.fmt {
        Fmt::Xb => compare_idx(m, cells, &refdec::decode_xb(bytes).map_err(dec_err)?),
        Fmt::Bin => compare_idx(m, cells, &refdec::decode_bin(bytes).map_err(dec_err)?),
        Fmt::Adf => compare_idx(m, cells, &refdec::decode_adf(bytes).map_err(dec_err)?),
        Fmt::Idf => compare_idx(m, cells, &refdec::decode_idf(bytes).map_err(dec_err)?),
        Fmt::Tnd => compare_tnd(m, cells, &refdec::decode_tnd(bytes, 100_000).map_err(dec_err)?),
    }
}

// ------------------------------------------------------------------------------------------------ clause (1): save -> load

fn roundtrip(m: &Model, cells: &[Cell], orig: &Buffer, a: &Buffer) -> Result<(), (String, String)> {
    let f = m.fmt.ext();
    if let Some(d) = same_picture(orig, a, m.fmt.embeds_font()) {
        let pal = m.palette8();
        let class = match d.field {
            "height" if matches!(m.fmt, Fmt::Xb | Fmt::Adf) && m.h < 25 && a.get_height() == 25 => "|saved<25_loaded_25",
            // the size went wrong on a file whose SAUCE trailer carries comment lines: the trailer is what delimits the content
            "height" | "width" if m.sauce && matches!(m.sauce_meta, 1 | 2 | 3 | 5) => "|sauce_comment_lines",
            // Tundra: no foreground command has been written yet (all cells so far are black on the writer's side)
            "fg" if m.fmt == Fmt::Tnd && (0..=d.cell.unwrap_or(0)).all(|k| pal[cells[k].fg as usize] == [0, 0, 0]) => "|black_before_first_fg_command",
            // the glyphs changed and a font of the picture carries a foreign name (a SAUCE font's, a built-in page's ...):
            // names travel in SAUCE records and must not replace glyphs the file embeds
            "glyph" if m.fmt != Fmt::Xb && m.names.iter().any(|n| *n != 0) => "|font_under_foreign_name",
            "fg" | "bg" | "char" | "blink" | "glyph" | "cell_missing" if m.fmt == Fmt::Xb => {
                if m.compress {
                    "|compressed"
                } else {
                    "|raw"
                }
            }
            _ => "",
        };
        return Err((format!("{f}|roundtrip|{}{class}", d.field), d.msg));
    }
    let want = if m.ice { IceMode::Ice } else { IceMode::Blink };
    if a.ice_mode != want {
        return Err((format!("{f}|roundtrip|ice_mode|{:?}_loaded_as_{:?}", want, a.ice_mode), format!("buffer ice_mode {:?}, loaded {:?}", want, a.ice_mode)));
    }
    if m.fmt.embeds_palette() {
        let pal = m.palette8();
        for (i, c) in pal.iter().enumerate() {
            let got = a.palette.get_rgb(i as u32);
            if got != (c[0], c[1], c[2]) {
                return Err((format!("{f}|roundtrip|palette"), format!("palette colour {i}: saved {c:?}, loaded {got:?}")));
            }
        }
        if a.palette.len() != pal.len() {
            return Err((format!("{f}|roundtrip|palette_len"), format!("palette has {} colours, loaded {}", pal.len(), a.palette.len())));
        }
    }
    Ok(())
}

// ------------------------------------------------------------------------------------------------ clause (3): re-save stability

/// Input classes of a loaded buffer that are known to select distinct writer paths. `.0` = suffix for the key,
/// `.1` = the class folds all symptoms into one key (the stream loses sync, symptoms vary)
fn buffer_class(fmt: Fmt, a: &Buffer, opts: &icy_engine::SaveOptions) -> (&'static str, bool) {
    let (w, h) = (a.get_width().max(0) as usize, a.get_height().max(0) as usize);
    let cell = |i: usize| a.get_char(((i % w) as i32, (i / w) as i32));
    match fmt {
        Fmt::Xb => {
            if opts.compress && icy_engine::analyze_font_usage(a).len() > 1 {
                return ("|2fonts+compressed", false);
            }
        }
        Fmt::Idf => {
            if opts.compress && w > 0 && lone_marker(w, w * h, |i| cell(i).ch == '\x01' && cell(i).attribute.as_u8(IceMode::Ice) == 0) {
                return ("|compress+lone_marker_cell", true);
            }
        }
        Fmt::Tnd => {
            if (0..w * h).any(|i| (1..=6).contains(&(cell(i).ch as u32))) {
                return ("|ctrl_char", false);
            }
        }
        Fmt::Bin => {
            if a.ice_mode == IceMode::Unlimited && (0..w * h).any(|i| cell(i).attribute.is_blinking()) {
                return ("|unlimited+blink", false);
            }
        }
        Fmt::Adf => {}
    }
    ("", false)
}

fn resave(fmt: Fmt, a: &Buffer, opts: &icy_engine::SaveOptions) -> Result<(), (String, String)> {
    let f = fmt.ext();
    if a.get_height() < 0 || a.get_width() < 0 {
        return Err((format!("{f}|resave|negative_size"), format!("the loader accepted the file and produced a {} x {} buffer", a.get_width(), a.get_height())));
    }
    let s = match a.to_bytes(f, opts) {
        Ok(s) => {
            dump("resaved", &s);
            s
        }
        Err(e) => return Err((format!("{f}|resave|save_error|{}", strip_digits(&e.to_string())), format!("a buffer this loader produced cannot be saved: {e}"))),
    };
    let b = match load(fmt, &s) {
        Ok(b) => b,
        Err(e) => return Err((format!("{f}|resave|reload_error|{}", strip_digits(&e)), format!("the re-saved file is rejected: {e}"))),
    };
    if let Some(d) = same_picture(a, &b, fmt.embeds_font()) {
        let (class, fold) = buffer_class(fmt, a, opts);
        let msg = format!("first load vs load(save(first load)): {}", d.msg);
        if fold {
            return Err((format!("{f}|resave{class}"), format!("[{}] {msg}", d.field)));
        }
        let w = a.get_width().max(1);
        let hc = if d.field == "height" && matches!(fmt, Fmt::Xb | Fmt::Adf) && a.get_height() < 25 && b.get_height() == 25 {
            "|saved<25_loaded_25"
        } else if matches!(d.field, "height" | "width") && opts.save_sauce && a.get_sauce().as_ref().is_some_and(|s| !s.comments.is_empty()) {
            "|sauce_comment_lines"
        } else if fmt == Fmt::Tnd && d.field == "fg" && (0..=d.cell.unwrap_or(0) as i32).all(|k| shown(a, k % w, k / w).fg == (0, 0, 0)) {
            // same input class as the round-trip key: the writer has not emitted a foreground command yet
            "|black_before_first_fg_command"
        } else {
            ""
        };
        return Err((format!("{f}|resave|{}{hc}{class}", d.field), msg));
    }
    Ok(())
}

// ------------------------------------------------------------------------------------------------ generated buffers

fn check_model(m: &Model) -> Verdict {
    if let Some(why) = m.out_of_domain() {
        return Verdict::discard(format!("model outside the domain: {why}"));
    }
    let f = m.fmt.ext();
    let cells = m.cells();
    let mut orig = model::build(m, &cells);
    // storage shape: extra lines, longer rows, larger layer, other terminal size ... — the picture inside the buffer
    // rectangle stays what the model says, so every clause below applies unchanged
    let shape = icyv::shape::perturb(&mut orig, m.shape);
    let opts = m.options();
    let bytes = match orig.to_bytes(f, &opts) {
        Ok(b) => b,
        Err(e) => return Verdict::fail(format!("{f}|save_error|{}", strip_digits(&e.to_string())), format!("representable buffer refused by the writer: {e}")),
    };
    dump("saved", &bytes);
    if let Err((k, msg)) = refdecode(m, &cells, &bytes) {
        return Verdict::fail(format!("{f}|refdecode|{k}"), msg);
    }
    let a = match load(m.fmt, &bytes) {
        Ok(a) => a,
        Err(e) => return Verdict::fail(format!("{f}|roundtrip|load_error|{}", strip_digits(&e)), format!("own file rejected: {e}")),
    };
    if let Err((k, msg)) = roundtrip(m, &cells, &orig, &a) {
        return Verdict::fail(k, msg);
    }
    if let Err((k, msg)) = resave(m.fmt, &a, &opts) {
        return Verdict::fail(k, msg);
    }
    let used = m.used_pages(&cells);
    let ctrl = cells.iter().any(|c| c.ch < 32);
    let nontrivial = m.h != 25 || m.w != 80 || used.len() >= 2 || ctrl;
    // class = the storage shape for perturbed buffers; for plain ones "plain:" + one letter per dimension that is active:
    // 2 = two font pages used, c = SAUCE with comment lines, r = stale record attached, s = fonts outside slots 0/1,
    // n = fonts under foreign names, b = bright foregrounds stored with the BOLD flag, h = height below 25; a trailing ~ = steered model
    let mut class = shape.to_string();
    if m.shape % icyv::shape::CODES == 0 {
        class.push(':');
        for (on, tag) in [
            (used.len() >= 2, '2'),
            (m.sauce && matches!(m.sauce_meta, 1 | 2 | 3 | 5), 'c'),
            (m.rec.is_some(), 'r'),
            (!m.slots.is_empty(), 's'),
            (!m.names.is_empty(), 'n'),
            (cells.iter().any(|c| c.rep != 0), 'b'),
            (m.h < 25, 'h'),
        ] {
            if on {
                class.push(tag);
            }
        }
    }
    if m.steered {
        class.push('~');
    }
    Verdict::pass(nontrivial, class)
}

// ------------------------------------------------------------------------------------------------ fuzzed files

#[derive(Clone, Debug, Hash, Serialize, Deserialize)]
enum Mut {
    /// zone: 0 = first 16 bytes, 1 = whole file, 2 = picture data, 3 = last 136 bytes (SAUCE record)
    Set { zone: u8, pos: u16, val: u8 },
    Flip { zone: u8, pos: u16, bit: u8 },
    Word { zone: u8, pos: u16, val: u16 },
    Insert { zone: u8, pos: u16, data: Bytes },
    Delete { zone: u8, pos: u16, len: u8 },
    /// keep this fraction (x/65536) of the file
    Truncate { keep: u16 },
    /// cut the SAUCE record (and the EOF character) off
    StripSauce,
    Append { data: Bytes },
}

#[derive(Clone, Debug, Hash, Serialize, Deserialize)]
struct FuzzCase {
    base: Model,
    muts: Vec<Mut>,
    /// set by the generator only: accepted files that meet the precondition of an open known finding are discarded
    /// ("steered: <id>") before the re-save clause; replay and witness files never carry it
    #[serde(default)]
    steer: bool,
}

fn data_start(m: &Model, cells: &[Cell]) -> usize {
    match m.fmt {
        Fmt::Xb => {
            let used = m.used_pages(cells);
            let font = used.len() > 1 || used.iter().any(|p| m.fonts[*p as usize] != model::FontM::Default);
            11 + if m.is_default_palette() { 0 } else { 48 } + if font { used.len() * 256 * m.font_h as usize } else { 0 }
        }
        Fmt::Bin => 0,
        Fmt::Adf => 4289,
        Fmt::Idf => 12,
        Fmt::Tnd => 9,
    }
}

fn apply(muts: &[Mut], mut f: Vec<u8>, dstart: usize) -> Vec<u8> {
    for mu in muts {
        let n = f.len();
        let at = |zone: u8, pos: u16, n: usize| -> usize {
            match zone {
                0 => pick(pos, n.min(16)),
                2 => {
                    let s = dstart.min(n - 1);
                    s + pick(pos, (n - s).min(400))
                }
                3 => {
                    let s = n.saturating_sub(136);
                    s + pick(pos, n - s)
                }
                _ => pick(pos, n),
            }
        };
        match mu {
            Mut::Set { zone, pos, val } => {
                if n > 0 {
                    let i = at(*zone, *pos, n);
                    f[i] = *val;
                }
            }
            Mut::Flip { zone, pos, bit } => {
                if n > 0 {
                    let i = at(*zone, *pos, n);
                    f[i] ^= 1 << (bit & 7);
                }
            }
            Mut::Word { zone, pos, val } => {
                if n > 1 {
                    let i = at(*zone, *pos, n - 1);
                    f[i] = *val as u8;
                    f[i + 1] = (*val >> 8) as u8;
                }
            }
            Mut::Insert { zone, pos, data } => {
                let i = if n == 0 { 0 } else { at(*zone, *pos, n) };
                let tail = f.split_off(i);
                f.extend_from_slice(data);
                f.extend_from_slice(&tail);
            }
            Mut::Delete { zone, pos, len } => {
                if n > 0 {
                    let i = at(*zone, *pos, n);
                    let e = (i + *len as usize).min(n);
                    f.drain(i..e);
                }
            }
            Mut::Truncate { keep } => {
                let k = (n * *keep as usize) >> 16;
                f.truncate(k);
            }
            Mut::StripSauce => {
                let (end, s) = refdec::split_sauce(&f);
                if s.is_some() {
                    f.truncate(end);
                }
            }
            Mut::Append { data } => f.extend_from_slice(data),
        }
    }
    f
}

fn muts() -> impl Strategy<Value = Vec<Mut>> {
    let zone = prop_oneof![3 => Just(0u8), 2 => Just(1u8), 4 => Just(2u8), 2 => Just(3u8)];
    let byte = prop_oneof![3 => any::<u8>(), 1 => prop::sample::select(vec![0u8, 1, 2, 4, 6, 16, 24, 25, 26, 32, 63, 64, 80, 127, 128, 0xC0, 0xFF])];
    let small = prop::collection::vec(any::<u8>(), 1..=12).prop_map(Bytes);
    let one = prop_oneof![
        4 => (zone.clone(), any::<u16>(), byte).prop_map(|(zone, pos, val)| Mut::Set { zone, pos, val }),
        2 => (zone.clone(), any::<u16>(), 0u8..8).prop_map(|(zone, pos, bit)| Mut::Flip { zone, pos, bit }),
        2 => (zone.clone(), any::<u16>(), prop_oneof![0u16..=300, any::<u16>()]).prop_map(|(zone, pos, val)| Mut::Word { zone, pos, val }),
        2 => (zone.clone(), any::<u16>(), small.clone()).prop_map(|(zone, pos, data)| Mut::Insert { zone, pos, data }),
        2 => (zone, any::<u16>(), 1u8..=40).prop_map(|(zone, pos, len)| Mut::Delete { zone, pos, len }),
        1 => any::<u16>().prop_map(|keep| Mut::Truncate { keep }),
        1 => Just(Mut::StripSauce),
        1 => small.prop_map(|data| Mut::Append { data }),
    ];
    prop::collection::vec(one, 1..=4)
}

fn fuzz_cases(base: BoxedStrategy<Model>) -> BoxedStrategy<FuzzCase> {
    (base, muts()).prop_map(|(base, muts)| FuzzCase { base, muts, steer: true }).boxed()
}

fn simpler_fuzz(c: &FuzzCase) -> Vec<FuzzCase> {
    let mut out = Vec::new();
    if c.muts.len() > 1 {
        for i in 0..c.muts.len() {
            let mut m = c.muts.clone();
            m.remove(i);
            out.push(FuzzCase { base: c.base.clone(), muts: m, steer: c.steer });
        }
    }
    for b in model::simpler(&c.base) {
        out.push(FuzzCase { base: b, muts: c.muts.clone(), steer: c.steer });
    }
    out
}

/// precondition of an open known finding met by a loaded buffer? (fuzz parts; exact preconditions, checked before
/// the re-save clause so that a case never ends at a known failure)
fn steered_away(fmt: Fmt, a: &Buffer, opts: &icy_engine::SaveOptions, st: Steer) -> Option<&'static str> {
    let (w, h) = (a.get_width(), a.get_height());
    match fmt {
        // a used font page without a font in the table: the XBin loader accepted 512Chars without the Font flag
        Fmt::Xb if st.xb_512 && icy_engine::analyze_font_usage(a).iter().any(|p| a.get_font(*p).is_none()) => Some(STEER_IDS[2]),
        // pictures the IDF writer refuses: more than 200 lines, or (with SAUCE) more than 510 columns
        Fmt::Idf if st.idf_unwritable && (h > 200 || (opts.save_sauce && w / 2 > 255)) => Some(STEER_IDS[3]),
        Fmt::Tnd if st.tnd_ctrl && w > 0 && (0..h).any(|y| (0..w).any(|x| (1..=6).contains(&(a.get_char((x, y)).ch as u32)))) => Some(STEER_IDS[0]),
        _ => None,
    }
}

fn check_fuzz(c: &FuzzCase, st: Steer) -> Verdict {
    let m = &c.base;
    if let Some(why) = m.out_of_domain() {
        return Verdict::discard(format!("base model outside the domain: {why}"));
    }
    let f = m.fmt.ext();
    let cells = m.cells();
    let mut orig = model::build(m, &cells);
    icyv::shape::perturb(&mut orig, m.shape);
    let mut opts = m.options();
    let Ok(bytes) = orig.to_bytes(f, &opts) else {
        return Verdict::discard("base not saved");
    };
    let file = apply(&c.muts, bytes.clone(), data_start(m, &cells));
    if file == bytes {
        return Verdict::discard("mutation without effect");
    }
    dump("base", &bytes);
    dump("mutated", &file);
    // keep the files inside what the formats are for (IDF: 200 lines; Tundra: no jumps thousands of rows down) —
    // magnitude-driven work and memory are properties C02/C03
    match m.fmt {
        Fmt::Idf if refdec::idf_expanded_cells(&file) > 80 * 400 => return Verdict::discard("oversize idf run lengths"),
        Fmt::Tnd if refdec::tnd_max_row(&file) > 400 => return Verdict::discard("oversize tnd position"),
        _ => {}
    }
    // acceptance = the loader returns Ok; a panic here is C02's subject, not a re-save question
    let a = match icyv::panics::guarded(|| load(m.fmt, &file)) {
        Err(_) => return Verdict::discard("loader panic (C02)"),
        Ok(Err(_)) => return Verdict::discard("rejected by the loader"),
        Ok(Ok(a)) => a,
    };
    if a.get_width() as i64 * a.get_height() as i64 > 600_000 {
        return Verdict::discard("oversize picture");
    }
    // BIN and Tundra are only defined with SAUCE (the width lives there)
    if matches!(m.fmt, Fmt::Bin | Fmt::Tnd) {
        opts.save_sauce = true;
    }
    if c.steer {
        if let Some(id) = steered_away(m.fmt, &a, &opts, st) {
            return Verdict::discard(format!("steered: {id}"));
        }
    }
    let changed = same_picture(&orig, &a, false).is_some();
    if let Err((k, msg)) = resave(m.fmt, &a, &opts) {
        return Verdict::fail(k, msg);
    }
    Verdict::pass(changed, if changed { "accepted,picture_changed" } else { "accepted,picture_as_base" })
}

// ------------------------------------------------------------------------------------------------ main

fn main() {
    let mut eng = Engine::new("C05");
    eng.rule(
        "Parts xb/bin/adf/idf/tnd: buffers generated inside the representable domain (XBin 1..=4096 x 1..=200, one or two 256-glyph fonts of height 1..=32, \
         default or custom 6-bit palette, blink or iCE, raw or compressed, 512-character mode with a font page per cell; BIN even widths 2..=510 with SAUCE; ADF 80 columns iCE 8x16; \
         IDF 1..=80 columns iCE 8x16 incl. (0x01,0x00) marker cells; Tundra 1..=1000 columns with SAUCE, 1..=24 arbitrary RGB colours, characters 1..=6 in a third of the cases); \
         heights 1..=200 below/at/above 25; cells = cyclic run list over the full byte range; lossles_output = true; SAUCE trailer (where written): record only, or with 1 / 2 / 255 comment lines, \
         or with title/author/group at maximal length, or both; 40% of the buffers get a storage shape of icyv::shape::perturb (extra lines, longer rows, larger layer, other terminal size, ...) that leaves the picture unchanged; \
         half of the buffers carry an attached SAUCE record whose technical fields (iCE flag, letter spacing, aspect ratio, font name, size, data/file type) are drawn independently of the buffer (a stale record: \
         only title/author/group/comments/letter spacing/aspect ratio may travel from it, never ice mode, size or font); the model fonts sit in arbitrary font-table slots 0..=42 (either order, slot 0 always holds a font, \
         up to two further slots hold unused fonts); font NAMES are independent of the glyphs (own or built-in glyphs under the 16 SAUCE font names, \
         built-in page names, the default font's name, 'custom font 1', an empty and a 30-character name); a bright foreground is stored as fg 8..=15, as fg-8 + BOLD, or as both (all shown alike). Oracle per case: reference decode of the saved bytes = model; \
         load(save(buffer)) = buffer (size, per cell char / shown fg RGB / bg RGB / blink / glyph table of its font page, ice_mode, palette); load(save(load(file))) shows the same picture. \
         Parts *_fuzz: a saved small buffer mutated by 1..=4 byte/word/insert/delete/truncate/strip-SAUCE/append edits; files the loader rejects (or panics on: C02) are discarded; accepted files \
         are re-saved and re-loaded and must show the same picture. Non-trivial (generated): height != 25 or width != 80 or two font pages used or a character < 0x20 present; \
         (fuzz): the accepted file shows a picture different from its base. Distinct by case hash. \
         While a known finding listed under coverage.steering is open, its precondition is avoided: Tundra buffers carry no characters 1..=6 and their first cell never uses the colour of a \
         non-black palette entry 0 (such models end in ~ in the class histogram); accepted fuzzed files that meet a precondition (Tundra picture with a character 1..=6, XBin picture using a font \
         page without a font, IDF picture with > 200 lines or with SAUCE and > 510 columns) are discarded with reason 'steered: <id>' before the re-save clause. Replay and witness files are never steered.",
    );
    eng.assume("reference decoders in the harness (written from x_bin.htm, ArtworxDataFormat.txt + adf2xbin.pas register table, idv_103.pas, SAUCE rev.5 record layout, the TUNDRA24 command description) are the format definitions");
    eng.assume("Tundra: colours before the first colour command are black on black; ADF/IDF are iCE-colour formats; 6-bit palette components c are shown as (c<<2)|(c>>4)");
    eng.assume("a buffer 'as an editor holds it' = one layer with every cell set, ice_mode Blink or Ice, fonts in slots 0 and 1, SaveOptions::new() + lossles_output + compress/save_sauce per case");
    eng.assume("fuzz parts: IDF files expanding to more than 400 rows and Tundra files jumping beyond row 400 are discarded (size-driven work belongs to C02/C03)");

    eng.assume("Tundra widths are 1..=1000: Buffer::set_sauce reads a SAUCE width of 0 or > 1000 as 80 on purpose (stated in property C11), so wider pictures are outside the representable domain");
    let st = Steer {
        tnd_ctrl: eng.finding_open(STEER_IDS[0]),
        tnd_pal0: eng.finding_open(STEER_IDS[1]),
        xb_512: eng.finding_open(STEER_IDS[2]),
        idf_unwritable: eng.finding_open(STEER_IDS[3]),
    };
    eng.extra(
        "steering",
        icyv::serde_json::json!({
            "what": "while one of these known findings is open its precondition is avoided: generated Tundra models are changed (class tag ends in ~), accepted fuzzed files are discarded with reason 'steered: <id>' (counted per part under classes 'discard:steered: ...'); witnesses and replay files are evaluated unsteered",
            "ids": STEER_IDS,
            "active": format!("{st:?}"),
        }),
    );

    let q = 16_000;
    let t = 150_000;
    let cls = |m: &Model| m.fmt.ext().to_string();
    eng.generated_min(PartCfg::new("xb", q, t), || model::xb_models(false), check_model, cls, model::simpler);
    eng.generated_min(PartCfg::new("bin", q, t), || model::bin_models(false), check_model, cls, model::simpler);
    eng.generated_min(PartCfg::new("adf", q, t), || model::adf_models(false), check_model, cls, model::simpler);
    eng.generated_min(PartCfg::new("idf", q, t), || model::idf_models(false), check_model, cls, model::simpler);
    eng.generated_min(PartCfg::new("tnd", q, t), move || model::tnd_models(false, st), check_model, cls, model::simpler);

    let fq = 14_000;
    let ft = 200_000;
    let fcls = |c: &FuzzCase| c.base.fmt.ext().to_string();
    eng.generated_min(PartCfg::new("xb_fuzz", fq, ft), || fuzz_cases(model::xb_models(true)), move |c: &FuzzCase| check_fuzz(c, st), fcls, simpler_fuzz);
    eng.generated_min(PartCfg::new("bin_fuzz", fq, ft), || fuzz_cases(model::bin_models(true)), move |c: &FuzzCase| check_fuzz(c, st), fcls, simpler_fuzz);
    eng.generated_min(PartCfg::new("adf_fuzz", fq, ft), || fuzz_cases(model::adf_models(true)), move |c: &FuzzCase| check_fuzz(c, st), fcls, simpler_fuzz);
    eng.generated_min(PartCfg::new("idf_fuzz", fq, ft), || fuzz_cases(model::idf_models(true)), move |c: &FuzzCase| check_fuzz(c, st), fcls, simpler_fuzz);
    eng.generated_min(PartCfg::new("tnd_fuzz", fq, ft), move || fuzz_cases(model::tnd_models(true, st)), move |c: &FuzzCase| check_fuzz(c, st), fcls, simpler_fuzz);
    eng.run();
}
