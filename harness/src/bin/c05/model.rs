//! Plain-data model of a buffer inside the representable domain of one binary art format, its generator and the
//! builder that turns it into an engine `Buffer`.
use icy_engine::{AttributedChar, BitFont, Buffer, Color, IceMode, Palette, SauceData, SauceDataType, SauceFileType, SauceString, SaveOptions, TextAttribute};
use icyv::proptest::prelude::*;
use serde::{Deserialize, Serialize};

#[derive(Clone, Copy, Debug, Hash, PartialEq, Eq, Serialize, Deserialize)]
pub enum Fmt {
    #[serde(rename = "xb")]
    Xb,
    #[serde(rename = "bin")]
    Bin,
    #[serde(rename = "adf")]
    Adf,
    #[serde(rename = "idf")]
    Idf,
    #[serde(rename = "tnd")]
    Tnd,
}

impl Fmt {
    pub fn ext(self) -> &'static str {
        match self {
            Fmt::Xb => "xb",
            Fmt::Bin => "bin",
            Fmt::Adf => "adf",
            Fmt::Idf => "idf",
            Fmt::Tnd => "tnd",
        }
    }
    /// does the file carry the glyph tables / the palette?
    pub fn embeds_font(self) -> bool {
        matches!(self, Fmt::Xb | Fmt::Adf | Fmt::Idf)
    }
    pub fn embeds_palette(self) -> bool {
        matches!(self, Fmt::Xb | Fmt::Adf | Fmt::Idf)
    }
}

/// One cell. `fg`/`bg` are palette indices (Tundra: indices into the model's RGB palette).
#[derive(Clone, Copy, Debug, Hash, PartialEq, Eq, Serialize, Deserialize)]
pub struct Cell {
    pub ch: u8,
    pub fg: u8,
    pub bg: u8,
    pub blink: bool,
    pub page: u8,
    /// how a bright foreground (fg 8..=15) is STORED: 0 = as fg 8..=15 (what `from_u8` builds), 1 = fg-8 with the
    /// BOLD flag (what the ANSI parser builds), 2 = fg 8..=15 and BOLD. All three show the same colour.
    #[serde(default)]
    pub rep: u8,
}

#[derive(Clone, Copy, Debug, Hash, PartialEq, Eq, Serialize, Deserialize)]
pub enum FontM {
    /// the engine's built-in 8x16 CP437 font (XBin does not embed it)
    Default,
    /// 256 glyphs derived from the seed by `font_bytes`
    Custom(u16),
}

#[derive(Clone, Debug, Hash, PartialEq, Eq, Serialize, Deserialize)]
pub struct Model {
    pub fmt: Fmt,
    pub w: u16,
    pub h: u16,
    /// true = iCE colours (bit 7 = bright background), false = blink mode
    pub ice: bool,
    /// xb/adf/idf: 16 entries of 6-bit components; bin: the DOS default; tnd: 1..=24 entries of 8-bit components
    pub palette: Vec<[u8; 3]>,
    pub font_h: u8,
    /// one or two fonts (pages 0 and 1)
    pub fonts: Vec<FontM>,
    /// (run length, cell); the run list is repeated cyclically, row-major, until w*h cells are filled
    pub runs: Vec<(u8, Cell)>,
    pub compress: bool,
    pub sauce: bool,
    /// set by the generator only: it removed the trigger of an open known finding from this model (class tag `~`);
    /// replay and witness files never carry it
    #[serde(default)]
    pub steered: bool,
    /// what the SAUCE trailer carries when `sauce` is set: 0 = the record only, 1 / 2 / 3 = record + 1 / 2 / 255 comment
    /// lines, 4 = title/author/group at maximal length, 5 = maximal strings + 2 comment lines
    #[serde(default)]
    pub sauce_meta: u8,
    /// storage shape applied after `build` (icyv::shape::perturb; 0 = as built); never changes the picture
    #[serde(default)]
    pub shape: u8,
    /// font-table slot of each model font (page i of the cells lives in slot `slots[i]`); empty = slots 0, 1.
    /// Slot 0 always holds a font (the built-in one when no model font sits there).
    #[serde(default)]
    pub slots: Vec<u8>,
    /// slots that hold fonts no cell uses
    #[serde(default)]
    pub extra_fonts: Vec<u8>,
    /// a SAUCE record attached to the document whose technical fields are independent of the buffer (stale: loaded
    /// with another file, then edited) — attached whether or not a SAUCE trailer is written
    #[serde(default)]
    pub rec: Option<Rec>,
    /// NAME of each model font, independent of its glyphs (`font_name` codes; empty or 0 = the natural name:
    /// the built-in font's own name, "icyv custom N" for generated glyphs)
    #[serde(default)]
    pub names: Vec<u8>,
}

pub const NAME_CODES: u8 = 23;

/// 1..=16 the SAUCE font names, 17..=19 names of built-in font pages, 20 the default font's name,
/// 21 "custom font 1", 22 empty, 23 thirty characters
pub fn font_name(code: u8) -> String {
    match code {
        1..=16 => icy_engine::SAUCE_FONT_NAMES[(code as usize - 1) % icy_engine::SAUCE_FONT_NAMES.len()].to_string(),
        17 => BitFont::from_ansi_font_page(1).map(|f| f.name).unwrap_or_default(),
        18 => BitFont::from_ansi_font_page(5).map(|f| f.name).unwrap_or_default(),
        19 => BitFont::from_ansi_font_page(42).map(|f| f.name).unwrap_or_default(),
        20 => BitFont::default().name,
        21 => "custom font 1".to_string(),
        22 => String::new(),
        _ => "A thirty characters long name!".to_string(),
    }
}

#[derive(Clone, Debug, Hash, PartialEq, Eq, Serialize, Deserialize)]
pub struct Rec {
    pub use_ice: bool,
    pub letter_spacing: bool,
    pub aspect_ratio: bool,
    /// 0 = none, 1.. = FONT_NAMES[font - 1]
    pub font: u8,
    pub w: u16,
    pub h: u16,
    /// 0 Undefined, 1 Ansi, 2 Bin, 3 XBin, 4 TundraDraw, 5 Ascii (data type + file type of the record)
    pub kind: u8,
}

pub const FONT_NAMES: [&str; 4] = ["IBM VGA", "IBM VGA50", "Amiga Topaz 1", "no such font"];

/// which open known findings the generators steer away from (see main.rs `STEER_IDS`)
#[derive(Clone, Copy, Debug, Default)]
pub struct Steer {
    /// C05-tnd-ctrl-chars: no characters 1..=6 in Tundra buffers
    pub tnd_ctrl: bool,
    /// C05-tnd-palette0-not-black: the first cell never uses the colour of a non-black palette entry 0
    pub tnd_pal0: bool,
    /// C05-xb-512-without-font (fuzz parts: detected on the loaded buffer before the re-save clause)
    pub xb_512: bool,
    /// C05-idf-loader-accepts-unwritable (fuzz parts, likewise)
    pub idf_unwritable: bool,
}

pub const DEFPAL6: [[u8; 3]; 16] = [
    [0, 0, 0],
    [0, 0, 42],
    [0, 42, 0],
    [0, 42, 42],
    [42, 0, 0],
    [42, 0, 42],
    [42, 21, 0],
    [42, 42, 42],
    [21, 21, 21],
    [21, 21, 63],
    [21, 63, 21],
    [21, 63, 63],
    [63, 21, 21],
    [63, 21, 63],
    [63, 63, 21],
    [63, 63, 63],
];

pub fn expand6(c: u8) -> u8 {
    (c << 2) | (c >> 4)
}

pub fn defpal8() -> Vec<[u8; 3]> {
    DEFPAL6.iter().map(|c| [expand6(c[0]), expand6(c[1]), expand6(c[2])]).collect()
}

/// glyph rows of a custom font: a fixed mixing function of (seed, byte index) — no hidden randomness
pub fn font_bytes(seed: u16, height: u8) -> Vec<u8> {
    let n = 256 * height as usize;
    let mut out = Vec::with_capacity(n);
    let mut s: u32 = 0x9E37_79B9 ^ ((seed as u32) << 8) ^ (height as u32);
    for i in 0..n {
        s ^= s << 13;
        s ^= s >> 17;
        s ^= s << 5;
        out.push((s >> 11) as u8 ^ (i as u8).rotate_left(3));
    }
    out
}

impl Model {
    pub fn cells(&self) -> Vec<Cell> {
        let n = self.w as usize * self.h as usize;
        let mut out = Vec::with_capacity(n);
        if self.runs.is_empty() {
            return out;
        }
        'outer: loop {
            for (len, c) in &self.runs {
                for _ in 0..(*len).max(1) {
                    if out.len() >= n {
                        break 'outer;
                    }
                    out.push(*c);
                }
            }
        }
        out
    }

    /// sorted font pages that occur in the picture
    pub fn used_pages(&self, cells: &[Cell]) -> Vec<u8> {
        let mut p0 = false;
        let mut p1 = false;
        for c in cells {
            if c.page == 0 {
                p0 = true;
            } else {
                p1 = true;
            }
        }
        let mut v = Vec::new();
        if p0 {
            v.push(0);
        }
        if p1 {
            v.push(1);
        }
        v
    }

    /// font-table slot of model font `page`
    pub fn slot(&self, page: u8) -> usize {
        self.slots.get(page as usize).map(|s| *s as usize).unwrap_or(page as usize)
    }

    pub fn is_default_palette(&self) -> bool {
        match self.fmt {
            Fmt::Tnd => false,
            _ => self.palette.as_slice() == DEFPAL6.as_slice(),
        }
    }

    /// palette as 8-bit RGB the way the buffer holds it
    pub fn palette8(&self) -> Vec<[u8; 3]> {
        match self.fmt {
            Fmt::Tnd => self.palette.clone(),
            _ => self.palette.iter().map(|c| [expand6(c[0]), expand6(c[1]), expand6(c[2])]).collect(),
        }
    }

    pub fn font_data(&self, page: usize) -> Vec<u8> {
        match self.fonts[page] {
            FontM::Custom(seed) => font_bytes(seed, self.font_h),
            FontM::Default => {
                // the model's "default font" *is* the engine's built-in table; read the glyph map directly
                let f = BitFont::default();
                let mut v = Vec::with_capacity(4096);
                for c in 0..256u32 {
                    v.extend_from_slice(&f.glyphs[&char::from_u32(c).unwrap()].data);
                }
                v
            }
        }
    }

    /// None if the model is inside the domain the property quantifies over, else the reason
    pub fn out_of_domain(&self) -> Option<String> {
        let bad = |s: &str| Some(s.to_string());
        if self.w == 0 || self.h == 0 || self.h > 200 || self.runs.is_empty() {
            return bad("size");
        }
        if self.fonts.is_empty() || self.fonts.len() > 2 || !(1..=32).contains(&self.font_h) {
            return bad("fonts");
        }
        if self.font_h != 16 && self.fonts.contains(&FontM::Default) {
            return bad("default font is 8x16");
        }
        match self.fmt {
            Fmt::Xb => {
                if self.w > 4096 || self.palette.len() != 16 {
                    return bad("xb size/palette");
                }
            }
            Fmt::Bin => {
                if self.w % 2 != 0 || self.w > 510 || !self.sauce || !self.is_default_palette() || self.fonts != [FontM::Default] {
                    return bad("bin width/sauce/palette/font");
                }
            }
            Fmt::Adf => {
                if self.w != 80 || !self.ice || self.font_h != 16 || self.fonts.len() != 1 || self.palette.len() != 16 {
                    return bad("adf");
                }
            }
            Fmt::Idf => {
                if self.w > 80 || !self.ice || self.font_h != 16 || self.fonts.len() != 1 || self.palette.len() != 16 {
                    return bad("idf");
                }
            }
            Fmt::Tnd => {
                // width 1..=1000: a SAUCE width of 0 or > 1000 is read as 80 on purpose (Buffer::set_sauce, property C11)
                if self.w > 1000 || !self.sauce || !self.ice || self.fonts != [FontM::Default] || self.palette.is_empty() {
                    return bad("tnd");
                }
            }
        }
        if self.fmt != Fmt::Tnd && self.palette.iter().any(|c| c.iter().any(|v| *v > 63)) {
            return bad("palette component > 63");
        }
        if !self.slots.is_empty() && self.slots.len() != self.fonts.len() {
            return bad("one slot per font");
        }
        let used_slots: Vec<usize> = (0..self.fonts.len() as u8).map(|p| self.slot(p)).collect();
        if used_slots.iter().any(|s| *s > 42) || (used_slots.len() == 2 && used_slots[0] == used_slots[1]) {
            return bad("font slots");
        }
        if self.extra_fonts.iter().any(|s| *s == 0 || *s > 42 || used_slots.contains(&(*s as usize))) {
            return bad("extra font slots");
        }
        if let Some(r) = &self.rec {
            if r.font as usize > FONT_NAMES.len() || r.kind > 5 {
                return bad("record fields");
            }
        }
        if (!self.names.is_empty() && self.names.len() != self.fonts.len()) || self.names.iter().any(|n| *n > NAME_CODES) {
            return bad("font names");
        }
        let two = self.fonts.len() == 2;
        for (_, c) in &self.runs {
            let ncol = if self.fmt == Fmt::Tnd { self.palette.len() as u8 } else { 16 };
            if c.fg >= ncol || c.bg >= ncol {
                return bad("colour index");
            }
            if self.ice && c.blink {
                return bad("blink in ice mode");
            }
            if !self.ice && c.bg > 7 {
                return bad("high background in blink mode");
            }
            if c.page > 1 || (!two && c.page != 0) {
                return bad("font page");
            }
            if two && c.fg > 7 {
                return bad("high foreground in 512-character mode");
            }
            if c.rep > 2 || (c.rep != 0 && !(8..=15).contains(&c.fg)) {
                return bad("bold representation needs a bright foreground");
            }
        }
        None
    }

    pub fn options(&self) -> SaveOptions {
        let mut o = SaveOptions::new();
        o.lossles_output = true;
        o.compress = self.compress;
        o.save_sauce = self.sauce;
        o
    }
}

pub fn make_font(m: &Model, page: usize) -> BitFont {
    let mut f = match m.fonts[page] {
        FontM::Default => BitFont::default(),
        FontM::Custom(_) => BitFont::create_8(format!("icyv custom {page}"), 8, m.font_h, &m.font_data(page)),
    };
    if let Some(code) = m.names.get(page).filter(|c| **c != 0) {
        f.name = font_name(*code);
    }
    f
}

pub fn attr_of(m: &Model, c: &Cell) -> TextAttribute {
    let (fg, bold) = match c.rep {
        1 => (c.fg - 8, true),
        2 => (c.fg, true),
        _ => (c.fg, false),
    };
    let mut a = TextAttribute::new(fg as u32, c.bg as u32);
    a.set_is_bold(bold);
    a.set_is_blinking(c.blink);
    a.set_font_page(m.slot(c.page));
    a
}

/// Build the engine object the way an editor would hold the picture: one layer, every cell set.
pub fn build(m: &Model, cells: &[Cell]) -> Buffer {
    let mut buf = Buffer::new((m.w as i32, m.h as i32));
    buf.is_terminal_buffer = false;
    buf.ice_mode = if m.ice { IceMode::Ice } else { IceMode::Blink };
    if !m.is_default_palette() {
        let cols: Vec<Color> = m.palette8().iter().map(|c| Color::new(c[0], c[1], c[2])).collect();
        buf.palette = Palette::from_slice(&cols);
    }
    if m.fonts != [FontM::Default] || !m.slots.is_empty() || !m.extra_fonts.is_empty() || m.names.iter().any(|n| *n != 0) {
        buf.clear_font_table();
        // slot 0 always holds a font (Buffer::new puts the built-in one there; writers read its name and size)
        buf.set_font(0, BitFont::default());
        for p in 0..m.fonts.len() {
            buf.set_font(m.slot(p as u8), make_font(m, p));
        }
        for s in &m.extra_fonts {
            buf.set_font(*s as usize, BitFont::create_8(format!("icyv unused {s}"), 8, 16, &font_bytes(0x4000 + *s as u16, 16)));
        }
    }
    let w = m.w as usize;
    for (i, c) in cells.iter().enumerate() {
        buf.layers[0].set_char(((i % w) as i32, (i / w) as i32), AttributedChar::new(c.ch as char, attr_of(m, c)));
    }
    if (m.sauce && m.sauce_meta != 0) || m.rec.is_some() {
        let mut s = sauce_meta(if m.sauce { m.sauce_meta } else { 0 });
        if let Some(r) = &m.rec {
            s.use_ice = r.use_ice;
            s.use_letter_spacing = r.letter_spacing;
            s.use_aspect_ratio = r.aspect_ratio;
            s.font_opt = if r.font == 0 { None } else { Some(FONT_NAMES[r.font as usize - 1].to_string()) };
            s.buffer_size = icy_engine::Size::new(r.w as i32, r.h as i32);
            (s.data_type, s.sauce_file_type) = match r.kind {
                1 => (SauceDataType::Character, SauceFileType::Ansi),
                2 => (SauceDataType::BinaryText, SauceFileType::Bin),
                3 => (SauceDataType::XBin, SauceFileType::XBin),
                4 => (SauceDataType::Character, SauceFileType::TundraDraw),
                5 => (SauceDataType::Character, SauceFileType::Ascii),
                _ => (SauceDataType::Undefined, SauceFileType::Undefined),
            };
        }
        // resize_to_sauce = false: attaching a record does not touch the document
        buf.set_sauce(Some(s), false);
    }
    buf
}

/// the document's SAUCE metadata (what an editor's "SAUCE info" dialog holds); it travels in the trailer of the saved file
pub fn sauce_meta(code: u8) -> SauceData {
    let mut s = SauceData::default();
    let comments = match code {
        1 => 1,
        2 | 5 => 2,
        3 => 255,
        _ => 0,
    };
    for i in 0..comments {
        // odd lines fill all 64 columns
        let mut line = format!("c05 comment line {i:03}");
        if i % 2 == 1 {
            while line.len() < 64 {
                line.push('x');
            }
        }
        s.comments.push(SauceString::from(line));
    }
    if code >= 4 {
        s.title = SauceString::from("T".repeat(35));
        s.author = SauceString::from("A".repeat(20));
        s.group = SauceString::from("G".repeat(20));
    }
    s
}

// ------------------------------------------------------------------------------------------------ generators

fn raw_cell() -> impl Strategy<Value = Cell> {
    let ch = prop_oneof![
        5 => any::<u8>(),
        2 => 0u8..32,
        2 => prop::sample::select(vec![0u8, 1, 2, 3, 4, 5, 6, 7, 9, 10, 13, 26, 27, 32, 0xB0, 0xDB, 0xFF]),
        2 => Just(b' '),
        1 => b'A'..=b'C',
    ];
    // fg/bg are drawn from 0..32 and scaled onto the palette size in `finish`
    let rep = prop_oneof![6 => Just(0u8), 2 => Just(1u8), 1 => Just(2u8)];
    (ch, 0u8..32, 0u8..32, any::<bool>(), 0u8..2, rep).prop_map(|(ch, fg, bg, blink, page, rep)| Cell { ch, fg, bg, blink, page, rep })
}

fn raw_runs(max: usize) -> impl Strategy<Value = Vec<(u8, Cell)>> {
    let len = prop_oneof![5 => 1u8..=3, 3 => 1u8..=12, 1 => 1u8..=70];
    prop::collection::vec((len, raw_cell()), 1..=max)
}

fn heights() -> BoxedStrategy<u16> {
    prop_oneof![4 => 1u16..=24, 2 => Just(25u16), 4 => 26u16..=60, 1 => 61u16..=200, 1 => Just(200u16)].boxed()
}

fn pal6() -> BoxedStrategy<Vec<[u8; 3]>> {
    prop_oneof![
        2 => Just(DEFPAL6.to_vec()),
        3 => prop::collection::vec([0u8..64, 0u8..64, 0u8..64], 16),
        // default with a few entries replaced
        2 => prop::collection::vec((0usize..16, [0u8..64, 0u8..64, 0u8..64]), 1..=3).prop_map(|ch| {
            let mut p = DEFPAL6.to_vec();
            for (i, c) in ch {
                p[i] = c;
            }
            p
        }),
    ]
    .boxed()
}

fn pal24() -> BoxedStrategy<Vec<[u8; 3]>> {
    prop_oneof![
        2 => Just(defpal8()),
        3 => prop::collection::vec(any::<[u8; 3]>(), 1..=24),
        // black first (what most documents have), then arbitrary colours
        3 => prop::collection::vec(any::<[u8; 3]>(), 1..=23).prop_map(|mut v| {
            v.insert(0, [0, 0, 0]);
            v
        }),
    ]
    .boxed()
}

/// put a raw (0..32 scaled) cell inside the representable domain of the model
fn finish(mut m: Model, no_ctrl_1_6: bool) -> Model {
    let ncol = if m.fmt == Fmt::Tnd { m.palette.len() } else { 16 };
    let two = m.fonts.len() == 2;
    for (_, c) in &mut m.runs {
        c.fg = ((c.fg as usize * ncol) >> 5) as u8;
        c.bg = ((c.bg as usize * ncol) >> 5) as u8;
        if m.ice {
            c.blink = false;
        } else {
            c.bg &= 7;
        }
        if two {
            c.fg &= 7;
        } else {
            c.page = 0;
        }
        if !(8..=15).contains(&c.fg) {
            c.rep = 0;
        }
        if no_ctrl_1_6 && (1..=6).contains(&c.ch) {
            c.ch += 0x30;
        }
    }
    if m.font_h != 16 {
        for (i, f) in m.fonts.iter_mut().enumerate() {
            if *f == FontM::Default {
                *f = FontM::Custom(0x51 + i as u16);
            }
        }
    }
    if m.fonts.len() == 2 && m.fonts[0] == m.fonts[1] {
        m.fonts[1] = match m.fonts[1] {
            FontM::Custom(s) => FontM::Custom(s ^ 0x5555),
            FontM::Default => FontM::Custom(0x77),
        };
    }
    m
}

/// the SAUCE trailer content and the storage shape: two dimensions every format shares
fn with_extras(base: BoxedStrategy<Model>, shapes: bool) -> BoxedStrategy<Model> {
    let meta = prop_oneof![3 => Just(0u8), 2 => Just(1u8), 2 => Just(2u8), 1 => Just(3u8), 1 => Just(4u8), 1 => Just(5u8)];
    let shape = if shapes { prop_oneof![6 => Just(0u8), 4 => 1u8..icyv::shape::CODES].boxed() } else { Just(0u8).boxed() };
    // font slot placement: any two distinct slots 0..=42, in either order; plus up to two slots with unused fonts
    let slots = prop_oneof![5 => Just(None), 2 => (0u8..=4, 0u8..=4).prop_map(Some), 3 => (0u8..=42, 0u8..=42).prop_map(Some)];
    let extra = prop_oneof![3 => Just(Vec::new()), 2 => prop::collection::vec(1u8..=42, 1..=2)];
    // stale attached record: every technical field drawn independently of the buffer
    let rec = prop_oneof![
        1 => Just(None),
        1 => (any::<bool>(), any::<bool>(), any::<bool>(), 0u8..=4, prop_oneof![Just(0u16), Just(80u16), 1u16..=300], prop_oneof![Just(0u16), Just(25u16), 1u16..=300], 0u8..=5)
            .prop_map(|(use_ice, letter_spacing, aspect_ratio, font, w, h, kind)| Some(Rec { use_ice, letter_spacing, aspect_ratio, font, w, h, kind })),
    ];
    // font NAMES, independent of the glyphs: SAUCE font names, built-in page names, the default font's name, ...
    let name = || prop_oneof![5 => Just(0u8), 4 => 1u8..=16, 1 => 17u8..=19, 1 => Just(20u8), 1 => Just(21u8), 1 => Just(22u8), 1 => Just(23u8)];
    let names = (name(), name());
    (base, meta, shape, slots, extra, rec, names)
        .prop_map(|(mut m, meta, shape, slots, extra, rec, names)| {
            if names != (0, 0) {
                m.names = [names.0, names.1][..m.fonts.len()].to_vec();
                if m.names.iter().all(|n| *n == 0) {
                    m.names.clear();
                }
            }
            m.sauce_meta = if m.sauce { meta } else { 0 };
            m.shape = shape;
            if let Some((a, b)) = slots {
                let b = if a == b { (b + 1) % 43 } else { b };
                m.slots = [a, b][..m.fonts.len()].to_vec();
            }
            let used: Vec<usize> = (0..m.fonts.len() as u8).map(|p| m.slot(p)).collect();
            let mut ex: Vec<u8> = extra.into_iter().filter(|s| !used.contains(&(*s as usize))).collect();
            ex.dedup();
            if ex.len() == 2 && ex[0] == ex[1] {
                ex.pop();
            }
            m.extra_fonts = ex;
            m.rec = rec;
            m
        })
        .boxed()
}

fn font1() -> BoxedStrategy<FontM> {
    prop_oneof![2 => Just(FontM::Default), 3 => any::<u16>().prop_map(FontM::Custom)].boxed()
}

pub fn xb_models(small: bool) -> BoxedStrategy<Model> {
    with_extras(xb_inner(small), !small)
}

fn xb_inner(small: bool) -> BoxedStrategy<Model> {
    let size = if small {
        prop_oneof![4 => (1u16..=40, 1u16..=30), 1 => (Just(80u16), 1u16..=30)].boxed()
    } else {
        prop_oneof![
            6 => (1u16..=100, heights()),
            2 => (Just(80u16), heights()),
            1 => (101u16..=600, 1u16..=30),
            1 => (601u16..=4096, 1u16..=3),
            1 => (Just(4096u16), 1u16..=2),
        ]
        .boxed()
    };
    let font_h = prop_oneof![4 => Just(16u8), 1 => Just(8u8), 1 => Just(14u8), 1 => Just(1u8), 1 => Just(32u8), 2 => 1u8..=32];
    let fonts = prop_oneof![3 => font1().prop_map(|f| vec![f]), 2 => (font1(), any::<u16>()).prop_map(|(a, s)| vec![a, FontM::Custom(s)])];
    (size, any::<bool>(), pal6(), font_h, fonts, raw_runs(if small { 40 } else { 120 }), any::<bool>(), any::<bool>())
        .prop_map(|((w, h), ice, palette, font_h, fonts, runs, compress, sauce)| {
            finish(Model { fmt: Fmt::Xb, w, h, ice, palette, font_h, fonts, runs, compress, sauce, steered: false, sauce_meta: 0, shape: 0, slots: Vec::new(), extra_fonts: Vec::new(), rec: None, names: Vec::new() }, false)
        })
        .boxed()
}

pub fn bin_models(small: bool) -> BoxedStrategy<Model> {
    with_extras(bin_inner(small), !small)
}

fn bin_inner(small: bool) -> BoxedStrategy<Model> {
    let width = if small {
        prop_oneof![2 => (1u16..=20).prop_map(|k| 2 * k), 1 => Just(80u16), 1 => Just(160u16)].boxed()
    } else {
        prop_oneof![3 => (1u16..=255).prop_map(|k| 2 * k), 2 => (1u16..=40).prop_map(|k| 2 * k), 1 => Just(80u16), 1 => Just(160u16), 1 => Just(510u16), 1 => Just(2u16)].boxed()
    };
    let height = if small { (1u16..=30).boxed() } else { heights() };
    (width, height, any::<bool>(), raw_runs(if small { 40 } else { 120 }))
        .prop_map(|(w, h, ice, runs)| {
            finish(
                Model { fmt: Fmt::Bin, w, h, ice, palette: DEFPAL6.to_vec(), font_h: 16, fonts: vec![FontM::Default], runs, compress: false, sauce: true, steered: false, sauce_meta: 0, shape: 0, slots: Vec::new(), extra_fonts: Vec::new(), rec: None, names: Vec::new() },
                false,
            )
        })
        .boxed()
}

pub fn adf_models(small: bool) -> BoxedStrategy<Model> {
    with_extras(adf_inner(small), !small)
}

fn adf_inner(small: bool) -> BoxedStrategy<Model> {
    let height = if small { (1u16..=30).boxed() } else { heights() };
    (height, pal6(), font1(), raw_runs(if small { 40 } else { 120 }), any::<bool>())
        .prop_map(|(h, palette, font, runs, sauce)| {
            finish(Model { fmt: Fmt::Adf, w: 80, h, ice: true, palette, font_h: 16, fonts: vec![font], runs, compress: false, sauce, steered: false, sauce_meta: 0, shape: 0, slots: Vec::new(), extra_fonts: Vec::new(), rec: None, names: Vec::new() }, false)
        })
        .boxed()
}

pub fn idf_models(small: bool) -> BoxedStrategy<Model> {
    with_extras(idf_inner(small), !small)
}

fn idf_inner(small: bool) -> BoxedStrategy<Model> {
    let height = if small { (1u16..=30).boxed() } else { heights() };
    let width = prop_oneof![3 => Just(80u16), 3 => 1u16..=80, 1 => Just(1u16)];
    // IDF cells that collide with the run marker (character 1, attribute 0) get extra weight
    let marker = Cell { ch: 1, fg: 0, bg: 0, blink: false, page: 0, rep: 0 };
    let runs = (raw_runs(if small { 40 } else { 120 }), prop::collection::vec((any::<u16>(), 1u8..=5), 0..=3)).prop_map(move |(mut r, ins)| {
        for (at, len) in ins {
            let i = icyv::util::pick(at, r.len() + 1);
            r.insert(i, (len, marker));
        }
        r
    });
    (width, height, pal6(), font1(), runs, any::<bool>(), any::<bool>())
        .prop_map(|(w, h, palette, font, runs, compress, sauce)| {
            // `finish` rescales colours 0..32 -> 0..16; the inserted marker cells are already final (0 stays 0)
            finish(Model { fmt: Fmt::Idf, w, h, ice: true, palette, font_h: 16, fonts: vec![font], runs, compress, sauce, steered: false, sauce_meta: 0, shape: 0, slots: Vec::new(), extra_fonts: Vec::new(), rec: None, names: Vec::new() }, false)
        })
        .boxed()
}

pub fn tnd_models(small: bool, st: Steer) -> BoxedStrategy<Model> {
    with_extras(tnd_inner(small, st), !small)
}

fn tnd_inner(small: bool, st: Steer) -> BoxedStrategy<Model> {
    // widths 1..=1000: Buffer::set_sauce deliberately reads a SAUCE width of 0 or > 1000 as 80 (property C11)
    let size = if small {
        prop_oneof![3 => (1u16..=40, 1u16..=30), 1 => (Just(80u16), 1u16..=30)].boxed()
    } else {
        prop_oneof![
            5 => (1u16..=100, heights()),
            3 => (Just(80u16), heights()),
            1 => (101u16..=1000, 1u16..=6),
            1 => (Just(1000u16), 1u16..=2),
        ]
        .boxed()
    };
    // characters 1..=6 collide with Tundra's command bytes; two thirds of the cases stay clear of them anyway
    (size, pal24(), raw_runs(if small { 40 } else { 120 }), 0u8..3)
        .prop_map(move |((w, h), palette, runs, ctl)| {
            let raw = Model { fmt: Fmt::Tnd, w, h, ice: true, palette, font_h: 16, fonts: vec![FontM::Default], runs, compress: false, sauce: true, steered: false, sauce_meta: 0, shape: 0, slots: Vec::new(), extra_fonts: Vec::new(), rec: None, names: Vec::new() };
            let mut steered = false;
            let mut avoid_ctrl = ctl != 0;
            if st.tnd_ctrl && !avoid_ctrl {
                avoid_ctrl = true;
                steered = raw.runs.iter().any(|(_, c)| (1..=6).contains(&c.ch));
            }
            let mut m = finish(raw, avoid_ctrl);
            // C05-tnd-palette0-not-black fires exactly when entry 0 is not black and the first cell is drawn in
            // entry 0's colour (foreground or background): the writer then emits no command for it
            if st.tnd_pal0 && m.palette[0] != [0, 0, 0] {
                let c0 = m.runs[0].1;
                if m.palette[c0.fg as usize] == m.palette[0] || m.palette[c0.bg as usize] == m.palette[0] {
                    m.palette[0] = [0, 0, 0];
                    steered = true;
                }
            }
            m.steered = steered;
            m
        })
        .boxed()
}

// ------------------------------------------------------------------------------------------------ minimiser

/// simpler candidate models (tried greedily after proptest's own shrinking); candidates outside the domain are
/// discarded by the check, so no format knowledge is needed here
pub fn simpler(m: &Model) -> Vec<Model> {
    let mut out = Vec::new();
    let mut push = |c: Model| {
        if c != *m {
            out.push(c);
        }
    };
    for h in [1, 2, m.h / 2, m.h.saturating_sub(1), 25] {
        if h >= 1 && h < m.h {
            push(Model { h, ..m.clone() });
        }
    }
    for w in [1, 2, m.w / 2, m.w.saturating_sub(1), m.w.saturating_sub(2), 80] {
        if w >= 1 && w < m.w {
            push(Model { w, ..m.clone() });
        }
    }
    if m.runs.len() > 1 {
        let n = m.runs.len();
        push(Model { runs: m.runs[..n / 2].to_vec(), ..m.clone() });
        push(Model { runs: m.runs[n / 2..].to_vec(), ..m.clone() });
        if n <= 24 {
            for i in 0..n {
                let mut r = m.runs.clone();
                r.remove(i);
                push(Model { runs: r, ..m.clone() });
            }
        }
    }
    if m.fmt != Fmt::Tnd && !m.is_default_palette() {
        push(Model { palette: DEFPAL6.to_vec(), ..m.clone() });
    }
    if m.fonts.len() == 2 {
        let mut c = m.clone();
        c.fonts.truncate(1);
        c.slots.truncate(1);
        c.names.truncate(1);
        for r in &mut c.runs {
            r.1.page = 0;
        }
        push(c);
    }
    if m.fonts != [FontM::Default] && m.fonts.len() == 1 {
        push(Model { fonts: vec![FontM::Default], font_h: 16, ..m.clone() });
    }
    if m.font_h != 16 {
        push(Model { font_h: 16, ..m.clone() });
    }
    if m.compress {
        push(Model { compress: false, ..m.clone() });
    }
    if m.shape != 0 {
        push(Model { shape: 0, ..m.clone() });
    }
    if m.rec.is_some() {
        push(Model { rec: None, ..m.clone() });
    }
    if let Some(r) = &m.rec {
        let plain = Rec { use_ice: false, letter_spacing: false, aspect_ratio: false, font: 0, w: 0, h: 0, kind: 0 };
        for cand in [
            Rec { use_ice: r.use_ice, ..plain.clone() },
            Rec { letter_spacing: false, ..r.clone() },
            Rec { aspect_ratio: false, ..r.clone() },
            Rec { font: 0, ..r.clone() },
            Rec { w: 0, h: 0, ..r.clone() },
            Rec { kind: 0, ..r.clone() },
            Rec { use_ice: false, ..r.clone() },
        ] {
            if cand != *r {
                push(Model { rec: Some(cand), ..m.clone() });
            }
        }
    }
    if !m.extra_fonts.is_empty() {
        push(Model { extra_fonts: Vec::new(), ..m.clone() });
    }
    if !m.names.is_empty() {
        push(Model { names: Vec::new(), ..m.clone() });
        for i in 0..m.names.len() {
            if m.names[i] != 0 {
                let mut n = m.names.clone();
                n[i] = 0;
                push(Model { names: n, ..m.clone() });
            }
        }
    }
    if !m.slots.is_empty() {
        push(Model { slots: Vec::new(), ..m.clone() });
        let small: Vec<u8> = if m.slots.len() == 2 { if m.slots[0] < m.slots[1] { vec![1, 2] } else { vec![2, 1] } } else { vec![1] };
        push(Model { slots: small, ..m.clone() });
    }
    if m.runs.iter().any(|r| r.1.rep != 0) {
        let mut c = m.clone();
        for r in &mut c.runs {
            r.1.rep = 0;
        }
        push(c);
    }
    if m.sauce_meta != 0 {
        push(Model { sauce_meta: 0, ..m.clone() });
        if m.sauce_meta > 1 {
            push(Model { sauce_meta: 1, ..m.clone() });
        }
    }
    if m.sauce {
        push(Model { sauce: false, sauce_meta: 0, ..m.clone() });
    }
    if m.runs.len() <= 12 {
        for i in 0..m.runs.len() {
            let (len, c) = m.runs[i];
            let mut cands = Vec::new();
            if len > 1 {
                cands.push((1, c));
                cands.push((len - 1, c));
            }
            if c.ch != 0 && c.ch != b'A' {
                cands.push((len, Cell { ch: if c.ch < 32 { 0 } else { b'A' }, ..c }));
            }
            if c.fg != 0 {
                cands.push((len, Cell { fg: 0, ..c }));
                cands.push((len, Cell { fg: c.fg - 1, ..c }));
            }
            if c.bg != 0 {
                cands.push((len, Cell { bg: 0, ..c }));
                cands.push((len, Cell { bg: c.bg - 1, ..c }));
            }
            if c.blink {
                cands.push((len, Cell { blink: false, ..c }));
            }
            if c.rep != 0 {
                cands.push((len, Cell { rep: 0, ..c }));
            }
            for cand in cands {
                let mut r = m.runs.clone();
                r[i] = cand;
                push(Model { runs: r, ..m.clone() });
            }
        }
    }
    out
}
